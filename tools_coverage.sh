#!/bin/bash
# line coverage of /repo/geometry_tools under the quick tier of every check (scratch data under /tmp, removed
# afterwards); prints per-file percentages and writes out/coverage_missing.txt
set -e
cd /verif
export PYTHONHASHSEED=0 MPLBACKEND=Agg OMP_NUM_THREADS=1 OPENBLAS_NUM_THREADS=1 MKL_NUM_THREADS=1 GEOMETRY_TOOLS_VERIF=1
export PYTHONPATH=/verif/.deps
C=$(mktemp -d /tmp/gtcov_XXXXXX)
for p in C01 C02 C03 C04 C05 C06 C07 C08 C09 C10 C11 C12 C13 C14 C15 C16 C17 C18 C19 C20; do
  ( COVERAGE_FILE=$C/.coverage.$p VERIF_JOBS=1 VERIF_NOEVIDENCE=1 VERIF_SEED=${VERIF_SEED:-1} \
    /venv/bin/python -m coverage run --source=/repo/geometry_tools -m vt.cli $p --tier ${TIER:-quick} > $C/$p.log 2>&1 || echo "$p exit $?" ) &
done
wait
cd $C && /venv/bin/python -m coverage combine -q .coverage.* && /venv/bin/python -m coverage report -m --skip-empty > /verif/out/coverage_report.txt
cd /verif; rm -rf $C
tail -40 out/coverage_report.txt | cut -c1-150
