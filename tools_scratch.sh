#!/bin/bash
# usage: tools_scratch.sh [PATCH]  -> prints a scratch dir holding /repo HEAD (+ patch); the caller removes it
set -e
d=$(mktemp -d /tmp/gtscr_XXXXXX)
git -C /repo archive HEAD | tar -x -C $d
if [ -n "$1" ]; then p=$(realpath "$1"); (cd / && git apply --directory=${d#/} --unsafe-paths "$p"); fi
echo $d
