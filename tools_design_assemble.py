#!/venv/bin/python
"""(re)builds section 7 of DESIGN.md from notes/section7_draft.md, notes/deviations_by_property.md
and the tables derived from known_findings.json and seeded/*/meta.json"""
import os, re, subprocess
ROOT = os.path.dirname(os.path.abspath(__file__))
d = open(os.path.join(ROOT, "DESIGN.md")).read()
draft = open(os.path.join(ROOT, "notes", "section7_draft.md")).read()
dev = open(os.path.join(ROOT, "notes", "deviations_by_property.md")).read()
fixes = subprocess.run([os.path.join(ROOT, "tools_design_tables.py"), "fixes"], capture_output=True, text=True).stdout
seeded = subprocess.run([os.path.join(ROOT, "tools_design_tables.py"), "seeded"], capture_output=True, text=True).stdout
laws = subprocess.run([os.path.join(ROOT, "tools_design_tables.py"), "laws"], capture_output=True, text=True).stdout
draft = draft.replace("LAWS_TABLE_PLACEHOLDER", laws)
nseed = seeded.count("| seeded/")
nmiss = seeded.count("| no - ")
draft = draft.replace("AGENT_DEVIATIONS_PLACEHOLDER", dev)
draft = draft.replace("MORE_DEFECTS_PLACEHOLDER",
    "Complete list of repairs (one `fix:` commit each, in commit order; the same lines are in "
    "`known_findings.json`, each with at least one case under `regressions/<id>/` that fails on the "
    "original snapshot and passes on `/repo`):\n\n" + fixes)
draft = draft.replace("SEEDED_TABLE_PLACEHOLDER",
    "%d seeded changes are stored; %d of them were missed by the check as it stood when the change "
    "arrived and led to a new law or a wider generator (last column; details in each `meta.json` "
    "under `history`). All %d are detected by the quick tier now.\n\n" % (nseed, nmiss, nseed) + seeded)
start = d.find("## 7. Build phase")
app = d.find("## Appendix A")
if start != -1:
    d = d[:start] + d[app:]
    app = d.find("## Appendix A")
d = d[:app] + draft.rstrip() + "\n\n\n" + d[app:]
open(os.path.join(ROOT, "DESIGN.md"), "w").write(d)
print("section 7 rebuilt: %d seeded rows, %d fix rows" % (nseed, fixes.count("| C")))
