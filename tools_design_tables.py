#!/venv/bin/python
"""prints the markdown tables of DESIGN.md section 7 that are derived from files:
  fixes  - from known_findings.json ('fixed' lines) in commit order
  seeded - from seeded/<id>/<name>/meta.json"""
import json, glob, os, re, subprocess, sys
ROOT = os.path.dirname(os.path.abspath(__file__))
kf = json.load(open(os.path.join(ROOT, "known_findings.json")))
order = subprocess.run("git -C /repo log --reverse --format=%h", shell=True, capture_output=True, text=True).stdout.split()
def key(line):
    m = re.match(r"fixed: property=(C\d+) (\w+) (.*)", line)
    h = m.group(2)
    idx = next((i for i, o in enumerate(order) if o.startswith(h[:7]) or h.startswith(o[:7])), 999)
    return idx
which = sys.argv[1] if len(sys.argv) > 1 else "both"
if which in ("fixes", "both"):
    print("| fix commit | property | what failed |"); print("|---|---|---|")
    for line in sorted(kf["fixed"], key=key):
        m = re.match(r"fixed: property=(C\d+) (\w+) (.*)", line)
        print("| %s | %s | %s |" % (m.group(2), m.group(1), m.group(3).replace("|", "\\|")))
    print()
if which in ("seeded", "both"):
    print("| seeded change | site | what was changed | detected by (quick tier) | at first run? |"); print("|---|---|---|---|---|")
    for p in sorted(glob.glob(os.path.join(ROOT, "seeded", "*", "*", "meta.json"))):
        d = json.load(open(p)); rel = os.path.relpath(os.path.dirname(p), ROOT)
        laws = []
        for k, v in d.get("checks", {}).items():
            if v["exit"] == 1:
                laws.append("%s: %s" % (k.split("/")[0], ", ".join(v["laws"][:2])))
        det = "; ".join(laws) if laws else "NOT DETECTED"
        hist = d.get("history", "")
        first = "no - see meta.json: " + hist.split(";", 1)[-1].strip()[:200] if hist.startswith("initially MISSED") else "yes"
        print("| %s | %s | %s | %s | %s |" % (rel, d.get("site", "").replace("geometry_tools/", ""),
              str(d.get("title", ""))[:150].replace("|", "\\|").replace("\n", " "), det, first))
if which == "laws":
    # the laws as built, read from the modules themselves
    sys.path.insert(0, ROOT); sys.path.insert(0, "/repo")
    os.environ.setdefault("MPLBACKEND", "Agg")
    import importlib
    print("| property | law | cases quick / thorough (per shard x shards) | exhaustive domains |"); print("|---|---|---|---|")
    for i in range(1, 21):
        pid = "C%02d" % i
        mod = importlib.import_module("vt.props.c%02d" % i)
        for law in mod.LAWS:
            if law.strategy is not None:
                q, t = law.budget("quick"), law.budget("thorough")
                sq, stt = law.nshards("quick"), law.nshards("thorough")
                cases = "%d x %d / %d x %d" % (q, sq, t, stt)
            else:
                cases = "-"
            ex = ""
            if law.exhaustive is not None:
                try:
                    doms = law.exhaustive("quick")
                    if doms and not isinstance(doms, list): doms = [doms]
                    ex = "; ".join("%s (%d)" % (n_[:70], len(list(c_))) for n_, c_ in doms)
                except Exception as e:  # noqa
                    ex = "yes"
            print("| %s | %s | %s | %s |" % (pid, law.name, cases, ex.replace("|", "\\|")))
