#!/venv/bin/python
"""Regenerates MANIFEST.json from vt/props/*.py (claimed properties = modules present
with a CLAIM dict) and validates it against the schema."""
import os, sys, json, importlib
ROOT = os.path.dirname(os.path.abspath(__file__))
sys.path.insert(0, ROOT); sys.path.insert(0, os.environ.get("VERIF_REPO", "/repo"))
os.environ.setdefault("MPLBACKEND", "Agg")
props = [json.loads(l) for l in open(os.path.join(ROOT, "properties.jsonl"))]
checks, na = [], []
for p in props:
    pid = p["id"]
    path = os.path.join(ROOT, "vt", "props", pid.lower() + ".py")
    if not os.path.exists(path):
        na.append({"property_id": pid, "reason": "check not built yet in this session (designed in DESIGN.md section 4; the technique applies)"})
        continue
    ready = set(os.environ.get("VERIF_CLAIM", "").split(",")) if os.environ.get("VERIF_CLAIM") else None
    if ready is not None and pid not in ready:
        na.append({"property_id": pid, "reason": "check module still under construction in this session (designed in DESIGN.md section 4; the technique applies)"})
        continue
    mod = importlib.import_module("vt.props." + pid.lower())
    claim = getattr(mod, "CLAIM", {})
    checks.append({
        "property_id": pid,
        "quick_cmd": "./check %s --tier quick" % pid,
        "thorough_cmd": "./check %s --tier thorough" % pid,
        "evidence_file": "evidence/%s.json" % pid,
        "replay_cmd_template": "./check %s --replay {path}" % pid,
        "engine": "vt",
        "level_claimed": {
            "category": "exploration",
            "text": ("Exploration by generated-input search: every law of the property is a seeded Hypothesis search (VERIF_SEED, sharded over processes) over JSON cases, plus complete enumeration of the finite sub-domains it names, against oracles written independently of the library; a failure is shrunk to a replay file. It refutes, it never proves; the evidence file reports cases, distinct non-trivial cases, label distribution and worst residual/tolerance per law. Scope of this check: " + claim.get("text", "the laws listed in DESIGN.md for this property.")),
            "design_ref": "DESIGN.md section 4, " + pid,
        },
        "level_note": claim.get("note", "trusted: numpy/LAPACK, the harness oracles in vt/oracles and vt/props/%s.py, stated tolerances and generator bounds" % pid.lower()),
        "technique": claim.get("technique", "property-based testing (Hypothesis) with independent closed-form / reference-model oracles"),
    })
man = {
    "version": 1,
    "setup_cmd": "./setup.sh",
    "hooks": {
        "guard": "GEOMETRY_TOOLS_VERIF",
        "enable": "no source hooks are needed: every property is observable through the public API; checks import /repo's working tree directly (editable install, VERIF_REPO at sys.path[0])",
        "baseline_off_cmd": "cd /repo && /venv/bin/python -m pytest -ra -q -p no:cacheprovider --timeout=900 --continue-on-collection-errors",
        "source_commits": [],
        "add_only": True,
    },
    "engines": [{"name": "vt", "path": "vt/", "serves_properties": [c["property_id"] for c in checks],
                 "kind_free_text": "Hypothesis-driven law runner: per-law seeded search + exhaustive finite sub-domains + regression replay; JSON cases, shrinking, replay files"}],
    "checks": checks,
    "not_applicable": na,
    "notes": "Run ./check <id> [--tier quick|thorough]; VERIF_SEED selects the seed. known_findings.json lists fixed and open findings; regressions/<id>/ holds minimal failing cases replayed first by every run.",
}
json.dump(man, open(os.path.join(ROOT, "MANIFEST.json"), "w"), indent=1); open(os.path.join(ROOT, "MANIFEST.json"), "a").write("\n")
print("MANIFEST ok: %d checks, %d not_applicable" % (len(checks), len(na)))
