#!/usr/bin/env python3-vt
"""Validate MANIFEST.json and evidence/*.json against the schemas (uses the tooling venv's jsonschema)."""
import json, glob, sys, os
import jsonschema
ROOT = os.path.dirname(os.path.abspath(__file__))
ok = True
man = json.load(open(os.path.join(ROOT, "MANIFEST.json")))
jsonschema.validate(man, json.load(open("/root/.vp/MANIFEST.schema.json")))
print("MANIFEST.json valid: %d checks, %d not_applicable" % (len(man["checks"]), len(man.get("not_applicable", []))))
es = json.load(open("/root/.vp/EVIDENCE.schema.json"))
for c in man["checks"]:
    p = os.path.join(ROOT, c["evidence_file"])
    if not os.path.exists(p):
        print("MISSING", p); ok = False; continue
    try:
        ev = json.load(open(p)); jsonschema.validate(ev, es)
        print("valid", c["evidence_file"], ev["tier"], "evals", ev["coverage"]["evaluations"], "nt", ev["coverage"]["distinct_nontrivial"], "viol", ev.get("violations"))
    except Exception as e:
        print("INVALID", p, str(e)[:300]); ok = False
sys.exit(0 if ok else 1)
