#!/venv/bin/python
"""Re-run the quick check of its own property against every stored seeded change (scratch copy of
/repo HEAD + patch), record the outcome in meta.json under 'final' and print a summary.
  tools_seedsweep.py [PID ...]        (SWEEP_SEEDS="1 2 3": every seed value must detect the change)"""
import os, sys, re, json, glob, shutil, subprocess, tempfile
from concurrent.futures import ThreadPoolExecutor
ROOT = os.path.dirname(os.path.abspath(__file__))
want = set(sys.argv[1:])
dirs = sorted(d for d in glob.glob(os.path.join(ROOT, "seeded", "*", "*")) if os.path.isdir(d))
if want:
    dirs = [d for d in dirs if os.path.basename(os.path.dirname(d)) in want]
head = subprocess.run("git -C /repo rev-parse --short HEAD", shell=True, capture_output=True, text=True).stdout.strip()
def one(d):
    pid = os.path.basename(os.path.dirname(d))
    tmp = tempfile.mkdtemp(prefix="gtsweep_", dir=os.environ.get("TMPDIR", "/tmp"))
    try:
        subprocess.check_call("git -C /repo archive HEAD | tar -x -C %s" % tmp, shell=True)
        r = subprocess.run("git apply --directory=%s --unsafe-paths %s" % (tmp.lstrip("/"), os.path.join(d, "patch.diff")),
                           shell=True, cwd="/", capture_output=True, text=True)
        if r.returncode:
            r = subprocess.run("git apply -3 --directory=%s --unsafe-paths %s" % (tmp.lstrip("/"), os.path.join(d, "patch.diff")),
                               shell=True, cwd="/", capture_output=True, text=True)
        if r.returncode:
            return d, "patch-does-not-apply", []
        rcs, laws = [], set()
        for seed in os.environ.get("SWEEP_SEEDS", "1").split():
            env = dict(os.environ, VERIF_REPO=tmp, VERIF_SEED=seed, VERIF_NOEVIDENCE="1", VERIF_JOBS="4")
            rr = subprocess.run(["./check", pid, "--tier", "quick"], cwd=ROOT, env=env, capture_output=True, text=True)
            laws |= set(re.findall(r"law=(\S+)", rr.stdout))
            rcs.append(rr.returncode)
        # 1 only if every seed value detected it
        rc = 1 if all(x == 1 for x in rcs) else (rcs[0] if len(set(rcs)) == 1 else "mixed:%s" % rcs)
        return d, rc, sorted(laws)
    finally:
        shutil.rmtree(tmp, ignore_errors=True)
with ThreadPoolExecutor(4) as ex:
    res = list(ex.map(one, dirs))
miss = 0
for d, rc, laws in res:
    m = json.load(open(os.path.join(d, "meta.json")))
    m["final"] = {"repo_head": head, "own_check_quick_exit": rc, "laws": laws,
                  "seeds": os.environ.get("SWEEP_SEEDS", "1")}
    json.dump(m, open(os.path.join(d, "meta.json"), "w"), indent=1)
    flag = "ok " if rc == 1 else "MISS"
    if rc != 1:
        miss += 1
    print(flag, os.path.relpath(d, ROOT), rc, laws[:3])
print("%d seeded changes, %d not detected by their own property's quick check" % (len(res), miss))
