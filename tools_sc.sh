#!/bin/bash
# usage: tools_sc.sh PID PREFIX [ALSO]   - confirm + check the 4 deliveries /tmp/seed_PID_out/m1..m4, store as PREFIXm1..
p=$1; pre=$2; also=$3
for m in m1 m2 m3 m4; do
  [ -d /tmp/seed_${p}_out/$m ] || continue
  ./tools_seedcheck.py $p /tmp/seed_${p}_out/$m $pre$m ${also:+--also $also} > out/sc_${p}_$pre$m.log 2>&1
  /venv/bin/python - <<PY
import json
t=open("out/sc_${p}_$pre$m.log").read()
try:
    d=json.loads(t[t.index("{"):]); print("$p $pre$m confirmed=",d["confirmed"], {k:(v["exit"],v["laws"][:3]) for k,v in d["checks"].items()})
except Exception as e: print("$p $pre$m PARSE", t[-300:])
PY
done
