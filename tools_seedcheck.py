#!/venv/bin/python
"""Confirm a seeded change and run the checks against it.
  tools_seedcheck.py PID SRC_DIR NAME [--also C03,C04] [--thorough]
SRC_DIR holds patch.diff, demo.py, meta.json (written by an isolated sub-agent).  Everything runs in a
scratch copy of /repo's HEAD outside /repo and /verif, which is removed at the end.  On success the
three files are stored as /verif/seeded/PID/NAME/ with the outcome appended to meta.json."""
import os, sys, re, json, shutil, subprocess, tempfile, argparse
ap = argparse.ArgumentParser(); ap.add_argument("pid"); ap.add_argument("src"); ap.add_argument("name")
ap.add_argument("--also", default=""); ap.add_argument("--thorough", action="store_true"); ap.add_argument("--seed", default="1")
a = ap.parse_args()
tmp = tempfile.mkdtemp(prefix="gtseed_", dir=os.environ.get("TMPDIR", "/tmp"))
def sh(cmd, **kw):
    return subprocess.run(cmd, shell=True, capture_output=True, text=True, **kw)
def tests():
    r = sh("cd %s && /venv/bin/python -m pytest -q -p no:cacheprovider --timeout=900 --continue-on-collection-errors 2>&1 | tail -1" % tmp)
    return r.stdout.strip()
def demo():
    r = sh("cd %s && PYTHONPATH=%s MPLBACKEND=Agg /venv/bin/python %s" % (tmp, tmp, os.path.abspath(os.path.join(a.src, "demo.py"))))
    return r.returncode, (r.stdout + r.stderr).strip()[-400:]
res = {}
try:
    subprocess.check_call("git -C /repo archive HEAD | tar -x -C %s" % tmp, shell=True)
    res["tests_without"] = tests(); res["demo_without"] = demo()
    r = sh("git apply --directory=%s --unsafe-paths %s" % (tmp.lstrip("/"), os.path.abspath(os.path.join(a.src, "patch.diff"))), cwd="/")
    if r.returncode:
        print("PATCH DOES NOT APPLY:", r.stderr); sys.exit(3)
    res["tests_with"] = tests(); res["demo_with"] = demo()
    ok_tests = re.sub(r" in [0-9.]+s.*", "", res["tests_with"]) == re.sub(r" in [0-9.]+s.*", "", res["tests_without"])
    ok_demo = res["demo_without"][0] == 0 and res["demo_with"][0] != 0
    res["confirmed"] = bool(ok_tests and ok_demo)
    checks = {}
    for cid in [a.pid] + [c for c in a.also.split(",") if c]:
        for tier in (["quick", "thorough"] if a.thorough else ["quick"]):
            env = dict(os.environ, VERIF_REPO=tmp, VERIF_SEED=a.seed, VERIF_NOEVIDENCE="1")
            rr = subprocess.run(["./check", cid, "--tier", tier], cwd="/verif", env=env, capture_output=True, text=True)
            laws = sorted(set(re.findall(r"law=(\S+)", rr.stdout)))
            checks["%s/%s" % (cid, tier)] = {"exit": rr.returncode, "laws": laws,
                                             "first": next((l.strip()[:300] for l in rr.stdout.splitlines() if l.strip().startswith("law=")), "")}
            if rr.returncode == 1 and tier == "quick":
                break
    res["checks"] = checks
    print(json.dumps(res, indent=1))
    if res["confirmed"]:
        dst = os.path.join("/verif/seeded", a.pid, a.name); os.makedirs(dst, exist_ok=True)
        for f in ("patch.diff", "demo.py"):
            shutil.copy(os.path.join(a.src, f), dst)
        meta = json.load(open(os.path.join(a.src, "meta.json")))
        meta["confirmed_by_me"] = {"tests_without": res["tests_without"], "tests_with": res["tests_with"],
                                   "demo_without_exit": res["demo_without"][0], "demo_with_exit": res["demo_with"][0],
                                   "demo_with_output": res["demo_with"][1]}
        meta["what_i_ran"] = "scratch copy of /repo HEAD (%s) + patch; repository suite; demo.py; ./check with VERIF_REPO=<copy>, VERIF_SEED=%s" % (
            sh("git -C /repo rev-parse --short HEAD").stdout.strip(), a.seed)
        meta["checks"] = checks
        meta["detected"] = any(v["exit"] == 1 for v in checks.values())
        json.dump(meta, open(os.path.join(dst, "meta.json"), "w"), indent=1)
finally:
    shutil.rmtree(tmp, ignore_errors=True)
