#!/bin/bash
# offline setup: hypothesis must be importable from /venv (the repository is installed there
# in editable mode, so checks import /repo's working tree; nothing to build).  atheris is
# optional (only the thorough tier of C09 uses it) and goes into /verif/.deps.
set -e
cd "$(dirname "$0")"
export PIP_NO_INDEX=1
if ! /venv/bin/python -c "import hypothesis" 2>/dev/null; then
  /venv/bin/pip install --no-index --find-links /opt/veriftools/wheels hypothesis
fi
if ! PYTHONPATH=.deps /venv/bin/python -c "import atheris" 2>/dev/null; then
  /venv/bin/pip install -q --no-index --find-links /opt/veriftools/wheels --target .deps atheris \
    || echo "setup: atheris not installable here; the C09 fuzz campaign will be skipped"
fi
/venv/bin/python -c "import hypothesis, numpy, scipy, matplotlib, geometry_tools; print('setup ok', hypothesis.__version__, numpy.__version__)"
