#!/bin/bash
# offline setup: make sure hypothesis is importable from /venv; nothing else to build
set -e
if ! /venv/bin/python -c "import hypothesis" 2>/dev/null; then
  PIP_NO_INDEX=1 /venv/bin/pip install --no-index --find-links /opt/veriftools/wheels hypothesis
fi
/venv/bin/python -c "import hypothesis, numpy, scipy, matplotlib, geometry_tools; print('setup ok', hypothesis.__version__, numpy.__version__)"
