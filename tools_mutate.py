#!/venv/bin/python
"""Sensitivity helper.  Usage:
  tools_mutate.py --patch FILE  CHECK_ID [CHECK_ID ...]      apply a unified diff (git apply) to a scratch copy
  tools_mutate.py --sub FILE 'OLD' 'NEW' CHECK_ID [...]      textual single-site substitution in geometry_tools/FILE
Copies /repo (tracked files) to a scratch dir outside /repo and /verif, mutates it, optionally runs
the repository's test suite (--tests), runs ./check for each id with VERIF_REPO pointing at the copy,
prints one line per check, removes the scratch dir."""
import os, sys, shutil, subprocess, tempfile, argparse
ap = argparse.ArgumentParser()
ap.add_argument("--patch"); ap.add_argument("--sub", nargs=3, metavar=("FILE", "OLD", "NEW"))
ap.add_argument("--tests", action="store_true"); ap.add_argument("--tier", default="quick")
ap.add_argument("--seed", default="1"); ap.add_argument("ids", nargs="+")
a = ap.parse_args()
tmp = tempfile.mkdtemp(prefix="gtmut_", dir=os.environ.get("TMPDIR", "/tmp"))
try:
    subprocess.check_call("git -C /repo archive HEAD | tar -x -C %s" % tmp, shell=True)
    # working-tree state of tracked files (in case /repo has uncommitted edits)
    if a.patch:
        subprocess.check_call(["git", "apply", "--directory=" + tmp, "--unsafe-paths", os.path.abspath(a.patch)], cwd="/")
    if a.sub:
        f = os.path.join(tmp, "geometry_tools", a.sub[0]); s = open(f).read()
        if s.count(a.sub[1]) != 1:
            print("SUB-ERROR: old text occurs %d times" % s.count(a.sub[1])); sys.exit(3)
        open(f, "w").write(s.replace(a.sub[1], a.sub[2]))
    if a.tests:
        r = subprocess.run("cd %s && /venv/bin/python -m pytest -q -p no:cacheprovider --timeout=900 --continue-on-collection-errors -x -q 2>&1 | tail -1" % tmp, shell=True, capture_output=True, text=True)
        print("tests:", r.stdout.strip())
    for cid in a.ids:
        env = dict(os.environ, VERIF_REPO=tmp, VERIF_SEED=a.seed, VERIF_NOEVIDENCE="1")
        r = subprocess.run(["./check", cid, "--tier", a.tier], cwd="/verif", env=env, capture_output=True, text=True)
        v = [l for l in r.stdout.splitlines() if l.startswith("VIOLATION") or l.startswith("  law=")]
        print("%s exit=%d %s" % (cid, r.returncode, " | ".join(x.strip()[:160] for x in v[:4])))
finally:
    shutil.rmtree(tmp, ignore_errors=True)
