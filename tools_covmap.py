#!/venv/bin/python
"""maps the missing lines of out/coverage_report.txt to function names"""
import ast, re, sys
for line in open("/verif/out/coverage_report.txt"):
    m = re.match(r"(/repo/\S+\.py)\s+(\d+)\s+(\d+)\s+(\d+)%\s+(.*)", line)
    if not m or m.group(3) == "0": continue
    f, miss = m.group(1), m.group(5)
    if any(x in f for x in ("sagewrap", "snappy", "examples", "testing", "wrapped_funcs")): continue
    lines = set()
    for part in miss.split(","):
        part = part.strip()
        if not part: continue
        if "-" in part:
            a, b = part.split("-"); lines |= set(range(int(a), int(b) + 1))
        else: lines.add(int(part))
    tree = ast.parse(open(f).read())
    funcs = []
    def walk(node, prefix):
        for ch in ast.iter_child_nodes(node):
            if isinstance(ch, (ast.FunctionDef, ast.AsyncFunctionDef)):
                funcs.append((prefix + ch.name, ch.lineno, ch.end_lineno)); walk(ch, prefix + ch.name + ".")
            elif isinstance(ch, ast.ClassDef):
                walk(ch, prefix + ch.name + ".")
    walk(tree, "")
    out = {}
    for l in sorted(lines):
        best = None
        for (n, a, b) in funcs:
            if a <= l <= b and (best is None or a >= best[1]): best = (n, a, b)
        key = best[0] if best else "<module>"
        out.setdefault(key, []).append(l)
    print(f.replace("/repo/geometry_tools/", ""))
    for k, v in out.items():
        tot = [b - a + 1 for (n, a, b) in funcs if n == k]
        print("   %-55s %3d missing of ~%s lines  %s" % (k, len(v), tot[0] if tot else "?", v[:6]))
