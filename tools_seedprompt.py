#!/venv/bin/python
"""prints the prompt given to an isolated mutation-seeding sub-agent for one property"""
import json, sys
pid = sys.argv[1]; n = int(sys.argv[2]) if len(sys.argv) > 2 else 3
rnd = int(sys.argv[3]) if len(sys.argv) > 3 else 1
import glob, os
used = []
for mp in sorted(glob.glob('/verif/seeded/%s/*/meta.json' % pid)):
    d = json.load(open(mp)); used.append("%s - %s" % (d.get("site", "?"), str(d.get("title", ""))[:110]))
p = [json.loads(l) for l in open('/verif/properties.jsonl') if json.loads(l)['id'] == pid][0]
wt = "/tmp/seed_%s" % pid; out = "/tmp/seed_%s_out" % pid
extra = ""
if rnd > 1 and used:
    extra = ("\nThis is round %d. Changes already produced in earlier rounds (do NOT repeat these functions or ideas; find different ones):\n  - " % rnd
             + "\n  - ".join(used)
             + "\nFor this round look further afield: helper functions in other modules that the property silently depends on; behaviour that differs only for one dtype (float32, complex, integer), one dimension, one composite rank (>= 2, or size-1 axes), one non-default keyword argument, the second call on the same object (state / caching / aliasing of caller data), an input at a boundary (zero, exactly equal values, an empty word or list, a repeated label), or the interaction of two call sites that each look fine alone. At least one of your changes should be a 'two cooperating sites' or 'needs a sequence of calls' change." + (" In round 3 and later at least one change should alter the result only slightly but clearly beyond rounding (a relative error between 1e-6 and 1e-2 for some inputs: a truncated series, a dropped small term, single precision sneaking into one intermediate, an approximate comparison that is too generous), and at least one should sit in a code path reached only through a public function that the earlier changes did not go through." if rnd == 3 else "") + (" In this round think like a maintainer doing one of these refactors and getting one corner wrong: (a) replacing a Python loop by vectorised NumPy (broadcast axes, einsum subscripts, keepdims, np.take_along_axis), (b) adding memoisation or reusing a scratch buffer, (c) changing a default argument or the order of keyword arguments, (d) 'simplifying' a numerically careful formula, (e) special handling of empty input (a composite of shape (0,), an empty word list, an automaton without edges), of the lowest dimension or of dimension >= 4, (f) input arrays that are non-contiguous, read-only, Fortran-ordered or have negative strides, or that are shared between two objects (the same Point in two Segments, one automaton used by two representations), (g) an exception type or a silently returned NaN where a result is due. Use at least three different letters among your changes." if rnd >= 4 else "") + "\n")
print(f"""You are testing how good a (hidden) verification harness is. You get one semantic property of the Python library tjweisman/geometry_tools (numpy toolkit for hyperbolic/projective geometry, isometries, group representations, Coxeter groups, finite-state automata, matplotlib drawing) and your own scratch git worktree of the library at {wt} (a detached worktree; edit files there freely; never touch /repo, never look at or touch /verif or any other /tmp/seed_* directory; never use `git stash` - the stash is shared with other worktrees of the same repository that other people are using right now; save a change with `git diff > file` and undo it with `git checkout -- .`).

PROPERTY {pid}: {p['title']}
Statement: {p['statement']}
Quantified over: {p['quantifier']['text']}
Code it is anchored in: {', '.join(p['anchors']['files'])}

{extra}
TASK: produce {n} DIFFERENT realistic changes (bugs) to the library, each of which breaks this property while the library still imports and the existing test suite still gives the same result. "Realistic" = the kind of slip a maintainer could make in a refactor or "optimisation" (operand order, transposed/swapped axes, dropped abs/sign/copy, off-by-one, wrong mask or index, stale cache or aliasing, boundary comparison, a special case handled wrongly, an early return, two cooperating sites that each look fine alone). Prefer changes that need something SPECIFIC to manifest - an unusual but legitimate input (a composite shape, a size-1 axis, a negative scale factor, a special angle, a particular dimension, a non-default option), a multi-step sequence of operations, or a particular combination of options - rather than ones that any ordinary use exposes at once. The {n} changes must have different root sites (different functions), and each must be independent (each diff is against the pristine worktree, not cumulative). Make them moderately subtle but not absurdly contrived: the property must be clearly violated for the triggering inputs (a wrong value well above rounding error, a wrong word set, a stale array, an exception where a result is due).

Existing test suite (must give exactly the same outcome with your change as without: 81 passed, 3 failed, 2 errors - those 3 failures/2 errors are pre-existing and unrelated):
  cd {wt} && /venv/bin/python -m pytest -q -p no:cacheprovider --timeout=900 --continue-on-collection-errors
(run it with `python -m pytest` from the worktree root as written, so that the worktree's package is imported; a plain `import geometry_tools` elsewhere resolves to /repo, so run your demonstration as `PYTHONPATH={wt} /venv/bin/python demo.py`.)

DELIVERABLES, for i = 1..{n}, in {out}/m<i>/ :
  patch.diff  - `git -C {wt} diff` of that one change (then `git -C {wt} checkout -- .` before the next one)
  demo.py     - a small standalone program using only the public API of geometry_tools (+numpy) that exits 0 and prints PASS on the pristine worktree and exits 1 and prints FAIL (with the offending values) with the patch applied; it should check the property the way a user would notice it, on the triggering input
  meta.json   - {{"property": "{pid}", "title": short name of the change, "site": "file:function", "needs": what specific input/sequence/option it needs in order to manifest, "why_tests_pass": one sentence, "ordinary_use_affected": true/false}}
Verify each one yourself: tests unchanged with the patch; demo FAILs with the patch and PASSes without. Leave the worktree clean (`git -C {wt} status` empty) at the end. Your final message: a 3-line summary per change.""")
