"""Runs the laws of one property: Hypothesis driver, exhaustive driver, sharding
over processes, statistics, failure capture."""
import os
import sys
import json
import time
import zlib
import traceback
import importlib
import warnings
import collections
import multiprocessing

from .core import Violation, HarnessError, Ctx, case_key, jsonable

ROOT = os.path.dirname(os.path.dirname(os.path.abspath(__file__)))
REPO = os.environ.get("VERIF_REPO", "/repo")


def setup_paths():
    if REPO not in sys.path[:1]:
        sys.path.insert(0, REPO)


def load_property(pid):
    setup_paths()
    return importlib.import_module("vt.props.%s" % pid.lower())


def open_findings(pid):
    if os.environ.get("VERIF_IGNORE_OPEN"):      # (used when trying out a repair)
        return []
    path = os.path.join(ROOT, "known_findings.json")
    try:
        with open(path) as f:
            data = json.load(f)
    except FileNotFoundError:
        return []
    return [e for e in data.get("open", []) if e.get("property") == pid]


def _is_library_frame(filename):
    fn = filename.replace("\\", "/")
    return "/geometry_tools/" in fn and "/vt/" not in fn


def classify_exception(exc):
    """'library' if the traceback passes through geometry_tools, else 'harness'."""
    tb = exc.__traceback__
    frames = traceback.extract_tb(tb)
    for fr in frames:
        if _is_library_frame(fr.filename):
            return "library"
    return "harness"


def _short(case, limit=1500):
    s = json.dumps(case, default=repr)
    if len(s) <= limit:
        return case
    return {"truncated_json": s[:limit] + "..."}


class Stats:
    def __init__(self):
        self.evaluations = 0
        self.rejected = 0
        self.units = 0
        self.labels = collections.Counter()
        self.nt_keys = set()
        self.all_keys = set()
        self.samples = []
        self.resid = {}
        self.excluded = collections.Counter()
        self.failure = None
        self.exhaustive = []   # list of {"domain":..., "size":...}
        self.wall = 0.0

    def to_dict(self):
        return dict(evaluations=self.evaluations, rejected=self.rejected,
                    units=self.units, labels=dict(self.labels),
                    nt_keys=sorted(self.nt_keys), distinct=len(self.all_keys),
                    samples=self.samples, resid=self.resid,
                    excluded=dict(self.excluded), failure=self.failure,
                    exhaustive=self.exhaustive, wall=self.wall)


class CaseTimeout(BaseException):
    pass


CASE_TIMEOUT = float(os.environ.get("VERIF_CASE_TIMEOUT", "900"))


def _alarm(signum, frame):
    raise CaseTimeout()


def run_body(law, case, stats, findings_open, count=True):
    """Run one case.  Returns None or a failure record."""
    import numpy as np
    import signal
    ctx = Ctx(findings_open)
    armed = False
    try:
        # watchdog: a single case normally takes milliseconds to seconds (the slowest ones,
        # large Coxeter automata, tens of seconds); a library call that does not come back
        # within CASE_TIMEOUT (15 min) is reported as a violation ("a result is due")
        try:
            signal.signal(signal.SIGALRM, _alarm)
            signal.setitimer(signal.ITIMER_REAL, CASE_TIMEOUT)
            armed = True
        except (ValueError, AttributeError):
            pass
        with warnings.catch_warnings():
            warnings.simplefilter("ignore")
            with np.errstate(all="ignore"):
                law.body(case, ctx)
    except CaseTimeout:
        return dict(kind="timeout", law=law.name,
                    msg="the case did not finish within %.0f s (library call hangs?)" %
                        CASE_TIMEOUT, detail={}, case=case)
    except Violation as v:
        return dict(kind="violation", law=law.name, msg=v.msg, detail=v.detail,
                    case=case)
    except HarnessError:
        raise
    except Exception as e:  # noqa
        import hypothesis.errors as he
        if isinstance(e, he.HypothesisException):
            raise
        if classify_exception(e) == "library":
            tb = traceback.format_exc(limit=-6)
            return dict(kind="library_exception", law=law.name,
                        msg="%s: %s" % (type(e).__name__, e), detail={"traceback": tb},
                        case=case)
        raise HarnessError("harness error in law %s: %s\n%s" % (
            law.name, e, traceback.format_exc())) from e
    finally:
        if armed:
            signal.setitimer(signal.ITIMER_REAL, 0)
    if count:
        stats.evaluations += 1
        stats.units += ctx.units
        for l in ctx.labels:
            stats.labels[l] += 1
        for x in ctx.excluded:
            stats.excluded[x] += 1
        key = case_key(case)
        stats.all_keys.add(key)
        if not ctx.excluded and law.nontrivial(ctx.labels):
            if key not in stats.nt_keys:
                stats.nt_keys.add(key)
                if len(stats.samples) < 3:
                    stats.samples.append({"law": law.name, "labels": sorted(ctx.labels),
                                          "case": _short(case)})
        for k, v in ctx.resid.items():
            if k not in stats.resid or v > stats.resid[k]:
                stats.resid[k] = v
    return None


def derive_seed(seed, law_name, shard):
    return (seed * 1000003 + zlib.crc32(law_name.encode()) + shard * 7919) % (2 ** 32)


def run_hypothesis(law, tier, seed, shard, findings_open, budget=None):
    import hypothesis
    from hypothesis import given, settings, HealthCheck, Phase
    stats = Stats()
    state = {"fail": None}
    n = budget if budget is not None else law.budget(tier)

    @hypothesis.seed(derive_seed(seed, law.name, shard))
    @settings(max_examples=n, deadline=None, database=None, derandomize=False,
              report_multiple_bugs=False, print_blob=False,
              suppress_health_check=[HealthCheck.too_slow, HealthCheck.data_too_large,
                                     HealthCheck.large_base_example],
              phases=[Phase.explicit, Phase.generate, Phase.shrink])
    @given(law.strategy)
    def test(case):
        f = run_body(law, case, stats, findings_open)
        if f is not None:
            state["fail"] = f
            if f["kind"] == "timeout":
                # do not let Hypothesis shrink a hanging case (every attempt would hang again)
                raise CaseTimeout()
            raise Violation(f["msg"])

    t0 = time.time()
    try:
        test()
    except HarnessError:
        raise
    except BaseException as e:  # noqa
        if isinstance(e, KeyboardInterrupt):
            raise
        if state["fail"] is not None:
            stats.failure = state["fail"]
        else:
            raise HarnessError("law %s: hypothesis run failed without a captured case: %r\n%s"
                               % (law.name, e, traceback.format_exc()))
    stats.wall = time.time() - t0
    return stats


def run_exhaustive(law, tier, shard, nshards, findings_open):
    stats = Stats()
    t0 = time.time()
    domains = law.exhaustive(tier)
    if domains and not isinstance(domains, list):
        domains = [domains]
    for (dname, cases) in domains or []:
        cases = list(cases)
        if shard == 0:
            stats.exhaustive.append({"domain": dname, "size": len(cases)})
        for i in range(shard, len(cases), nshards):
            f = run_body(law, cases[i], stats, findings_open)
            if f is not None:
                stats.failure = f
                stats.wall = time.time() - t0
                return stats
    stats.wall = time.time() - t0
    return stats


_LIMITED = [False]


def _limit_memory():
    """a runaway allocation in a worker must surface as MemoryError (reported with the case),
    not as an OOM kill of the worker that would leave the pool waiting"""
    if _LIMITED[0]:
        return
    _LIMITED[0] = True
    try:
        import resource
        gb = float(os.environ.get("VERIF_MEM_GB", "6"))
        lim = int(gb * 1024 ** 3)
        soft, hard = resource.getrlimit(resource.RLIMIT_AS)
        if hard != resource.RLIM_INFINITY:
            lim = min(lim, hard)
        resource.setrlimit(resource.RLIMIT_AS, (lim, hard))
    except Exception:  # noqa
        pass


def _task(args):
    pid, law_name, tier, seed, shard, nshards, kind, open_ids = args
    _limit_memory()
    try:
        mod = load_property(pid)
        law = [l for l in mod.LAWS if l.name == law_name][0]
        if kind == "hyp":
            st = run_hypothesis(law, tier, seed, shard, open_ids)
        else:
            st = run_exhaustive(law, tier, shard, nshards, open_ids)
        return (law_name, kind, shard, st.to_dict(), None)
    except HarnessError as e:
        return (law_name, kind, shard, None, str(e))
    except Exception as e:  # noqa
        return (law_name, kind, shard, None, "unexpected: %r\n%s" % (e, traceback.format_exc()))


def plan_tasks(mod, pid, tier, seed, only_law=None):
    open_ids = [e["id"] for e in open_findings(pid)]
    tasks = []
    for law in mod.LAWS:
        if only_law and law.name != only_law:
            continue
        if law.strategy is not None:
            k = law.nshards(tier)
            for s in range(k):
                tasks.append((pid, law.name, tier, seed, s, k, "hyp", open_ids))
        if law.exhaustive is not None:
            k = 1 if tier == "quick" else 8
            k = getattr(law, "ex_shards", {}).get(tier, k) if hasattr(law, "ex_shards") else k
            for s in range(k):
                tasks.append((pid, law.name, tier, seed, s, k, "exh", open_ids))
    return tasks


def run_property(pid, tier, seed, only_law=None, jobs=None):
    """Returns (per_law merged stats dict, harness_errors list)."""
    mod = load_property(pid)
    tasks = plan_tasks(mod, pid, tier, seed, only_law)
    jobs = jobs or int(os.environ.get("VERIF_JOBS", "16"))
    jobs = max(1, min(jobs, len(tasks)))
    results = []
    if jobs == 1:
        for t in tasks:
            results.append(_task(t))
    else:
        import concurrent.futures as cf
        ctx = multiprocessing.get_context("fork")
        with cf.ProcessPoolExecutor(max_workers=jobs, mp_context=ctx) as pool:
            futs = {pool.submit(_task, t): t for t in tasks}
            for fut in cf.as_completed(futs):
                t = futs[fut]
                try:
                    results.append(fut.result())
                except Exception as e:  # noqa  (a worker died: BrokenProcessPool)
                    results.append((t[1], t[6], t[4], None,
                                    "worker process died while running this task (%r)" % (e,)))
    merged = collections.OrderedDict()
    errors = []
    for law in mod.LAWS:
        if only_law and law.name != only_law:
            continue
        merged[law.name] = dict(evaluations=0, rejected=0, units=0,
                                labels=collections.Counter(), nt_keys=set(), distinct=0,
                                samples=[], resid={}, excluded=collections.Counter(),
                                failures=[], exhaustive=[], wall=0.0)
    for (lname, kind, shard, st, err) in sorted(results, key=lambda r: (r[0], r[1], r[2])):
        if err is not None:
            errors.append("%s[%s/%d]: %s" % (lname, kind, shard, err))
            continue
        m = merged[lname]
        m["evaluations"] += st["evaluations"]
        m["units"] += st["units"]
        m["labels"].update(st["labels"])
        m["nt_keys"].update(st["nt_keys"])
        m["distinct"] += st["distinct"]
        if len(m["samples"]) < 3:
            m["samples"].extend(st["samples"][:3 - len(m["samples"])])
        for k, v in st["resid"].items():
            if k not in m["resid"] or v > m["resid"][k]:
                m["resid"][k] = v
        m["excluded"].update(st["excluded"])
        if st["failure"]:
            m["failures"].append(st["failure"])
        m["exhaustive"].extend(st["exhaustive"])
        m["wall"] = max(m["wall"], st["wall"])
    return mod, merged, errors
