"""Law-independent helper that runs the atheris target vt/fuzz/fuzz_kbmag.py for a
bounded number of runs in a subprocess (atheris lives in <verif>/.deps, outside
the interpreter's site-packages) and reports a failing input, if any, as the
JSON spec the plain law body can replay.

available()  -> True iff <verif>/.deps/atheris can be imported by the interpreter
run(runs, seed) -> dict(ran, returncode, mode, spec, tail)

Install (offline):
  /venv/bin/pip install --no-index --find-links /opt/veriftools/wheels \
      --target /verif/.deps atheris
Stand-alone campaign:
  cd /verif && PYTHONPATH=/verif/.deps:/verif /venv/bin/python vt/fuzz/fuzz_kbmag.py \
      -runs=200000 -seed=1 -max_len=512 /tmp/kbmag_corpus
"""
import os
import sys
import json
import shutil
import tempfile
import subprocess

ROOT = os.path.dirname(os.path.dirname(os.path.dirname(os.path.abspath(__file__))))
DEPS = os.path.join(ROOT, ".deps")
TARGET = os.path.join(ROOT, "vt", "fuzz", "fuzz_kbmag.py")
RUNS = 10000
_available = None


def _env():
    env = os.environ.copy()
    parts = [DEPS, ROOT]
    if env.get("PYTHONPATH"):
        parts.append(env["PYTHONPATH"])
    env["PYTHONPATH"] = os.pathsep.join(parts)
    return env


def available():
    global _available
    if _available is None:
        _available = False
        if os.path.isdir(os.path.join(DEPS, "atheris")):
            try:
                p = subprocess.run([sys.executable, "-c", "import atheris"], env=_env(),
                                   capture_output=True, timeout=120)
                _available = p.returncode == 0
            except Exception:
                _available = False
    return _available


def base_seed():
    try:
        return int(os.environ.get("VERIF_SEED", "1") or "1")
    except ValueError:
        return 1


def run(runs, seed, timeout=900):
    if not available():
        return dict(ran=False, returncode=None, mode=None, spec=None, tail="")
    tmp = tempfile.mkdtemp(prefix="vt_atheris_", dir=os.environ.get("TMPDIR") or None)
    try:
        corpus = os.path.join(tmp, "corpus")
        os.mkdir(corpus)
        fail = os.path.join(tmp, "fail.json")
        env = _env()
        env["VT_FUZZ_FAIL_JSON"] = fail
        cmd = [sys.executable, TARGET, "-runs=%d" % runs, "-seed=%d" % (seed % (2 ** 31)),
               "-max_len=512", "-artifact_prefix=%s/" % tmp, "-print_final_stats=1", corpus]
        p = subprocess.run(cmd, cwd=ROOT, env=env, capture_output=True, text=True,
                           timeout=timeout, errors="replace")
        out = (p.stdout or "") + (p.stderr or "")
        res = dict(ran=True, returncode=p.returncode, mode=None, spec=None,
                   tail=out[-1500:])
        if os.path.exists(fail):
            with open(fail) as f:
                rec = json.load(f)
            res["mode"], res["spec"] = rec["mode"], rec["spec"]
        return res
    finally:
        shutil.rmtree(tmp, ignore_errors=True)
