#!/venv/bin/python
"""atheris (libFuzzer) target for the GAP / kbmag record parser of geometry_tools.

The fuzzer's bytes are decoded with FuzzedDataProvider into a *structured*
input and the round-trip oracle of property C09 is asserted inside the target:

 mode 0  a builtin .wa/.geowa file re-spaced at token boundaries with spacing
         chosen by the fuzzer: it must parse to the same records as the
         canonical text and load to the automaton an independent regex reader
         sees (vt.oracles.kbmag_text.check_respaced);
 mode 1+ a record spec (1-3 records; alphabet of identifier names, optionally
         x^-1 style / quoted; dense table with 0 as failure state, all-zero
         rows and consecutive runs rendered as [a..b]; initial state; optional
         fields in rotated order; spacing from the parser's whitespace set at
         every token gap): parse_record(render(spec)) must reproduce the
         alphabet, table and initial state exactly and _from_gap_record must
         build exactly that automaton with coherent views
         (vt.oracles.kbmag_text.check_roundtrip, the body of law kbmag_roundtrip).

A failing input raises; its decoded form is written as JSON to
$VT_FUZZ_FAIL_JSON (when set) so that it can be replayed without atheris:
  ./check C09 --replay <file with {"law": "kbmag_roundtrip", "case": <spec>}>

Run (atheris installed with pip --target /verif/.deps):
  cd /verif && PYTHONPATH=/verif/.deps:/verif /venv/bin/python vt/fuzz/fuzz_kbmag.py \
      -runs=200000 -seed=1 -max_len=512 /tmp/kbmag_corpus
The tree under test is $VERIF_REPO (default /repo).
"""
import os
import sys
import json

HERE = os.path.dirname(os.path.abspath(__file__))
ROOT = os.path.dirname(os.path.dirname(HERE))
if ROOT not in sys.path:
    sys.path.insert(0, ROOT)
REPO = os.environ.get("VERIF_REPO", "/repo")
if REPO not in sys.path[:1]:
    sys.path.insert(0, REPO)

import atheris  # noqa: E402

with atheris.instrument_imports(include=["geometry_tools.automata"]):
    from geometry_tools.automata import gap_parse, kbmag_utils, fsa  # noqa: E402,F401

from vt.core import Ctx, Violation, jsonable  # noqa: E402
from vt.oracles import kbmag_text as K  # noqa: E402

WS_CHARS = K.WS
EXTRAS = ["alphabet.type", "alphabet.size", "alphabet.format", "states", "flags", "accepting",
          "ratio", "word", "table.format", "table.numTransitions"]
STRINGS = ["DFA", "minimized", "BFS", "accessible", "trim", "", "a,b", "rec(", ")", "]",
           "[1..3]", "x := y", "dense deterministic", "two words", ";", " lead", "trail ", " ",
     "tab\tinside"]
NAME_HEAD = "abcdxyzABXYrst_"
NAME_TAIL = "abAB019_rxe"
REC_NAMES = ["_RWS.wa", "_RWS.geowa", "_RWS.diff2", "_RWS_Sub1.wa", "G.gm", "x", "rws"]
BUILTIN_DIR = os.path.join(os.path.dirname(fsa.__file__), "builtin")
BUILTINS = sorted(x for x in os.listdir(BUILTIN_DIR)
                  if (x.endswith(".wa") or x.endswith(".geowa"))
                  and os.path.getsize(os.path.join(BUILTIN_DIR, x)) < 2500)
_TEXT = {}


def _ws(fdp):
    n = fdp.ConsumeIntInRange(0, 3)
    return "".join(WS_CHARS[fdp.ConsumeIntInRange(0, len(WS_CHARS) - 1)] for _ in range(n))


def _ws_list(fdp, cap=12):
    style = fdp.ConsumeIntInRange(0, 3)
    if style == 0:
        return [""]
    if style == 1:
        return [" "]
    return [_ws(fdp) for _ in range(fdp.ConsumeIntInRange(1, cap))]


def _subset(fdp, items, cap):
    out = []
    for _ in range(fdp.ConsumeIntInRange(0, cap)):
        x = items[fdp.ConsumeIntInRange(0, len(items) - 1)]
        if x not in out:
            out.append(x)
    return out


def _name(fdp):
    s = NAME_HEAD[fdp.ConsumeIntInRange(0, len(NAME_HEAD) - 1)]
    for _ in range(fdp.ConsumeIntInRange(0, 3)):
        s += NAME_TAIL[fdp.ConsumeIntInRange(0, len(NAME_TAIL) - 1)]
    if fdp.ConsumeIntInRange(0, 5) == 0:
        s += "^-1"
    return s


def decode_record(fdp, is_fsa):
    rec = dict(fsa=is_fsa, extras=sorted(_subset(fdp, EXTRAS, 10)),
               strings=[STRINGS[fdp.ConsumeIntInRange(0, len(STRINGS) - 1)]
                        for _ in range(fdp.ConsumeIntInRange(0, 4))],
               ratio=[[0, 0, 1, 12][fdp.ConsumeIntInRange(0, 3)], fdp.ConsumeIntInRange(0, 7)])
    if not is_fsa:
        return rec
    names = []
    for _ in range(fdp.ConsumeIntInRange(0, 4)):
        x = _name(fdp)
        if x not in names:
            names.append(x)
    n = fdp.ConsumeIntInRange(1, 6)
    m = len(names)
    table = []
    for _ in range(n):
        kind = fdp.ConsumeIntInRange(0, 5)
        if kind == 0:
            row = [0] * m
        elif kind == 1 and m >= 1 and n - m + 1 >= 1:
            s = fdp.ConsumeIntInRange(1, n - m + 1)
            row = list(range(s, s + m))
        elif kind == 2 and n - m >= 0:
            s = fdp.ConsumeIntInRange(0, n - m)
            row = list(range(s, s + m))
        else:
            row = [fdp.ConsumeIntInRange(0, n) for _ in range(m)]
        table.append(row)
    rec.update(names=names, quote_names=fdp.ConsumeBool(), table=table,
               interval_rows=fdp.ConsumeBool(), initial=fdp.ConsumeIntInRange(1, n),
               initial_interval=fdp.ConsumeIntInRange(0, 3) == 0,
               rot=fdp.ConsumeIntInRange(0, 7))
    return rec


def decode_spec(fdp):
    nrec = [1, 1, 1, 2, 2, 3][fdp.ConsumeIntInRange(0, 5)]
    which = fdp.ConsumeIntInRange(0, nrec - 1)
    names = []
    while len(names) < nrec:
        x = REC_NAMES[(fdp.ConsumeIntInRange(0, len(REC_NAMES) - 1) + len(names))
                      % len(REC_NAMES)]
        while x in names:
            x = REC_NAMES[(REC_NAMES.index(x) + 1) % len(REC_NAMES)]
        names.append(x)
    recs = []
    for j in range(nrec):
        r = decode_record(fdp, j == which or fdp.ConsumeBool())
        r["name"] = names[j]
        recs.append(r)
    return dict(records=recs, ws=_ws_list(fdp), lead=_ws(fdp), tail=_ws(fdp))


def decode_respace(fdp):
    name = BUILTINS[fdp.ConsumeIntInRange(0, len(BUILTINS) - 1)]
    return dict(name=name, ws=_ws_list(fdp, cap=24), lead=_ws(fdp), tail=_ws(fdp))


def _builtin_text(name):
    if name not in _TEXT:
        with open(os.path.join(BUILTIN_DIR, name)) as f:
            _TEXT[name] = f.read()
    return _TEXT[name]


def _report(mode, spec):
    path = os.environ.get("VT_FUZZ_FAIL_JSON")
    if path:
        with open(path, "w") as f:
            json.dump(jsonable(dict(mode=mode, spec=spec)), f)


def TestOneInput(data):
    fdp = atheris.FuzzedDataProvider(data)
    mode = fdp.ConsumeIntInRange(0, 4)
    ctx = Ctx()
    if mode == 0:
        case = decode_respace(fdp)
        try:
            K.check_respaced(_builtin_text(case["name"]), case["ws"], ctx, case["lead"],
                             case["tail"])
        except BaseException:
            _report("respace", case)
            raise
        return
    spec = decode_spec(fdp)
    try:
        K.check_roundtrip(spec, ctx, file_io=False)
    except BaseException:
        _report("spec", spec)
        raise


def main():
    atheris.Setup(sys.argv, TestOneInput)
    atheris.Fuzz()


if __name__ == "__main__":
    main()
