"""Core vocabulary of the framework: laws, the per-case context, violations.

A *law* is (strategy, body, non-trivial rule).  The strategy draws a
JSON-serialisable case; ``body(case, ctx)`` rebuilds library objects from it,
evaluates an oracle that is independent of the code under test and calls
``ctx.check`` / ``ctx.close``.  Nothing random happens inside a body.
"""
import json
import hashlib
import math


class Violation(Exception):
    """The library disagreed with the oracle on this case."""

    def __init__(self, msg, detail=None):
        Exception.__init__(self, msg)
        self.msg = msg
        self.detail = detail or {}


class HarnessError(Exception):
    """The harness itself is wrong (bad case decoding, oracle precondition)."""


def jsonable(x):
    """Best-effort conversion of numpy things to plain JSON values (for details)."""
    try:
        import numpy as np
    except Exception:  # pragma: no cover
        np = None
    if np is not None:
        if isinstance(x, np.ndarray):
            if np.iscomplexobj(x):
                return {"re": jsonable(x.real), "im": jsonable(x.imag)}
            return jsonable(x.tolist())
        if isinstance(x, np.generic):
            return jsonable(x.item())
    if isinstance(x, complex):
        return {"re": x.real, "im": x.imag}
    if isinstance(x, float):
        if math.isnan(x):
            return "nan"
        if math.isinf(x):
            return "inf" if x > 0 else "-inf"
        return x
    if isinstance(x, (int, str, bool)) or x is None:
        return x
    if isinstance(x, dict):
        return {str(k): jsonable(v) for k, v in x.items()}
    if isinstance(x, (list, tuple, set, frozenset)):
        return [jsonable(v) for v in x]
    return repr(x)


def case_key(case):
    return hashlib.sha1(
        json.dumps(case, sort_keys=True, default=repr).encode()
    ).hexdigest()[:16]


class Ctx:
    """Per-case context handed to a law body."""

    def __init__(self, open_findings=()):
        self.labels = set()
        self.resid = {}          # name -> worst (value / tolerance) ratio and value
        self.units = 0           # number of unit comparisons made
        self.excluded = []       # ids of known findings this case was excluded for
        self._open = set(open_findings)

    # -- classification ---------------------------------------------------
    def label(self, *names):
        for n in names:
            if n:
                self.labels.add(str(n))

    # -- known findings ---------------------------------------------------
    def known(self, finding_id):
        """True iff `finding_id` is listed as an open known finding."""
        return finding_id in self._open

    def exclude(self, finding_id):
        self.excluded.append(finding_id)

    # -- assertions -------------------------------------------------------
    def check(self, cond, msg, **detail):
        self.units += 1
        if not bool(cond):
            raise Violation(msg, jsonable(detail))

    def fail(self, msg, **detail):
        raise Violation(msg, jsonable(detail))

    def close(self, name, a, b, rtol=1e-9, atol=1e-9, scale=0.0, **detail):
        """|a-b| <= atol + rtol*max(scale,|a|,|b|) elementwise; records the worst
        ratio residual/tolerance under `name`."""
        import numpy as np
        a = np.asarray(a)
        b = np.asarray(b)
        self.units += 1
        if a.shape != b.shape:
            try:
                a, b = np.broadcast_arrays(a, b)
            except ValueError:
                raise Violation("%s: shapes differ %s vs %s" % (name, a.shape, b.shape),
                                jsonable(detail))
        if a.size == 0:
            return
        with np.errstate(all="ignore"):
            diff = np.abs(a - b)
            tol = atol + rtol * np.maximum(np.maximum(np.abs(a), np.abs(b)), scale)
            bad = ~(diff <= tol)      # NaN counts as bad
            ratio = np.where(np.isfinite(diff), diff / tol, np.inf)
        worst = float(np.max(ratio))
        prev = self.resid.get(name)
        if prev is None or worst > prev:
            self.resid[name] = worst
        if bad.any():
            idx = tuple(int(i) for i in np.argwhere(bad)[0])
            d = dict(detail)
            d.update(got=a[idx] if a.ndim else a, want=b[idx] if b.ndim else b,
                     index=idx, worst_ratio=worst, rtol=rtol, atol=atol)
            raise Violation("%s: values differ" % name, jsonable(d))

    def small(self, name, a, tol, **detail):
        """|a| <= tol elementwise."""
        import numpy as np
        a = np.asarray(a)
        self.units += 1
        if a.size == 0:
            return
        with np.errstate(all="ignore"):
            mag = np.abs(a)
            ratio = np.where(np.isfinite(mag), mag / tol, np.inf)
        worst = float(np.max(ratio))
        prev = self.resid.get(name)
        if prev is None or worst > prev:
            self.resid[name] = worst
        if not (worst <= 1.0):
            d = dict(detail)
            d.update(worst=float(np.nanmax(mag)) if np.isfinite(mag).any() else "nan",
                     tol=tol)
            raise Violation("%s: not small" % name, jsonable(d))


class Law:
    """One generated-input search.

    name       : identifier (unique inside a property)
    strategy   : Hypothesis strategy producing a JSON-serialisable case, or None
                 for laws that are exhaustive only
    body       : body(case, ctx)
    nontrivial : predicate over the set of labels of a case
    quick / thorough : Hypothesis example budget per shard
    exhaustive : optional callable tier -> (name, list of cases) enumerated completely
    shards     : (quick, thorough) number of independently seeded shards
    """

    def __init__(self, name, strategy, body, nontrivial=None, quick=150,
                 thorough=1500, exhaustive=None, shards=(1, 4), doc=""):
        self.name = name
        self.strategy = strategy
        self.body = body
        self.nontrivial = nontrivial or (lambda labels: True)
        self.quick = quick
        self.thorough = thorough
        self.exhaustive = exhaustive
        self.shards = shards
        self.doc = doc

    def budget(self, tier):
        return self.quick if tier == "quick" else self.thorough

    def nshards(self, tier):
        return self.shards[0] if tier == "quick" else self.shards[1]
