"""C03 - applying transformations is a left group action on every kind of object."""
import math
import numpy as np
from hypothesis import strategies as st

from ..core import Law
from .. import gen
from ..gen import fl
from ..num import mat_proj_dist
from ..oracles import objs
from ..oracles.objs import dec, enc

from geometry_tools import projective as P
from geometry_tools import hyperbolic as H

RULE = ("cases: an object class out of the 16 (projective Point, PointPair, Polygon, Simplex, "
        "Subspace, Transformation; hyperbolic Point, IdealPoint, PointPair, Segment, Geodesic, "
        "Polygon, TangentVector, Horosphere, Hyperplane, Isometry), dimension 1..4 (Hyperplane "
        "2..4), composite shape of rank 0..2 with sides 1..3, unit data built by construction "
        "(covering directions, Klein radius <= 0.9, segment length in [0.3, 2], spacelike "
        "normals with <v,v> >= 0.19|v|^2, representatives of either sign); transformations A, B "
        "are real or complex well-conditioned invertible matrices (projective objects) or "
        "elements of O(n,1) built as rotation*boost*rotation(*boost*rotation) with rapidity "
        "<= 1.2 incl. reflections and time reversal (hyperbolic objects), each either one "
        "matrix or a composite of the object's shape, each handed over as a column matrix "
        "(column_vectors=True) or as the transposed row matrix; representations with 1..3 "
        "generators and words of length <= 8 over generators and inverses.  non-trivial = "
        "||AB-BA|| > 0.1||A||||B|| and the object is not a bare point (action laws), the matrix "
        "is visibly non-symmetric (absolute laws), or a word of length >= 2 using two distinct "
        "generators (representation law); distinct = distinct JSON case.")

ASSUMPTIONS = [
    "matrices have condition number <~ 1e3 (projective) / <~ 1.5e4 (isometries); tolerances on "
    "the projective distance of rows are 1e-12 times the product of the condition numbers "
    "involved (squared where an inverse or a recomputed ideal endpoint enters)",
    "objects are compared as projective objects: proj_data and aux_data row by row up to a "
    "non-zero scalar per row (whole matrix up to one scalar for transformations); for tangent "
    "vectors additionally the relative sign of base point and vector",
    "hyperbolic objects are acted on by isometries only (ideal endpoints of segments and the "
    "projected vector of a tangent vector are equivariant under O(n,1) only)",
    "float64 / complex128 only",
]

CLAIM = dict(
    text=("On generated objects of all 16 classes, composite ranks 0..2, dimensions 1..4, and "
          "generated non-commuting, non-symmetric transformations: (A@B)@X = A@(B@X), I@X = X, "
          "A.inv()@(A@X) = X as projective objects including auxiliary data, type and composite "
          "shape preserved; T@X has the coordinates M x for the column matrix M given to the "
          "constructor (either convention), auxiliary data of T@X equals the auxiliary data "
          "recomputed from the transformed primary data, and rep[w]@P equals the harness' own "
          "product of generator matrices applied to the coordinate column."),
    note=("dual data is not asserted (none of the listed classes carries it); complex matrices "
          "only on projective objects"),
    technique="property-based testing (Hypothesis), algebraic laws + absolute linear-algebra oracle",
)


def _tol(kappa, power=1):
    return 1e-13 * max(1.0, kappa) ** power + 1e-14


# --------------------------------------------------------------------------- strategies
@st.composite
def s_tmats(draw, hyp, n, shape, complex_=False, plain=False, pcomp=3):
    """dict(cols=[column matrices], comp=bool, col=bool): a unit transformation or a
    composite one of the given shape"""
    comp = bool(shape) and draw(st.integers(0, pcomp)) == 0
    cnt = gen.prod(shape) if comp else 1
    mats = []
    # special matrices: an isometry typed in to 4 decimals (only approximately in O(n,1):
    # its inverse is the matrix inverse, not the Minkowski adjoint), and a matrix within 1e-5
    # of the identity that is not the identity (one step of a slow zoom)
    special = "" if plain else \
        draw(st.sampled_from(["", "", "", "", "", "rounded" if hyp else "near-identity",
                              "near-identity" if not complex_ else "",
                              "scaled"]))
    for _ in range(cnt):
        if special == "near-identity":
            d = [draw(st.sampled_from([5e-6, -5e-6, 2e-6, 8e-6])) for _ in range(n + 1)]
            off = np.array(draw(gen.wellcond_matrix(n + 1, maxfactor=1.5)), dtype=float)
            M = np.eye(n + 1) + np.diag(d) + 1e-9 * off / np.abs(off).max()
            mats.append(M.tolist())
        elif hyp:
            M = np.array(draw(objs.s_isometry(n)), dtype=float)
            if special == "rounded":
                M = np.round(M, 4)
            if special == "scaled":
                # an isometry is a projective map too: its matrix in other units
                M = M * draw(st.sampled_from([1e-4, 1e3, -2e-3, 3e-5]))
            mats.append(M.tolist())
        else:
            m = draw(objs.s_matrix(n + 1, complex_))
            if special == "scaled" and not complex_:
                # a projective transformation is its matrix up to a scalar: the same map in
                # other units (determinant 1e-12 .. 1e+15, perfectly conditioned)
                k = draw(st.sampled_from([1e-4, 1e3, -2e-3, 5e4]))
                m = (np.array(m, dtype=float) * k).tolist()
            mats.append(m)
    return dict(cols=mats, comp=comp, col=draw(st.booleans()), special=special)


def tmat_arrays(t, shape):
    cols = np.array([dec(m) for m in t["cols"]])
    if t["comp"]:
        return cols.reshape(tuple(shape) + cols.shape[1:])
    return cols[0]


def s_dim(kind):
    return st.integers(objs.KINDS[kind][1], 4)


def action_case(kind):
    @st.composite
    def strat(draw):
        hyp = objs.is_hyp(kind)
        n = draw(s_dim(kind))
        shape = draw(gen.shapes(max_rank=2))
        cx = (not hyp) and draw(st.integers(0, 2)) == 0
        cxm = (not hyp) and (cx or draw(st.integers(0, 3)) == 0)
        obj = draw(objs.s_object(kind, n, shape, cx))
        A = draw(s_tmats(hyp, n, shape, cxm))
        if not hyp and not cxm and draw(st.integers(0, 3)) == 0:
            # an integer-typed matrix (int64 array) whose inverse is not integral:
            # unimodular x diag(1..3)
            cnt = len(A["cols"])
            A = dict(A, intdtype=True, cols=[
                (np.array(draw(gen.unimodular_int_matrix(n + 1, steps=4, maxabs=2))) @
                 np.diag([draw(st.integers(1, 3)) for _ in range(n + 1)])).tolist()
                for _ in range(cnt)])
        return dict(obj=obj, A=A,
                    B=draw(s_tmats(hyp, n, shape, cxm)),
                    iscale=draw(st.sampled_from([1.0, 1.0, -1.0, 2.5, -0.5])),
                    icol=draw(st.booleans()), ilib=draw(st.booleans()))
    return strat()


def _label_pair(ctx, A, B):
    """labels for the non-commuting / non-symmetric rule (A, B arrays of column matrices)"""
    A2 = A.reshape((-1,) + A.shape[-2:])
    B2 = B.reshape((-1,) + B.shape[-2:])
    nc = False
    ns = False
    for a in A2:
        if np.linalg.norm(a - a.T) > 0.1 * np.linalg.norm(a):
            ns = True
        for b in B2:
            if np.linalg.norm(a @ b - b @ a) > 0.1 * np.linalg.norm(a) * np.linalg.norm(b):
                nc = True
    if nc:
        ctx.label("noncommuting")
    if ns:
        ctx.label("nonsymmetric")
    if np.iscomplexobj(A) or np.iscomplexobj(B):
        ctx.label("complex-matrix")


def _tangent_sign(ctx, name, kind, got, want_proj, want_aux):
    if kind != "H.TangentVector":
        return
    ctx.check(np.all(objs.tangent_sign_ok(got.proj_data, want_proj)),
              name + ": tangent vector direction reversed relative to its base point")
    ctx.check(np.all(objs.tangent_sign_ok(got.aux_data, want_aux)),
              name + ": projected tangent vector reversed relative to its base point")


def make_action_body(kind):
    hyp = objs.is_hyp(kind)

    def body(case, ctx):
        spec = case["obj"]
        n, shape = spec["n"], tuple(spec["shape"])
        X = objs.build(spec)
        px, ax = objs.snapshot(X)
        Ac = tmat_arrays(case["A"], shape)
        Bc = tmat_arrays(case["B"], shape)
        if case["A"].get("intdtype"):
            ctx.label("A=int64")
            Ac = np.asarray(Ac).astype(np.int64)
        A = objs.build_T(hyp, Ac, case["A"]["col"])
        B = objs.build_T(hyp, Bc, case["B"]["col"])
        kA, kB = objs.cond2(Ac), objs.cond2(Bc)
        ctx.label("kind=" + kind, "n=%d" % n, "rank=%d" % len(shape),
                  "field=" + spec["field"], "colA=%s" % case["A"]["col"],
                  "colB=%s" % case["B"]["col"],
                  "compA" if case["A"]["comp"] else "unitA",
                  "compB" if case["B"]["comp"] else "unitB")
        if kind not in ("P.Point", "H.Point", "H.IdealPoint"):
            ctx.label("not-bare-point")
        if X.aux_data is not None:
            ctx.label("has-aux")
        _label_pair(ctx, Ac, Bc)
        for t in (case["A"], case["B"]):
            if t.get("special"):
                ctx.label("special=" + t["special"])
        ctx.check(tuple(X.shape) == shape, "constructed composite shape", got=X.shape,
                  want=shape)
        tcls = H.Isometry if hyp else P.Transformation

        # --- associativity
        AB = A @ B
        ctx.check(type(AB) is tcls, "type(A@B)", got=type(AB).__name__)
        L = AB @ X
        R = A @ (B @ X)
        R_p, R_a = objs.snapshot(R)
        objs.compare_objects(ctx, "(A@B)@X vs A@(B@X)", kind, L, R_p, R_a,
                             _tol(kA * kB), shape=shape)
        _tangent_sign(ctx, "(A@B)@X vs A@(B@X)", kind, L, R_p, R_a)
        # the composite of the two must itself be the harness product (column convention)
        want_AB = Ac @ Bc
        got_AB = np.swapaxes(np.array(AB.matrix), -1, -2)
        ctx.check(got_AB.shape == np.broadcast_shapes(Ac.shape, Bc.shape),
                  "shape of A@B", got=got_AB.shape)
        ctx.small("A@B is the matrix product M_A M_B (column convention)",
                  mat_proj_dist(got_AB, np.broadcast_to(want_AB, got_AB.shape)),
                  _tol(kA * kB))

        # --- identity
        if case["ilib"]:
            # (an identity the caller got earlier and has since re-used for another map says
            # nothing about the next one it asks for)
            I_old = H.identity(n) if hyp else P.identity(n)
            I_old.set(np.array(np.asarray(A.matrix).reshape((-1, n + 1, n + 1))[0], copy=True))
            I = H.identity(n) if hyp else P.identity(n)
            ctx.label("identity=library")
        else:
            s = case["iscale"] if not hyp else math.copysign(1.0, case["iscale"])
            I = objs.build_T(hyp, s * np.eye(n + 1), case["icol"])
            ctx.label("identity=%g*eye" % s)
        IX = I @ X
        objs.compare_objects(ctx, "I@X vs X", kind, IX, px, ax, 1e-13, shape=shape)
        _tangent_sign(ctx, "I@X vs X", kind, IX, px, ax)

        # --- inverse
        Ainv = A.inv()
        ctx.check(type(Ainv) is tcls, "type(A.inv())", got=type(Ainv).__name__)
        ctx.check(tuple(Ainv.shape) == tuple(A.shape), "shape of A.inv()", got=Ainv.shape,
                  want=A.shape)
        back = Ainv @ (A @ X)
        objs.compare_objects(ctx, "A.inv()@(A@X) vs X", kind, back, px, ax,
                             _tol(kA, 2), shape=shape)
        _tangent_sign(ctx, "A.inv()@(A@X) vs X", kind, back, px, ax)
        ctx.small("A.inv() @ A is the identity",
                  mat_proj_dist(np.array((Ainv @ A).matrix),
                                np.broadcast_to(np.eye(n + 1), np.shape(A.matrix))),
                  _tol(kA, 2))
        # the original object was not modified by any of this (as a projective object)
        objs.compare_objects(ctx, "X after the calls vs X before", kind, X, px, ax, 1e-13,
                             shape=shape)
    return body


def nt_action(labels):
    return "noncommuting" in labels and "not-bare-point" in labels


def nt_action_point(labels):
    # bare point classes: counted when the pair does not commute and the cloud is composite
    return "noncommuting" in labels and "rank=0" not in labels


# --------------------------------------------------------------------------- absolute anchor
def act_loop(data, unit_ndims, cols, shape):
    """unit loop: out[idx] = data[idx] (rows) times M[idx]^T; `cols` is one column matrix
    or an array of them of the composite shape"""
    data = np.asarray(data)
    out = np.zeros(data.shape, dtype=np.result_type(data.dtype, np.asarray(cols).dtype))
    for idx in np.ndindex(*shape):
        M = cols if cols.ndim == 2 else cols[idx]
        out[idx] = data[idx] @ M.T
    return out


@st.composite
def absolute_case(draw):
    kind = draw(objs.s_pick(objs.ALL_KINDS))
    hyp = objs.is_hyp(kind)
    n = draw(s_dim(kind))
    shape = draw(gen.shapes(max_rank=2))
    cx = (not hyp) and draw(st.integers(0, 2)) == 0
    cxm = (not hyp) and (cx or draw(st.integers(0, 3)) == 0)
    return dict(obj=draw(objs.s_object(kind, n, shape, cx)),
                T=draw(s_tmats(hyp, n, shape, cxm, pcomp=1)), raw=draw(st.booleans()))


def body_absolute(case, ctx):
    spec = case["obj"]
    kind, n, shape = spec["kind"], spec["n"], tuple(spec["shape"])
    hyp = objs.is_hyp(kind)
    X = objs.build(spec)
    px, ax = objs.snapshot(X)
    Tc = tmat_arrays(case["T"], shape)
    T = objs.build_T(hyp, Tc, case["T"]["col"])
    k = objs.cond2(Tc)
    ctx.label("kind=" + kind, "n=%d" % n, "rank=%d" % len(shape), "field=" + spec["field"],
              "col=%s" % case["T"]["col"], "compT" if case["T"]["comp"] else "unitT")
    _label_pair(ctx, Tc, Tc)
    if case["T"].get("special"):
        ctx.label("special=" + case["T"]["special"])
    # the stored matrix is the row matrix, i.e. the transpose of the column matrix given
    ctx.check(np.array_equal(np.array(T.matrix), np.swapaxes(Tc, -1, -2)),
              "Transformation.matrix is the transposed column matrix",
              col=case["T"]["col"])
    TX = T @ X
    want_p = act_loop(px, X.unit_ndims, Tc, shape)
    want_a = None if ax is None else act_loop(ax, X.aux_ndims, Tc, shape)
    objs.compare_objects(ctx, "T@X vs rows times M^T", kind, TX, want_p, want_a, _tol(k),
                         shape=shape)
    _tangent_sign(ctx, "T@X", kind, TX, want_p, want_a)
    TX2 = T.apply(X)
    objs.compare_objects(ctx, "T.apply(X) vs rows times M^T", kind, TX2, want_p, want_a,
                         _tol(k), shape=shape)
    if kind in objs.MATRIX_KINDS:
        # as column matrices: (T@X) = M_T M_X
        got = np.swapaxes(np.array(TX.matrix), -1, -2)
        want = Tc @ np.swapaxes(px, -1, -2)
        ctx.small("T@X is M_T M_X", mat_proj_dist(got, want), _tol(k))
    if case["raw"] and kind in ("P.Point", "H.Point", "H.IdealPoint"):
        # a bare array of row vectors is accepted too and comes back as a generic object
        ctx.label("raw-array")
        G = T.apply(px.copy())
        ctx.check(type(G) is (H.HyperbolicObject if hyp else P.ProjectiveObject),
                  "type of T.apply(ndarray)", got=type(G).__name__)
        objs.compare_data(ctx, "T.apply(ndarray)", kind, G.proj_data, want_p, _tol(k))
    # affine picture for points in the standard chart (the README's own example)
    if kind == "P.Point" and spec["field"] == "real" and not np.iscomplexobj(Tc):
        img = want_p
        if np.all(np.abs(img[..., 0]) > 1e-3 * np.max(np.abs(img), axis=-1)):
            ctx.label("affine-chart")
            ctx.close("affine coordinates of T@P", TX.affine_coords(chart_index=0),
                      img[..., 1:] / img[..., :1], rtol=1e-9 * k, atol=1e-9 * k)


def nt_absolute(labels):
    return "nonsymmetric" in labels


# --------------------------------------------------------------------------- derived data
@st.composite
def derived_case(draw):
    kind = draw(objs.s_pick(objs.AUX_KINDS))
    hyp = objs.is_hyp(kind)
    n = draw(s_dim(kind))
    shape = draw(gen.shapes(max_rank=2))
    cx = (not hyp) and draw(st.integers(0, 2)) == 0
    # (exact isometries only: derived data of the hyperbolic classes - ideal endpoints,
    # projected tangent vectors - is recomputed with the Minkowski form, which only an
    # isometry preserves)
    return dict(obj=draw(objs.s_object(kind, n, shape, cx)),
                T=draw(s_tmats(hyp, n, shape, cx, plain=hyp)))


def body_derived(case, ctx):
    spec = case["obj"]
    kind, n, shape = spec["kind"], spec["n"], tuple(spec["shape"])
    hyp = objs.is_hyp(kind)
    X = objs.build(spec)
    px, ax = objs.snapshot(X)
    Tc = tmat_arrays(case["T"], shape)
    T = objs.build_T(hyp, Tc, case["T"]["col"])
    k = objs.cond2(Tc)
    ctx.label("kind=" + kind, "n=%d" % n, "rank=%d" % len(shape),
              "compT" if case["T"]["comp"] else "unitT")
    _label_pair(ctx, Tc, Tc)
    TX = T @ X
    tp, ta = objs.snapshot(TX)
    ctx.check(ta is not None, "auxiliary data dropped by apply")
    # (a) auxiliary data is transformed by the same matrix
    want_a = act_loop(ax, X.aux_ndims, Tc, shape)
    objs.compare_data(ctx, "aux_data of T@X vs M applied to aux_data of X", "rows", ta, want_a,
                      _tol(k))
    # (b) and it is what the class derives from the transformed primary data
    fresh = objs.CLASSES[kind](tp.copy())
    ctx.check(fresh.aux_data is not None and fresh.aux_data.shape == ta.shape,
              "aux_data recomputed from transformed proj_data has another shape",
              got=None if fresh.aux_data is None else fresh.aux_data.shape, want=ta.shape)
    objs.compare_data(ctx, "aux_data of T@X vs aux_data recomputed from proj_data of T@X",
                      "rows", ta, fresh.aux_data, _tol(k, 2) * 10)
    if kind == "H.TangentVector":
        ctx.check(np.all(objs.tangent_sign_ok(ta, fresh.aux_data)),
                  "projected tangent vector reversed by apply")
    if kind == "H.Segment":
        # the ideal endpoints stay on the light cone and on the line of the endpoints
        from ..num import mink
        nrm = mink(ta, ta) / np.sum(ta * ta, axis=-1)
        ctx.small("ideal endpoints of T@segment are lightlike", nrm, _tol(k, 2) * 10)
    if kind in ("P.Polygon", "H.Polygon"):
        # edges: edge i joins vertex i and vertex i+1 of the transformed polygon
        ctx.check(ta.shape == tp.shape[:-1] + (2, tp.shape[-1]), "edge array shape",
                  got=ta.shape)
        objs.compare_data(ctx, "edge start = vertex i", "rows", ta[..., 0, :], tp, _tol(k))
        objs.compare_data(ctx, "edge end = vertex i+1", "rows", ta[..., 1, :],
                          np.roll(tp, -1, axis=-2), _tol(k))


# --------------------------------------------------------------------------- representations
GEN_NAMES = ["a", "b", "c"]


@st.composite
def rep_case(draw):
    hyp = draw(st.booleans())
    n = draw(st.integers(1, 4))
    ng = draw(st.integers(1, 3))
    cx = (not hyp) and draw(st.integers(0, 3)) == 0
    gens = []
    for gi in range(ng):
        if hyp:
            gens.append(draw(objs.s_isometry(n, tmax=0.8)))
        else:
            # a complex representation may have some real generators (the first is complex,
            # the later ones - in particular the one assigned last - real or complex)
            cx_i = cx and (gi == 0 or draw(st.booleans()))
            if cx and ng >= 2 and gi == ng - 1:
                cx_i = draw(st.sampled_from([False, False, True]))
            gens.append(draw(objs.s_matrix(n + 1, cx_i, maxfactor=2.0)))
    names = GEN_NAMES[:ng]
    alphabet = names + [g.upper() for g in names]
    nw = draw(st.integers(1, 4))
    words = [draw(st.lists(st.sampled_from(alphabet), min_size=0, max_size=8))
             for _ in range(nw)]
    pkind = ("H.Point" if hyp else "P.Point") if draw(st.integers(0, 2)) else \
        draw(st.sampled_from(objs.H_KINDS if hyp else objs.P_KINDS))
    if pkind == "H.Hyperplane" and n < 2:
        pkind = "H.Point"
    shape = draw(gen.shapes(max_rank=2))
    return dict(hyp=hyp, n=n, gens=gens, cols=[draw(st.booleans()) for _ in range(ng)],
                words=words, as_list=draw(st.booleans()),
                obj=draw(objs.s_object(pkind, n, shape, cx and not hyp)),
                mixed_cls=draw(st.booleans()), reassign=draw(st.booleans()),
                capital=[draw(st.sampled_from([False, False, True])) for _ in range(ng)],
                via_automaton=draw(st.one_of(st.none(), st.fixed_dictionaries(dict(
                    mode=st.sampled_from(["", "start", "end", "end"]),
                    state=st.sampled_from(list(range(8))), exact=st.booleans())))))


def body_rep(case, ctx):
    hyp, n = case["hyp"], case["n"]
    spec = case["obj"]
    kind, shape = spec["kind"], tuple(spec["shape"])
    mats = [dec(g) for g in case["gens"]]
    names = GEN_NAMES[:len(mats)]
    rep = H.HyperbolicRepresentation() if hyp else P.ProjectiveRepresentation()
    for gi, (nm, M, col) in enumerate(zip(names, mats, case["cols"])):
        # a ProjectiveRepresentation also accepts isometry objects as generators
        as_hyp = hyp
        if case.get("capital", [False] * 9)[gi]:
            # the generator is given through its inverse letter: rep["A"] = M^-1
            ctx.label("assigned-by-capital-letter")
            rep[nm.upper()] = objs.build_T(as_hyp, np.linalg.inv(M), col)
        else:
            rep[nm] = objs.build_T(as_hyp, M, col)
    table = {}
    conds = {}
    for nm, M in zip(names, mats):
        table[nm] = M
        table[nm.upper()] = np.linalg.inv(M)
        conds[nm] = conds[nm.upper()] = objs.cond2(M)
    X = objs.build(spec)
    px, ax = objs.snapshot(X)
    tcls = H.Isometry if hyp else P.Transformation
    ctx.label("hyp" if hyp else "proj", "n=%d" % n, "gens=%d" % len(mats),
              "kind=" + kind, "rank=%d" % len(shape), "field=" + spec["field"])
    word_mats = []
    word_k = []
    for w in case["words"]:
        Mw = np.eye(n + 1, dtype=mats[0].dtype)
        kw = 1.0
        for g in w:
            Mw = Mw @ table[g]
            kw *= conds[g]
        # an inverse letter costs its condition number once more (inverted numerically)
        kw *= max([conds[g] for g in w if g.isupper()] + [1.0])
        word_mats.append(Mw)
        word_k.append(kw)
        distinct = {g.lower() for g in w}
        if len(w) >= 2 and len(distinct) >= 2:
            ctx.label("word>=2-two-generators")
        if any(g.isupper() for g in w):
            ctx.label("inverse-letter")
        if len(w) == 0:
            ctx.label("empty-word")
        if len(w) >= 6:
            ctx.label("long-word")
        key = list(w) if case["as_list"] else "".join(w)
        T = rep[key]
        ctx.check(type(T) is tcls, "type(rep[w])", got=type(T).__name__, want=tcls.__name__)
        ctx.check(tuple(T.shape) == (), "rep[w] is a unit transformation", got=T.shape)
        got_col = np.swapaxes(np.array(T.matrix), -1, -2)
        ctx.small("rep[w] is M_w1...M_wk (column matrices)", mat_proj_dist(got_col, Mw),
                  _tol(kw), word="".join(w))
        TX = T @ X
        want_p = act_loop(px, X.unit_ndims, Mw, shape)
        want_a = None if ax is None else act_loop(ax, X.aux_ndims, Mw, shape)
        objs.compare_objects(ctx, "rep[w]@X vs M_w1...M_wk x", kind, TX, want_p, want_a,
                             _tol(kw), shape=shape, word="".join(w))
        _tangent_sign(ctx, "rep[w]@X", kind, TX, want_p, want_a)
    # the composite of all words, applied pairwise: entry [i][j] = M_{w_j} x_i
    words = [("".join(w) if not case["as_list"] else list(w)) for w in case["words"]]
    # (the words as a list or, in every other case, as a one-shot iterator - what
    # free_words_less_than() and friends hand out)
    it = (lambda ws: iter(ws)) if len(words) % 2 else (lambda ws: ws)
    if len(words) % 2:
        ctx.label("words-as-iterator")
    if hyp:
        E = rep.isometries(it(words))
    else:
        E = rep.transformations(it(words)) if case["mixed_cls"] else rep.elements(it(words))
    ctx.check(type(E) is tcls, "type(rep.elements(words))", got=type(E).__name__)
    ctx.check(tuple(E.shape) == (len(words),), "shape of rep.elements(words)", got=E.shape,
              want=(len(words),))
    EX = E.apply(X, "pairwise")
    ctx.check(tuple(EX.shape) == shape + (len(words),), "shape of elements.apply(X, pairwise)",
              got=EX.shape, want=shape + (len(words),))
    ctx.check(type(EX) is objs.CLASSES[kind], "type of elements.apply(X, pairwise)",
              got=type(EX).__name__)
    u = X.unit_ndims
    for j, (Mw, kw) in enumerate(zip(word_mats, word_k)):
        sl = (Ellipsis, j) + (slice(None),) * u
        objs.compare_data(ctx, "elements(words).apply(X,'pairwise')[..., j] vs M_wj x", kind,
                          np.array(EX.proj_data)[sl], act_loop(px, u, Mw, shape), _tol(kw),
                          j=j)
        if ax is not None:
            sa = (Ellipsis, j) + (slice(None),) * X.aux_ndims
            objs.compare_data(ctx, "aux of elements(words).apply(X,'pairwise')[..., j]", "rows",
                              np.array(EX.aux_data)[sa],
                              act_loop(ax, X.aux_ndims, Mw, shape), _tol(kw), j=j)


    # the same images through the automaton route (free automaton on the generators, words
    # up to length 3, every choice of start / end state): image[i] acts as the matrix of
    # word[i] (which words come back is C06's business)
    if case.get("via_automaton"):
        from geometry_tools.automata import fsa
        ctx.label("via-automaton")
        fa = fsa.free_automaton("".join(names))
        opt = case["via_automaton"]
        state = (names + [g.upper() for g in names])[opt["state"] % (2 * len(names))]
        kw = {"": {}, "start": {"start_state": state}, "end": {"end_state": state}}[opt["mode"]]
        if opt["exact"]:
            kw["maxlen"] = False
        imgs, ws = rep.automaton_accepted(fa, 3, with_words=True, **kw)
        ctx.check(tuple(imgs.shape) == (len(ws),), "one image per returned word",
                  got=imgs.shape, words=len(ws))
        IX = imgs.apply(X, "pairwise")
        kmax = max(conds.values())
        for j, w in enumerate(ws):
            Mw = np.eye(n + 1, dtype=mats[0].dtype)
            for g in w:
                Mw = Mw @ table[g]
            sl = (Ellipsis, j) + (slice(None),) * u
            objs.compare_data(ctx, "automaton_accepted image [j] applied to X vs M_wj x", kind,
                              np.array(IX.proj_data)[sl], act_loop(px, u, Mw, shape),
                              _tol(kmax ** (len(w) + 1)), word=w, options=str(kw))

    # the images follow the generators: evaluate, re-assign the first generator (to the
    # matrix of the last one, or its inverse), evaluate again
    if case.get("reassign"):
        ctx.label("generator-reassigned")
        newM = np.linalg.inv(mats[-1]) if len(mats) == 1 else mats[-1]
        rep[names[0]] = objs.build_T(hyp, newM, case["cols"][0])
        table[names[0]] = newM
        table[names[0].upper()] = np.linalg.inv(newM)
        kmax = max(objs.cond2(m) for m in mats)
        for w in case["words"]:
            Mw = np.eye(n + 1, dtype=complex if any(np.iscomplexobj(m) for m in mats)
                        else float)
            for g in w:
                Mw = Mw @ table[g]
            T = rep[list(w) if case["as_list"] else "".join(w)]
            ctx.small("after re-assigning a generator rep[w] is the product of the CURRENT "
                      "generator matrices", mat_proj_dist(np.swapaxes(np.array(T.matrix), -1, -2),
                                                          Mw),
                      _tol(kmax ** (len(w) + 1)), word="".join(w))


def nt_rep(labels):
    return "word>=2-two-generators" in labels


# --------------------------------------------------------------------------- type and shape
@st.composite
def type_case(draw):
    kind = draw(objs.s_pick(objs.ALL_KINDS))
    if draw(objs.s_pick([0, 1, 2, 3])) == 0:
        # "or another transformation": a third of the cases compose two maps, of the same
        # or of different classes (the image has the class of X, not of T)
        kind = draw(objs.s_pick(list(objs.MATRIX_KINDS)))
    n = draw(s_dim(kind))
    # two shapes that broadcast against each other by construction
    sx, stt = draw(objs.s_broadcast_pair(max_rank=2))
    tcls = draw(objs.s_pick(["P.Transformation", "H.Isometry"]))
    mode = draw(objs.s_pick(["elementwise", "pairwise", "pairwise_reversed", "matmul"]))
    mats = [draw(objs.s_isometry(n, factors=1)) for _ in range(gen.prod(stt))]
    return dict(obj=draw(objs.s_object(kind, n, sx, False)), tshape=stt, tcls=tcls,
                mats=mats, mode=mode, col=draw(st.booleans()))


def body_type(case, ctx):
    spec = case["obj"]
    kind, n, sx = spec["kind"], spec["n"], tuple(spec["shape"])
    stt = tuple(case["tshape"])
    X = objs.build(spec)
    px, ax = objs.snapshot(X)
    cols = objs.dec_units(case["mats"], stt, (n + 1, n + 1))
    T = objs.build_T(case["tcls"] == "H.Isometry", cols, case["col"])
    mode = case["mode"]
    ctx.label("kind=" + kind, "T=" + case["tcls"], "mode=" + mode,
              "rankX=%d" % len(sx), "rankT=%d" % len(stt))
    if objs.is_hyp(kind) != (case["tcls"] == "H.Isometry"):
        ctx.label("cross-module")
        if kind in objs.MATRIX_KINDS:
            ctx.label("map-of-another-class:" + mode)
    if mode == "matmul":
        Y = T @ X
        want = np.broadcast_shapes(sx, stt)
    else:
        Y = T.apply(X, broadcast=mode)
        want = {"elementwise": np.broadcast_shapes(sx, stt), "pairwise": sx + stt,
                "pairwise_reversed": stt + sx}[mode]
    if want != sx or len(stt) > 0:
        ctx.label("shape-changes-or-composite-T")
    ctx.check(type(Y) is objs.CLASSES[kind], "type(T@X) is type(X)", got=type(Y).__name__,
              want=objs.CLASSES[kind].__name__)
    ctx.check(tuple(Y.shape) == tuple(want), "composite shape of the image", got=Y.shape,
              want=want, mode=mode, sx=sx, st=stt)
    ctx.check(Y.unit_ndims == X.unit_ndims and Y.aux_ndims == X.aux_ndims,
              "unit / aux ranks of the image")
    ctx.check(Y.proj_data.shape == tuple(want) + px.shape[len(sx):], "proj_data shape",
              got=Y.proj_data.shape)
    if ax is None:
        ctx.check(Y.aux_data is None, "aux_data appeared")
    else:
        ctx.check(Y.aux_data is not None and
                  Y.aux_data.shape == tuple(want) + ax.shape[len(sx):], "aux_data shape",
                  got=None if Y.aux_data is None else Y.aux_data.shape)
    ctx.check(Y is not X and not np.shares_memory(Y.proj_data, X.proj_data),
              "the image shares memory with the original")
    objs.compare_objects(ctx, "X unchanged by apply", kind, X, px, ax, 1e-13, shape=sx)


# --------------------------------------------------------------------------- laws
LAWS = []
for _kind in objs.ALL_KINDS:
    LAWS.append(Law("action[%s]" % _kind, action_case(_kind), make_action_body(_kind),
                    nt_action_point if _kind in ("P.Point", "H.Point", "H.IdealPoint")
                    else nt_action, quick=60, thorough=500, shards=(1, 3)))
LAWS += [
    Law("absolute_column_convention", absolute_case(), body_absolute, nt_absolute,
        quick=200, thorough=1500, shards=(2, 8)),
    Law("derived_data_equivariant", derived_case(), body_derived, lambda l: True,
        quick=150, thorough=1500, shards=(1, 4)),
    Law("rep_word_acts_as_matrix", rep_case(), body_rep, nt_rep, quick=400, thorough=1200,
        shards=(2, 8)),
    Law("type_and_shape_preserved", type_case(), body_type,
        lambda l: "shape-changes-or-composite-T" in l, quick=200, thorough=2000,
        shards=(1, 4)),
]
