"""C20 - CP^1 points, disks and Moebius maps are consistent on the Riemann sphere.

Conventions (probed, fixed in vt/oracles/cp1.py): a point (z0, z1) has affine coordinate
z = z1/z0; a column matrix M acts as z -> (M10 + M11 z)/(M00 + M01 z); the sphere is related
to the plane by z = (X + iY)/(1 - Z).  A disk is described in the harness by (c, r, out).
"""
import cmath
import math
import numpy as np
from hypothesis import strategies as st

from ..core import Law, HarnessError
from .. import gen
from ..gen import fl
from ..oracles import cp1 as O

from geometry_tools import complex_projective as cp
from geometry_tools import projective, utils
from geometry_tools.complex_projective import CP1Point, CP1Disk

INF = O.INF
TWO_PI = 2 * math.pi

RULE = ("cases: points of CP^1 as unit vectors of S^2 (both poles, equator, |Z| tiny, generic), "
        "affine z with |z| log-uniform in 1e-3..1e3, homogeneous pairs times an arbitrary complex "
        "scale (incl. purely imaginary), infinity; disks described in the harness by (centre, "
        "radius, contains-infinity) with centre 0 / on an axis / of modulus 1 / generic and radius "
        "log-uniform in 0.02..50, realised through three routes: CP1Disk(centre, radius) (+ "
        "complement() for the unbounded side), raw data (three boundary points at harness-chosen "
        "angles, an interior point at a harness-chosen place incl. infinity, each homogeneous "
        "vector times its own complex scale) and Moebius images T @ disk of the harness-computed "
        "preimage; Moebius maps z -> q + k/(z - p) or a z + b with the pole placed inside / at the "
        "centre / outside the circle (>= 5% away from it) times a complex scale; Fubini-Study "
        "disks from a spherical centre and radius in (0.05, pi/2 - 0.05) with the north pole >= "
        "0.1 rad off the boundary; disk pairs drawn relative to one another as nested / "
        "overlapping / separate (>= 2% from tangency) in all four bounded/unbounded combinations, "
        "elementwise (shape () and (n,), n <= 4) and pairwise (n x m).  non-trivial = some centre "
        "with |c| not in {0, 1} (points: not only poles); for relations additionally at least "
        "one unbounded disk; distinct = distinct JSON case.")

ASSUMPTIONS = [
    "disks: |centre| <= 60, radius in [0.02, 50]; boundary angles of raw disks pairwise >= 0.4 rad "
    "apart; poles of Moebius maps at relative distance >= 5% from the circle; tolerances are "
    "1e-9 relative to (|c| + r) times the measured amplification of the map and the measured "
    "condition number of the three-point circle problem",
    "containment / intersection are only compared for pairs that are >= 2% (relative) away from "
    "tangency; entries of near-tangent pairs are compared with the unit loop only",
    "Fubini-Study radius uses the metric of diameter pi/2 (a disk of FS radius rho around the "
    "origin is |z| < tan(rho)), as the library's fs_diameter of a hemisphere, pi/2, fixes",
    "centres are 0 or of modulus >= 1e-6 times the radius scale (a centre of modulus < 1e-154 "
    "makes |c|^2 underflow inside CP1Disk's direction normalisation; not explored)",
    "float64 / complex128 only",
]

CLAIM = dict(
    text=("Spherical and homogeneous coordinates of CP^1 points are mutually inverse and agree "
          "with stereographic projection; disks built from (centre, radius) or from a spherical "
          "centre and Fubini-Study radius report them back; Moebius images, complements, "
          "containment and intersection of disks (bounded or not, elementwise or pairwise, unit "
          "or composite) agree with closed forms computed in the harness."),
    note=("Decided by generated-input search against closed forms (image circle of a Moebius "
          "map, spherical caps, set-theoretic truth table cross-checked by sampled membership); "
          "near-tangent pairs and poles within 5% of a circle are outside the explored domain."),
    technique="property-based testing (Hypothesis) with closed-form and sampling oracles",
)


# ---------------------------------------------------------------------------
# JSON <-> complex helpers
def cj(z):
    if isinstance(z, str):
        return z
    z = complex(z)
    return [float(z.real), float(z.imag)]


def cx(p):
    if isinstance(p, str):
        return p
    return complex(p[0], p[1])


def hom_to_z(v):
    """affine coordinate of a homogeneous pair (INF when z0 == 0)"""
    if v[0] == 0:
        return INF
    return complex(v[1] / v[0])


def z_to_hom(z):
    if isinstance(z, str):
        return np.array([0.0, 1.0], dtype=complex)
    return np.array([1.0, complex(z)], dtype=complex)


# ---------------------------------------------------------------------------
# strategies
SPECIAL_ARGS = [0.0, math.pi / 2, math.pi, -math.pi / 2, math.pi / 4]


@st.composite
def angle(draw):
    if draw(st.integers(0, 4)) == 0:
        return draw(st.sampled_from(SPECIAL_ARGS))
    return draw(fl(-math.pi, math.pi))


@st.composite
def cplx(draw, lo, hi, zero=False):
    """complex number with log-uniform modulus in [lo, hi] as [re, im]; axis directions are
    produced exactly (purely real / purely imaginary)"""
    if zero and draw(st.integers(0, 7)) == 0:
        return [0.0, 0.0]
    m = math.exp(draw(fl(math.log(lo), math.log(hi))))
    k = draw(st.integers(0, 5))
    if k == 0:
        ax = draw(st.integers(0, 3))
        return [[m, 0.0], [0.0, m], [-m, 0.0], [0.0, -m]][ax]
    th = draw(fl(-math.pi, math.pi))
    return [m * math.cos(th), m * math.sin(th)]


@st.composite
def scale(draw):
    """non-zero complex scale of a homogeneous vector"""
    k = draw(st.integers(0, 8))
    if k == 8:
        # very small / very large representatives (a matrix in other units, the 24th power
        # of a map): still the same point of CP^1 / the same Moebius map
        return draw(st.sampled_from([[1e-9, 0.0], [0.0, 2e-10], [-3e8, 0.0], [0.0, -1e9]]))
    k = k % 4
    if k == 0:
        return [1.0, 0.0]
    if k == 1:
        return draw(st.sampled_from([[-1.0, 0.0], [0.0, 1.0], [0.0, -1.0], [0.0, 2.5],
                                     [-0.5, 0.0]]))
    return draw(cplx(0.1, 10.0))


@st.composite
def centre(draw):
    k = draw(st.integers(0, 8))
    if k == 0:
        return [0.0, 0.0]
    if k == 8:
        # a centre that is not 0 but nearly so (what 1 + exp(i pi) leaves behind)
        return draw(st.sampled_from([[0.0, 1.2246467991473532e-16], [3e-9, -4e-9],
                                     [-2e-12, 0.0]]))
    if k == 1:        # modulus one (the normalisation of the centre is then invisible)
        th = draw(angle())
        return [math.cos(th), math.sin(th)]
    return draw(cplx(0.02, 60.0))


def radius():
    return st.builds(math.exp, fl(math.log(0.02), math.log(50.0)))


@st.composite
def disk_spec(draw, out=None):
    return dict(c=draw(centre()), r=draw(radius()),
                out=draw(st.booleans()) if out is None else out)


@st.composite
def disk_relative(draw, A, out=None):
    """a disk in a chosen relation (nested / overlapping / separate, >= 3% off tangency)
    to the circle of A"""
    ca, ra = cx(A["c"]), A["r"]
    ratio = math.exp(draw(fl(math.log(1 / 8.0), math.log(8.0))))
    if 0.9 < ratio < 1.1:
        ratio = 0.9 if ratio < 1 else 1.1
    rb = min(max(ra * ratio, 0.02), 50.0)
    t1, t2 = abs(ra - rb), ra + rb
    big = max(ra, rb)
    m = 0.03
    kind = draw(st.integers(0, 3))
    f = draw(fl(0.0, 1.0))
    if kind == 0 and t1 - m * big > 0:              # one round disk inside the other
        d = f * (t1 - m * big)
        if draw(st.integers(0, 5)) == 0:
            d = 0.0                                  # concentric
    elif kind == 3:                                  # far apart
        d = t2 * (1 + m) + f * 4 * big
    elif kind == 2:                                  # just separate
        d = t2 * (1 + m) + f * 0.3 * big
    else:                                            # circles cross
        lo, hi = t1 + m * big, t2 * (1 - m)
        d = lo + f * (hi - lo) if hi > lo else t2 * (1 + m)
    if d < 1e-6 * big:
        d = 0.0              # concentric; no centres at underflow distance from one another
    th = draw(angle())
    cb = ca + d * cmath.exp(1j * th)
    return dict(c=cj(cb), r=rb, out=draw(st.booleans()) if out is None else out)


@st.composite
def raw_params(draw, out):
    """how a raw disk is laid out: three boundary angles >= 0.4 rad apart, the interior
    point in polar coordinates relative to the circle (rho < 1 inside, > 1 outside, or
    infinity), four complex scales"""
    t1 = draw(fl(0.0, TWO_PI))
    g1 = draw(fl(0.4, 2.4))
    g2 = draw(fl(0.4, 2.4))
    ang = [t1, t1 + g1, t1 + g1 + g2]
    if draw(st.booleans()):
        ang = [ang[0], ang[2], ang[1]]
    if out:
        if draw(st.integers(0, 3)) == 0:
            interior = INF
        else:
            interior = [math.exp(draw(fl(math.log(1.05), math.log(20.0)))), draw(angle())]
    else:
        interior = [draw(st.one_of(st.just(0.0), fl(0.0, 0.95))), draw(angle())]
    return dict(angles=ang, interior=interior, scales=[draw(scale()) for _ in range(4)])


@st.composite
def mob_params(draw, where=None):
    """a Moebius map described relative to a circle (c, r): kind 'gen' is
    z -> q + k/(z - p) with the pole p = c + r rho e^{i phi} (rho = 0: the centre;
    rho < 0.95: inside; rho > 1.05: outside), q free, |k| chosen so that the image circle
    has radius `rimg`; kind 'aff' is z -> a z + b.  The matrix is multiplied by `scale`."""
    kind = where or draw(st.sampled_from(["centre", "inside", "outside", "outside", "aff"]))
    if kind == "aff":
        return dict(kind="aff", a=draw(cplx(0.05, 20.0)), b=draw(cplx(0.01, 20.0, zero=True)),
                    scale=draw(scale()))
    if kind == "centre":
        rho = 0.0
    elif kind == "inside":
        rho = draw(fl(0.0, 0.95))
        if rho < 1e-6:
            rho = 0.0
    else:
        rho = math.exp(draw(fl(math.log(1.05), math.log(30.0))))
    return dict(kind="gen", rho=rho, phi=draw(angle()), q=draw(cplx(0.01, 20.0, zero=True)),
                rimg=draw(radius()), argk=draw(angle()), scale=draw(scale()))


def mob_matrix(params, disk):
    """column matrix of the map described by `params` relative to the circle of `disk`"""
    c, r, _ = disk
    if params["kind"] == "aff":
        M = O.mob_matrix_affine(cx(params["a"]), cx(params["b"]))
    else:
        p = c + r * params["rho"] * cmath.exp(1j * params["phi"])
        kmod = params["rimg"] * abs(abs(c - p) ** 2 - r ** 2) / r
        k = kmod * cmath.exp(1j * params["argk"])
        M = O.mob_matrix_general(cx(params["q"]), p, k)
    return M * cx(params["scale"])


@st.composite
def realisation(draw, specs, routes=("cr", "raw", "mob")):
    """how the library object for the list of disk specs is to be produced"""
    route = draw(st.sampled_from(list(routes)))
    real = dict(route=route)
    if route == "raw":
        real["raw"] = [draw(raw_params(s["out"])) for s in specs]
    elif route == "mob":
        # the disk is the image T @ pre of the harness-computed preimage; the map is
        # described through its inverse relative to the target circle
        real["mob"] = [draw(mob_params()) for s in specs]
        real["pre_route"] = draw(st.sampled_from(["cr", "raw"]))
        if real["pre_route"] == "raw":
            # the side of the preimage is only known once the map is: draw both layouts
            real["raw"] = [{"in": draw(raw_params(False)), "out": draw(raw_params(True))}
                           for s in specs]
    return real


def spec_tuple(s):
    return (cx(s["c"]), float(s["r"]), bool(s["out"]))


# ---------------------------------------------------------------------------
# building library disks
def raw_data(disk, rp):
    """(4, 2) homogeneous data of a disk: three boundary points and an interior point"""
    c, r, out = disk
    rows = []
    for t, s in zip(rp["angles"], rp["scales"][:3]):
        rows.append(z_to_hom(c + r * cmath.exp(1j * t)) * cx(s))
    if isinstance(rp["interior"], str):
        ip = z_to_hom(INF)
    else:
        rho, phi = rp["interior"]
        ip = z_to_hom(c + r * rho * cmath.exp(1j * phi))
    rows.append(ip * cx(rp["scales"][3]))
    return np.array(rows, dtype=complex)


def build_cr(disks, single):
    """CP1Disk(centres, radii), complemented where the disk is to contain infinity"""
    cs = np.array([d[0] for d in disks], dtype=complex)
    rs = np.array([d[1] for d in disks], dtype=float)
    outs = np.array([d[2] for d in disks], dtype=bool)
    # (|c|^2 would underflow: outside the explored domain, see ASSUMPTIONS. Such centres only
    # arise as rounding residue of a centre that is 0 - a preimage computed from a nearly-zero
    # centre - and are taken for the 0 they stand for; 1e-140 is far below every tolerance)
    cs = np.where((np.abs(cs) > 0) & (np.abs(cs) < 1e-140), 0.0, cs)
    if single:
        D = CP1Disk(np.array(cs[0]), np.array(rs[0]))
        return D.complement() if outs[0] else D
    # the centres as complex numbers or as point objects: a CP1Point in its affine
    # coordinate, or a generic projective.Point in chart 0 (what Transformation.eigenvector
    # or T @ Point hands back)
    how = (len(disks) + int(np.sum(outs))) % 3
    if how == 1:
        ctr = CP1Point(cs.copy(), coords="cx_affine")
    elif how == 2:
        ctr = projective.Point(cs.copy()[:, np.newaxis], chart_index=0)
    else:
        ctr = gen.flavoured(cs.copy())
    D = CP1Disk(ctr, gen.flavoured(rs.copy()))
    if outs.all():
        return D.complement()
    if outs.any():
        Dc = D.complement()
        data = np.where(outs[:, None, None], Dc.proj_data, D.proj_data)
        return CP1Disk(data)
    return D


def build_raw(disks, raws, single):
    data = np.array([raw_data(d, rp) for d, rp in zip(disks, raws)])
    if single:
        return CP1Disk(data[0].copy())
    return CP1Disk(gen.flavoured(data.copy()))


def build(specs, real, single=False):
    """library CP1Disk for the list of specs (shape (n,), or () when single), following
    the realisation; returns (disk object, worst amplification of the maps used)"""
    disks = [spec_tuple(s) for s in specs]
    if single and len(disks) != 1:
        raise HarnessError("single disk needs exactly one spec")
    route = real["route"]
    if route == "cr":
        return build_cr(disks, single), 1.0
    if route == "raw":
        return build_raw(disks, real["raw"], single), 1.0
    # Moebius image: params describe g = f^{-1} relative to the target circle
    mats, pres, raws, amp = [], [], [], 1.0
    for i, d in enumerate(disks):
        G = mob_matrix(real["mob"][i], d)          # g = f^{-1}, placed relative to the target
        pc, pr, pout, a1 = O.image_disk(d, G)      # preimage of the target under f
        F = O.mob_inverse(G)
        F = F / np.sqrt(np.abs(np.linalg.det(F)))
        # sanity of the harness: mapping the preimage forward gives the target back
        bc, br, bout, a2 = O.image_disk((pc, pr, pout), F)
        if bout != d[2] or abs(bc - d[0]) > 1e-7 * a2 * (abs(d[0]) + d[1]) \
                or abs(br - d[1]) > 1e-7 * a2 * d[1]:
            raise HarnessError("image_disk is not consistent with its inverse: %r" % (
                (d, (pc, pr, pout), (bc, br, bout)),))
        amp = max(amp, a1, a2)
        mats.append(F)
        pres.append((pc, pr, pout))
        if real["pre_route"] == "raw":
            raws.append(real["raw"][i]["out" if pout else "in"])
    if real["pre_route"] == "raw":
        pre = build_raw(pres, raws, single)
    else:
        pre = build_cr(pres, single)
    mats = np.array(mats)
    if single:
        T = projective.Transformation(mats[0].copy(), column_vectors=True)
    else:
        T = projective.Transformation(mats.copy(), column_vectors=True)
    return T @ pre, amp


def lib_state(D):
    """what the stored data of a library disk says, read by the harness: affine
    boundary points, interior point (complex or INF) - flattened list of units"""
    data = np.asarray(D.proj_data)
    flat = data.reshape((-1, 4, 2))
    out = []
    for u in flat:
        out.append(([hom_to_z(u[i]) for i in range(3)], hom_to_z(u[3])))
    return out


def check_disk_data(ctx, D, disks, amp, what):
    """the stored data of D describes the disks (c, r, out): boundary points on the
    circle, interior point on the right side; returns the per-unit circle condition"""
    st_ = lib_state(D)
    ctx.check(len(st_) == len(disks), what + ": number of units", got=len(st_),
              want=len(disks))
    conds = []
    for (bd, ip), (c, r, out) in zip(st_, disks):
        tol = 1e-9 * amp * (abs(c) + r)
        for z in bd:
            ctx.check(not isinstance(z, str), what + ": boundary point at infinity", c=c, r=r)
            ctx.small(what + ": boundary point on the circle", (abs(z - c) - r) / tol, 1.0,
                      z=z, c=c, r=r)
        ctx.check(O.in_disk((c, r, out), ip), what + ": interior point on the right side",
                  interior=ip if isinstance(ip, str) else cj(ip), c=cj(c), r=r, out=out)
        conds.append(O.circle_cond(bd))
    return conds


def check_circle(ctx, D, disks, amp, conds, what, shape):
    """circle_parameters() and center_inside() against (c, r, out)"""
    ctr, rad = D.circle_parameters()
    ctr = np.asarray(ctr)
    rad = np.asarray(rad)
    ctx.check(ctr.shape == shape + (2,), what + ": centre array shape", got=ctr.shape,
              want=shape + (2,))
    ctx.check(rad.shape == shape, what + ": radius array shape", got=rad.shape, want=shape)
    ctr = ctr.reshape((-1, 2))
    rad = rad.reshape((-1,))
    for i, (c, r, out) in enumerate(disks):
        tol = 1e-9 * amp * (abs(c) + r) * max(1.0, conds[i])
        ctx.small(what + ": circle centre", abs(complex(ctr[i, 0], ctr[i, 1]) - c) / tol, 1.0,
                  got=ctr[i], want=cj(c), cond=conds[i], amp=amp)
        ctx.small(what + ": circle radius", (rad[i] - r) / tol, 1.0, got=rad[i], want=r,
                  cond=conds[i], amp=amp)
    ci = np.asarray(D.center_inside())
    ctx.check(ci.shape == shape, what + ": center_inside shape", got=ci.shape, want=shape)
    want = np.array([not d[2] for d in disks]).reshape(shape)
    ctx.check(np.array_equal(ci, want), what + ": center_inside() iff the disk is bounded",
              got=ci, want=want)


def labels_for(ctx, specs, real=None):
    mods = [abs(cx(s["c"])) for s in specs]
    if any(m != 0 and abs(m - 1) > 1e-9 for m in mods):
        ctx.label("centre-generic")
    if any(m == 0 for m in mods):
        ctx.label("centre-0")
    if any(m != 0 and abs(m - 1) <= 1e-9 for m in mods):
        ctx.label("centre-unit-modulus")
    if any(s["out"] for s in specs):
        ctx.label("has-unbounded")
    if any(not s["out"] for s in specs):
        ctx.label("has-bounded")
    if real is not None:
        ctx.label("route=" + real["route"])
        if real["route"] == "mob":
            ctx.label("pre=" + real["pre_route"])
            for m in real["mob"]:
                ctx.label("map=" + (m["kind"] if m["kind"] == "aff" else
                                    ("pole-centre" if m["rho"] == 0 else
                                     "pole-inside" if m["rho"] < 1 else "pole-outside")))


def nt_centre(labels):
    return "centre-generic" in labels


def nt_relation(labels):
    return "centre-generic" in labels and "has-unbounded" in labels


# ---------------------------------------------------------------------------
# law: spherical <-> projective, stereographic projection
@st.composite
def sphere_vec(draw):
    k = draw(st.integers(0, 9))
    if k == 0:
        return draw(st.sampled_from([[0.0, 0.0, 1.0], [0.0, 0.0, -1.0], [1.0, 0.0, 0.0],
                                     [0.0, 1.0, 0.0], [-1.0, 0.0, 0.0], [0.0, -1.0, 0.0]]))
    th = draw(angle())
    if k == 1:          # equator: the chart switch of spherical_to_projective
        return [math.cos(th), math.sin(th), 0.0]
    if k == 2:          # just off the equator / just off a pole
        Z = draw(st.sampled_from([1e-12, -1e-12, 1e-6, -1e-6, 1 - 1e-6, -1 + 1e-6,
                                  1 - 1e-10, -1 + 1e-10]))
    else:
        Z = draw(fl(-1.0, 1.0))
    h = math.sqrt(max(0.0, 1 - Z * Z))
    v = [h * math.cos(th), h * math.sin(th), Z]
    n = math.sqrt(sum(t * t for t in v))
    return [t / n for t in v]


@st.composite
def points_case(draw):
    shape = draw(st.lists(st.sampled_from([1, 2, 3]), min_size=0, max_size=2))
    cnt = 1
    for s in shape:
        cnt *= s
    return dict(shape=shape, vecs=[draw(sphere_vec()) for _ in range(cnt)],
                zs=[draw(st.one_of(cplx(1e-3, 1e3, zero=True), st.just(INF)))
                    for _ in range(cnt)],
                scales=[draw(scale()) for _ in range(cnt)])


def body_spherical(case, ctx):
    shape = tuple(case["shape"])
    S = np.array(case["vecs"], dtype=float).reshape(shape + (3,))
    flatS = S.reshape((-1, 3))
    ctx.label("rank=%d" % len(shape))
    if np.any(np.abs(flatS[:, 2]) == 1):
        ctx.label("pole")
    if np.any(flatS[:, 2] == 0):
        ctx.label("equator")
    if np.any(np.abs(np.abs(flatS[:, 2]) - 0.5) < 0.5):
        ctx.label("generic")
    # sphere -> projective -> sphere
    P = CP1Point(gen.flavoured(S.copy()), coords="spherical")
    ctx.check(P.shape == shape, "shape of a point built from spherical coordinates",
              got=P.shape, want=shape)
    pd = np.asarray(P.proj_data).reshape((-1, 2))
    ctx.check(np.all(np.isfinite(pd)) and np.all(np.sum(np.abs(pd) ** 2, axis=-1) > 0),
              "spherical_to_projective gives a point of CP^1", data=pd)
    back = np.array([O.homog_to_sphere(v[0], v[1]) for v in pd])
    ctx.close("spherical -> projective, read back by the harness", back, flatS, rtol=0,
              atol=1e-12)
    for v, s in zip(pd, flatS):
        z = O.sphere_to_z(s)
        if isinstance(z, str):
            ctx.check(v[0] == 0, "north pole is the point at infinity", v=v)
        else:
            # z = (X + iY)/(1 - Z) loses accuracy like 1/(1 - Z): compare projectively
            tol = 1e-12 * (1 + 2.0 / (1 - s[2]))
            ctx.small("stereographic projection z = (X+iY)/(1-Z)",
                      O.chordal(v, z_to_hom(z)) / tol, 1.0, v=v, s=s)
    ctx.close("spherical_coords() of a point built from spherical coordinates",
              P.spherical_coords(), S, rtol=0, atol=1e-12)
    ctx.close("projective_to_spherical(spherical_to_projective(s))",
              cp.projective_to_spherical(cp.spherical_to_projective(S.copy())), S, rtol=0,
              atol=1e-12)
    # a point object that held integer-typed data (the poles (1, 0) and (0, 1)) and is then
    # given spherical coordinates through the setter: it is where it was put
    poles = np.zeros(shape + (2,), dtype=np.int64)
    poles[..., 0] = 1
    Pp = CP1Point(poles)
    Pp.spherical_coords(S.copy())
    ctx.close("spherical_coords(s) on a point that held integer-typed data", Pp.spherical_coords(),
              S, rtol=0, atol=1e-12)
    # the module-level conversions in the column layout (documented option of both)
    if len(shape) >= 1:
        ctx.label("column-layout")
        Sc = np.ascontiguousarray(np.swapaxes(S, -1, -2))
        pc = np.asarray(cp.spherical_to_projective(Sc.copy(), column_vectors=True))
        pr = np.asarray(cp.spherical_to_projective(S.copy()))
        ctx.close("spherical_to_projective(columns) is the transposed row result", pc,
                  np.swapaxes(pr, -1, -2), rtol=0, atol=0)
        sc = np.asarray(cp.projective_to_spherical(pc.copy(), column_vectors=True))
        ctx.check(sc.shape == Sc.shape, "projective_to_spherical(columns): shape", got=sc.shape,
                  want=Sc.shape)
        ctx.close("projective_to_spherical(spherical_to_projective(s)) in the column layout",
                  sc, Sc, rtol=0, atol=1e-12)
    # projective -> sphere -> projective, all constructor routes
    zs = [cx(z) for z in case["zs"]]
    H = np.array([z_to_hom(z) * cx(s) for z, s in zip(zs, case["scales"])])
    Q = CP1Point(gen.flavoured(H.reshape(shape + (2,)).copy()))
    sph = np.asarray(Q.spherical_coords())
    ctx.check(sph.shape == shape + (3,), "spherical_coords shape", got=sph.shape)
    want = np.array([O.z_to_sphere(z) for z in zs]).reshape(shape + (3,))
    ctx.close("spherical_coords() vs inverse stereographic projection", sph, want, rtol=0,
              atol=1e-12)
    ctx.close("spherical coordinates are unit vectors", np.sum(sph * sph, axis=-1),
              np.ones(shape), rtol=0, atol=1e-12)
    R = CP1Point(sph.copy(), coords="spherical")
    ctx.small("projective -> spherical -> projective",
              O.chordal(np.asarray(R.proj_data).reshape((-1, 2)), H), 1e-12)
    if any(isinstance(z, str) for z in zs):
        ctx.label("infinity")
    else:
        Z = np.array(zs, dtype=complex).reshape(shape)
        A = CP1Point(gen.flavoured(Z.copy()), coords="cx_affine")
        ctx.small("cx_affine constructor", O.chordal(
            np.asarray(A.proj_data).reshape((-1, 2)), H), 1e-13)
        ctx.close("affine_coords of a cx_affine point", np.asarray(A.affine_coords())[..., 0],
                  Z, rtol=1e-13, atol=1e-300)
        if np.all(np.abs(Z) > 0):
            # the other chart of the Riemann sphere (around infinity): coordinate 1/z
            ctx.close("affine_coords(chart_index=1) of a finite non-zero point is 1/z",
                      np.asarray(A.affine_coords(chart_index=1))[..., 0], 1.0 / Z, rtol=1e-12,
                      atol=1e-300)
            ctx.label("chart-at-infinity")
        Rr = np.stack([Z.real, Z.imag], axis=-1)
        B = CP1Point(gen.flavoured(Rr.copy()), coords="real_affine")
        ctx.small("real_affine constructor", O.chordal(
            np.asarray(B.proj_data).reshape((-1, 2)), H), 1e-13)
        ctx.close("real_affine_coords", B.real_affine_coords(), Rr, rtol=1e-13, atol=1e-300)
        # points given by scaled homogeneous coordinates (z0 may be purely imaginary)
        gq = np.asarray(Q.real_affine_coords())
        ctx.check(gq.shape == shape + (2,), "real_affine_coords shape", got=gq.shape)
        ctx.small("real_affine_coords of a scaled homogeneous pair",
                  np.abs((gq[..., 0] + 1j * gq[..., 1]) - Z) / (1e-12 * np.abs(Z) + 1e-300),
                  1.0)
        ctx.label("finite")


def nt_points(labels):
    return "generic" in labels


# ---------------------------------------------------------------------------
# law: the same statements for single-precision data (complex64 / float32 arrays)
@st.composite
def single_precision_case(draw):
    shape = draw(st.lists(st.sampled_from([1, 2, 3]), min_size=0, max_size=2))
    cnt = 1
    for k in shape:
        cnt *= k
    return dict(shape=shape, zs=[draw(cplx(0.1, 10.0, zero=True)) for _ in range(cnt)],
                scales=[draw(cplx(0.3, 3.0)) for _ in range(cnt)],
                rs=[draw(fl(0.2, 3.0)) for _ in range(cnt)])


def body_single_precision(case, ctx):
    shape = tuple(case["shape"])
    ctx.label("rank=%d" % len(shape), "generic")
    Z = np.array([cx(z) for z in case["zs"]], dtype=np.complex64).reshape(shape)
    Sc = np.array([cx(z) for z in case["scales"]], dtype=np.complex64).reshape(shape)
    Z128 = Z.astype(complex)
    want_s = np.array([O.z_to_sphere(complex(z)) for z in Z128.reshape(-1)]).reshape(
        shape + (3,))
    tol = 2e-5
    # homogeneous complex64 data
    H = np.stack([Sc, Sc * Z], axis=-1).astype(np.complex64)
    Q = CP1Point(H.copy())
    ctx.close("spherical_coords() of complex64 homogeneous data", Q.spherical_coords(), want_s,
              rtol=0, atol=tol)
    ra = np.asarray(Q.real_affine_coords(), dtype=float)
    ctx.close("real_affine_coords() of complex64 homogeneous data",
              ra[..., 0] + 1j * ra[..., 1], Z128, rtol=tol, atol=tol)
    A = CP1Point(Z.copy(), coords="cx_affine")
    ctx.close("spherical_coords() of a complex64 cx_affine point", A.spherical_coords(), want_s,
              rtol=0, atol=tol)
    B = CP1Point(np.stack([Z.real, Z.imag], axis=-1).astype(np.float32), coords="real_affine")
    ctx.close("real_affine_coords() of float32 input", B.real_affine_coords(),
              np.stack([Z128.real, Z128.imag], axis=-1), rtol=tol, atol=tol)
    S32 = want_s.astype(np.float32)
    R = CP1Point(S32.copy(), coords="spherical")
    ctx.close("spherical -> projective -> spherical with float32 input", R.spherical_coords(),
              want_s, rtol=0, atol=tol)
    # disks from complex64 centres and float32 radii
    rs = np.array(case["rs"], dtype=np.float32).reshape(shape)
    D = CP1Disk(Z.copy(), rs.copy())
    c, r = D.circle_parameters()
    c = np.asarray(c, dtype=float)
    ctx.close("circle_parameters() centre of a disk built from complex64 / float32 input",
              c[..., 0] + 1j * c[..., 1], Z128, rtol=tol, atol=tol)
    ctx.close("circle_parameters() radius of a disk built from complex64 / float32 input",
              np.asarray(r, dtype=float), rs.astype(float), rtol=tol, atol=tol)
    ctx.check(bool(np.all(np.asarray(D.center_inside()))), "a bounded disk built from single-"
              "precision input contains its centre")


# ---------------------------------------------------------------------------
# law: CP1Disk(c, r) reports (c, r)
@st.composite
def affine_disk_case(draw):
    single = draw(st.integers(0, 3)) == 0
    n = 1 if single else draw(st.integers(1, 4))
    return dict(single=single, specs=[draw(disk_spec(out=False)) for _ in range(n)],
                form=draw(st.sampled_from(["cx_array", "real_affine", "python"])))


def body_affine_disk(case, ctx):
    specs = case["specs"]
    single = case["single"]
    disks = [spec_tuple(s) for s in specs]
    shape = () if single else (len(specs),)
    cs = np.array([d[0] for d in disks], dtype=complex).reshape(shape)
    rs = np.array([d[1] for d in disks], dtype=float).reshape(shape)
    labels_for(ctx, specs)
    form = case["form"]
    ctx.label("form=" + form, "single" if single else "composite")
    c_in, r_in = cs.copy(), rs.copy()
    if form == "real_affine":
        c_in = np.stack([cs.real, cs.imag], axis=-1)
        keep = c_in.copy()
        D = CP1Disk(c_in, r_in, center_coords="real_affine")
    elif form == "python":
        # plain python numbers / lists
        keep = None
        if single:
            D = CP1Disk(complex(cs), float(rs))
        else:
            D = CP1Disk([complex(c) for c in cs], np.array(rs))
    else:
        keep = c_in.copy()
        D = CP1Disk(c_in, r_in)
    if keep is not None:
        ctx.check(np.array_equal(c_in, keep) and np.array_equal(r_in, rs),
                  "the constructor leaves the caller's centre and radius arrays alone",
                  centre_after=c_in, centre_before=keep)
    ctx.check(D.shape == shape, "shape of CP1Disk(c, r)", got=D.shape, want=shape)
    conds = check_disk_data(ctx, D, disks, 1.0, "CP1Disk(c, r)")
    check_circle(ctx, D, disks, 1.0, conds, "CP1Disk(c, r)", shape)
    # the interior point is the centre
    for (bd, ip), (c, r, out) in zip(lib_state(D), disks):
        ctx.check(not isinstance(ip, str), "interior point of a bounded disk is finite")
        ctx.small("interior point is the centre", abs(ip - c) / (1e-12 * (abs(c) + r)), 1.0)


# ---------------------------------------------------------------------------
# law: Fubini-Study disks
@st.composite
def fs_case(draw):
    single = draw(st.integers(0, 3)) == 0
    n = 1 if single else draw(st.integers(1, 4))
    items = []
    for _ in range(n):
        rad = draw(fl(0.05, math.pi / 2 - 0.05))
        alpha = 2 * rad
        # colatitude of the centre (angle from the north pole = infinity), >= 0.1 away
        # from alpha so that infinity is not near the boundary
        k = draw(st.integers(0, 5))
        lo_ok = alpha - 0.1 > 0
        if k == 0:
            theta = math.pi              # centre at the south pole: z = 0
        elif k == 1 and lo_ok:
            theta = 0.0                  # centre at infinity
        elif k == 2 and lo_ok:
            theta = draw(fl(0.0, alpha - 0.1))
        else:
            theta = draw(fl(min(alpha + 0.1, math.pi), math.pi))
        phi = draw(angle())
        n3 = math.cos(theta)
        h = math.sin(theta)
        v = [h * math.cos(phi), h * math.sin(phi), n3]
        nn = math.sqrt(sum(t * t for t in v))
        items.append(dict(n=[t / nn for t in v], rad=rad))
    return dict(single=single, items=items)


def body_fs(case, ctx):
    items = case["items"]
    single = case["single"]
    shape = () if single else (len(items),)
    N = np.array([it["n"] for it in items], dtype=float).reshape(shape + (3,))
    R = np.array([it["rad"] for it in items], dtype=float).reshape(shape)
    ctx.label("single" if single else "composite")
    D = CP1Disk(gen.flavoured(N.copy()), gen.flavoured(R.copy()), radius_metric="fs",
                center_coords="spherical")
    ctx.check(D.shape == shape, "shape of a Fubini-Study disk", got=D.shape, want=shape)
    disks = []
    amp = 1.0
    for it in items:
        n = np.array(it["n"])
        alpha = 2 * it["rad"]
        c, r, out = O.cap_to_affine(n, alpha)
        disks.append((c, r, out))
        amp = max(amp, 1.0 / abs(n[2] - math.cos(alpha)))
        ctx.label("contains-infinity" if out else "bounded")
        if abs(n[2]) == 1:
            ctx.label("centre-at-pole")
        elif abs(c) > 0:
            ctx.label("centre-generic")
    # stored data: boundary points at spherical angle 2*rad from the centre, interior
    # point = centre (read on the sphere, where nothing is ill conditioned)
    flat = np.asarray(D.proj_data).reshape((-1, 4, 2))
    for u, it in zip(flat, items):
        n = np.array(it["n"])
        for i in range(3):
            s = O.homog_to_sphere(u[i, 0], u[i, 1])
            ctx.small("FS disk: boundary point at angle 2*radius from the centre",
                      float(np.dot(s, n)) - math.cos(2 * it["rad"]), 1e-12)
        ctx.small("FS disk: interior point is the centre",
                  np.linalg.norm(O.homog_to_sphere(u[3, 0], u[3, 1]) - n), 1e-12)
    conds = [O.circle_cond([hom_to_z(u[i]) for i in range(3)]) for u in flat]
    check_circle(ctx, D, disks, amp, conds, "FS disk", shape)
    # reported Fubini-Study parameters
    diam = np.asarray(D.fs_diameter())
    ctx.check(diam.shape == shape, "fs_diameter shape", got=diam.shape, want=shape)
    tol = 1e-9 * amp * np.array([max(1.0, k) for k in conds]).reshape(shape)
    ctx.small("fs_diameter() = 2 * radius", (diam - 2 * R) / tol, 1.0, got=diam, want=2 * R)
    ctrp = D.fs_center()
    ctx.check(ctrp.shape == shape, "fs_center shape", got=ctrp.shape, want=shape)
    got = np.asarray(ctrp.spherical_coords())
    ctx.small("fs_center() is the centre (on the sphere)",
              np.linalg.norm(got - N, axis=-1) / tol, 1.0, got=got, want=N)
    # the helper functions of utils.cp1 on bounded disks not centred at 0
    for it, (c, r, out) in zip(items, disks):
        w = O.sphere_to_z(it["n"])
        if out or isinstance(w, str) or abs(w) == 0:
            continue
        a = abs(it["n"][2] - math.cos(2 * it["rad"]))
        t = 1e-10 * (1.0 / a) * (abs(c) + r)
        ctx.small("utils.cp1.fs_ctr_to_aff_ctr",
                  abs(complex(utils.cp1.fs_ctr_to_aff_ctr(w, it["rad"])) - c) / t, 1.0,
                  w=cj(w), rad=it["rad"], want=cj(c))
        ctx.small("utils.cp1.aff_ctr_to_fs_ctr",
                  (float(utils.cp1.aff_ctr_to_fs_ctr(c, r)) - abs(w)) / (t + 1e-10 * abs(w)),
                  1.0, c=cj(c), r=r, want=abs(w))
        ctx.label("cp1-helpers")


def nt_fs(labels):
    return "centre-generic" in labels


# ---------------------------------------------------------------------------
# law: Moebius image of a disk
@st.composite
def moebius_case(draw):
    single = draw(st.integers(0, 3)) == 0
    n = 1 if single else draw(st.integers(1, 3))
    specs = [draw(disk_spec()) for _ in range(n)]
    real = draw(realisation(specs, routes=("cr", "raw")))
    maps = [draw(mob_params()) for _ in range(n)]
    return dict(single=single, specs=specs, real=real, maps=maps,
                one_map=draw(st.booleans()), syntax=draw(st.sampled_from(["matmul", "apply"])))


def body_moebius(case, ctx):
    specs, single = case["specs"], case["single"]
    shape = () if single else (len(specs),)
    src = [spec_tuple(s) for s in specs]
    labels_for(ctx, specs, case["real"])
    ctx.label("single" if single else "composite")
    D, _ = build(specs, case["real"], single)
    one_map = case["one_map"] and not single
    if one_map:
        # one transformation applied to a composite disk; placed relative to disk 0
        mats = [mob_matrix(case["maps"][0], src[0])] * len(src)
        ctx.label("one-map-many-disks")
    else:
        mats = [mob_matrix(m, d) for m, d in zip(case["maps"], src)]
    for m in (case["maps"][:1] if one_map else case["maps"]):
        ctx.label("map=" + (m["kind"] if m["kind"] == "aff" else
                            ("pole-centre" if m["rho"] == 0 else
                             "pole-inside" if m["rho"] < 1 else "pole-outside")))
    want, amp, keep = [], 1.0, []
    for i, (d, M) in enumerate(zip(src, mats)):
        c, r, out, a = O.image_disk(d, M)
        if a > 45.0 or r > 1e4 or r < 1e-5:
            # (only for one map shared by several disks) the pole is close to this circle
            if not one_map or i == 0:
                raise HarnessError("generator placed a pole too close to its circle")
            ctx.label("unit-skipped:pole-near-circle")
            keep.append(False)
            want.append((c, r, out))
            continue
        keep.append(True)
        want.append((c, r, out))
        amp = max(amp, a)
        ctx.label("image-unbounded" if out else "image-bounded")
        ctx.label("flips-side" if out != d[2] else "keeps-side")
    if single or one_map:
        T = projective.Transformation(np.array(mats[0]).copy(), column_vectors=True)
    else:
        T = projective.Transformation(np.array(mats).copy(), column_vectors=True)
    before = np.array(D.proj_data).copy()
    E = (T @ D) if case["syntax"] == "matmul" else T.apply(D)
    ctx.check(isinstance(E, CP1Disk), "the image of a disk is a CP1Disk", got=type(E).__name__)
    ctx.check(E.shape == shape, "shape of the image disk", got=E.shape, want=shape)
    ctx.check(np.array_equal(np.asarray(D.proj_data), before),
              "applying a transformation leaves the disk alone")
    if not all(keep):
        sel = [i for i, k in enumerate(keep) if k]
        E = E[np.array(sel)]
        want = [want[i] for i in sel]
        shape = (len(sel),)
    conds = check_disk_data(ctx, E, want, amp, "T @ disk")
    check_circle(ctx, E, want, amp, conds, "T @ disk", shape)


# ---------------------------------------------------------------------------
# law: complement
@st.composite
def complement_case(draw):
    single = draw(st.integers(0, 3)) == 0
    n = 1 if single else draw(st.integers(1, 4))
    specs = [draw(disk_spec()) for _ in range(n)]
    return dict(single=single, specs=specs, real=draw(realisation(specs)))


def body_complement(case, ctx):
    specs, single = case["specs"], case["single"]
    shape = () if single else (len(specs),)
    disks = [spec_tuple(s) for s in specs]
    labels_for(ctx, specs, case["real"])
    ctx.label("single" if single else "composite")
    D, amp = build(specs, case["real"], single)
    conds = check_disk_data(ctx, D, disks, amp, "disk")
    check_circle(ctx, D, disks, amp, conds, "disk", shape)
    before = np.array(D.proj_data).copy()
    Dc = D.complement()
    ctx.check(np.array_equal(np.asarray(D.proj_data), before),
              "complement() leaves the disk alone")
    ctx.check(isinstance(Dc, CP1Disk) and Dc.shape == shape, "complement is a disk of the "
              "same shape", got=getattr(Dc, "shape", None))
    comp = [(c, r, not out) for (c, r, out) in disks]
    k1 = check_disk_data(ctx, Dc, comp, amp, "complement")
    check_circle(ctx, Dc, comp, amp, k1, "complement", shape)
    Dcc = Dc.complement()
    k2 = check_disk_data(ctx, Dcc, disks, amp, "complement of the complement")
    check_circle(ctx, Dcc, disks, amp, k2, "complement of the complement", shape)
    # the inversion used by complement(): a Moebius involution that preserves the
    # boundary circle and exchanges the two sides
    J = D.inversion()
    ctx.check(J.shape == shape, "inversion() shape", got=J.shape, want=shape)
    Jm = np.asarray(J.matrix).reshape((-1, 2, 2))
    flat = np.asarray(D.proj_data).reshape((-1, 4, 2))
    for i, (c, r, out) in enumerate(disks):
        M = Jm[i].T                                   # column matrix
        # to_standard_triple inverts the matrix of two boundary points: its accuracy is
        # governed by how close the boundary points are on the sphere
        sep = min(float(O.chordal(flat[i, a], flat[i, b])) for a, b in ((0, 1), (0, 2), (1, 2)))
        kap = 2.0 / sep
        ctx.label("triple-cond>100" if kap > 100 else "triple-cond<=100")
        sq = M @ M
        ctx.small("inversion is an involution (projectively)",
                  np.abs(sq - sq[0, 0] * np.eye(2)).max() / (np.abs(sq).max()),
                  1e-9 + 1e-13 * kap ** 2)
        ic, ir, iout, a = O.image_disk((c, r, out), M / np.sqrt(abs(np.linalg.det(M))))
        tol = (1e-9 + 1e-13 * kap ** 2) * amp * a * (abs(c) + r)
        ctx.small("inversion preserves the circle (centre)", abs(ic - c) / tol, 1.0)
        ctx.small("inversion preserves the circle (radius)", (ir - r) / tol, 1.0)
        ctx.check(iout != out, "inversion exchanges the two sides", c=cj(c), r=r, out=out)
    # the coordinate change behind it: the three boundary points go to {0, 1, infinity}
    bp = D.boundary_points()
    S = bp.to_standard_triple()
    ctx.check(S.shape == shape, "to_standard_triple() shape", got=S.shape, want=shape)
    Sm = np.asarray(S.matrix).reshape((-1, 2, 2))             # row matrices: x -> x M
    img = np.einsum("nki,nij->nkj", flat[:, :3, :], Sm)
    std = np.array([[1.0, 0.0], [0.0, 1.0], [1.0, 1.0]], dtype=complex)
    for i in range(len(disks)):
        sep = min(float(O.chordal(flat[i, a], flat[i, b])) for a, b in ((0, 1), (0, 2), (1, 2)))
        tol = 1e-9 + 1e-13 * (2.0 / sep) ** 2
        hit = [int(np.argmin([float(O.chordal(img[i, k], t)) for t in std])) for k in range(3)]
        ctx.check(sorted(hit) == [0, 1, 2], "to_standard_triple sends the triple onto "
                  "{0, infinity, 1}", images=img[i], nearest=hit)
        ctx.small("to_standard_triple: distance of the images from {0, infinity, 1}",
                  max(float(O.chordal(img[i, k], std[hit[k]])) for k in range(3)), tol)


# ---------------------------------------------------------------------------
# laws: containment / intersection truth tables
@st.composite
def relation_case(draw, pairwise=False):
    if pairwise:
        single = False
        n, m = draw(st.integers(1, 3)), draw(st.integers(1, 3))
    else:
        single = draw(st.integers(0, 3)) == 0
        n = 1 if single else draw(st.integers(1, 4))
        m = n
    # force every bounded/unbounded combination to be frequent
    combos = [(False, False), (False, True), (True, False), (True, True)]
    A = []
    B = []
    for i in range(max(n, m)):
        oa, ob = combos[draw(st.integers(0, 3))]
        a = draw(disk_spec(out=oa))
        b = draw(disk_relative(a, out=ob))
        A.append(a)
        B.append(b)
    A, B = A[:n], B[:m]
    if draw(st.booleans()):
        A, B = B, A
        n, m = m, n
    return dict(single=single, A=A, B=B, realA=draw(realisation(A)),
                realB=draw(realisation(B)), pairwise=pairwise)


def relation_setup(case, ctx):
    A, B, single = case["A"], case["B"], case["single"]
    labels_for(ctx, A + B)
    ctx.label("single" if single else "composite", "routeA=" + case["realA"]["route"],
              "routeB=" + case["realB"]["route"])
    DA, ampA = build(A, case["realA"], single)
    DB, ampB = build(B, case["realB"], single)
    ta = [spec_tuple(s) for s in A]
    tb = [spec_tuple(s) for s in B]
    # make sure the objects are what the harness thinks they are (data level)
    check_disk_data(ctx, DA, ta, ampA, "disk A")
    check_disk_data(ctx, DB, tb, ampB, "disk B")
    return DA, DB, ta, tb


def truth_entry(ctx, a, b):
    """(contains, intersects, general position); the formula oracle is cross-checked
    against sampled membership inside the harness"""
    con, inter, gp = O.relation_truth(a, b)
    if gp:
        s_all, s_any = O.relation_by_samples(a, b)
        if s_all != con or s_any != inter:
            raise HarnessError("truth table and sampled membership disagree: %r %r -> "
                               "formula %r samples %r" % (a, b, (con, inter), (s_all, s_any)))
        ctx.label("pair:%s-%s" % ("U" if a[2] else "B", "U" if b[2] else "B"))
        ctx.label("truth:contains=%s" % con, "truth:intersects=%s" % inter)
    else:
        ctx.label("near-tangent-entry")
    return con, inter, gp


def body_relation_elementwise(which):
    def body(case, ctx):
        DA, DB, ta, tb = relation_setup(case, ctx)
        shape = () if case["single"] else (len(ta),)
        before = (np.array(DA.proj_data).copy(), np.array(DB.proj_data).copy())
        if which == "contains":
            got = np.asarray(DA.contains(DB))
        else:
            got = np.asarray(DA.intersects(DB))
        ctx.check(got.shape == shape, which + ": result shape", got=got.shape, want=shape)
        ctx.check(got.dtype == bool, which + ": boolean result", dtype=str(got.dtype))
        ctx.check(np.array_equal(before[0], np.asarray(DA.proj_data)) and
                  np.array_equal(before[1], np.asarray(DB.proj_data)),
                  which + " leaves both disks alone")
        g = got.reshape((-1,))
        for i, (a, b) in enumerate(zip(ta, tb)):
            con, inter, gp = truth_entry(ctx, a, b)
            if not gp:
                continue
            want = con if which == "contains" else inter
            ctx.check(bool(g[i]) == want, "A.%s(B) against the set-theoretic truth" % which,
                      index=i, got=bool(g[i]), want=want, A=(cj(a[0]), a[1], a[2]),
                      B=(cj(b[0]), b[1], b[2]))
    return body


def body_relation_pairwise(case, ctx):
    DA, DB, ta, tb = relation_setup(case, ctx)
    n, m = len(ta), len(tb)
    ctx.label("n=%d" % n, "m=%d" % m, "square" if n == m else "rectangular")
    for which in ("contains", "intersects"):
        fn = getattr(DA, which)
        got = np.asarray(fn(DB, broadcast="pairwise"))
        ctx.check(got.shape == (n, m), which + " pairwise: result shape", got=got.shape,
                  want=(n, m))
        for i in range(n):
            for j in range(m):
                con, inter, gp = truth_entry(ctx, ta[i], tb[j])
                want = con if which == "contains" else inter
                if gp:
                    ctx.check(bool(got[i, j]) == want,
                              "A.%s(B, 'pairwise')[i, j] is A[i] vs B[j]" % which, i=i, j=j,
                              got=bool(got[i, j]), want=want,
                              A=(cj(ta[i][0]), ta[i][1], ta[i][2]),
                              B=(cj(tb[j][0]), tb[j][1], tb[j][2]))
                # unit loop: the same answer as the two unit disks give
                unit = getattr(DA[i], which)(DB[j])
                ctx.check(bool(np.asarray(unit)) == bool(got[i, j]),
                          which + " pairwise entry equals the answer for the unit disks",
                          i=i, j=j, pairwise=bool(got[i, j]), unit=bool(np.asarray(unit)))
        # one disk against many, and many against one: the row / column of the table
        row = np.asarray(getattr(DA[0], which)(DB, broadcast="pairwise"))
        ctx.check(row.size == m and np.array_equal(np.ravel(row).astype(bool),
                                                   got[0, :].astype(bool)),
                  which + ": one disk against many (pairwise) is the first row of the table",
                  got=row, want=got[0, :])
        colm = np.asarray(getattr(DA, which)(DB[0], broadcast="pairwise"))
        ctx.check(colm.size == n and np.array_equal(np.ravel(colm).astype(bool),
                                                    got[:, 0].astype(bool)),
                  which + ": many disks against one (pairwise) is the first column of the "
                  "table", got=colm, want=got[:, 0])


# ---------------------------------------------------------------------------
# law: every operation on a unit (non-composite) disk
@st.composite
def unit_case(draw):
    a = draw(disk_spec())
    b = draw(disk_relative(a))
    return dict(A=[a], B=[b], realA=draw(realisation([a])), realB=draw(realisation([b])),
                map=draw(mob_params()))


def body_unit(case, ctx):
    a, b = spec_tuple(case["A"][0]), spec_tuple(case["B"][0])
    labels_for(ctx, case["A"] + case["B"])
    ctx.label("routeA=" + case["realA"]["route"])
    DA, ampA = build(case["A"], case["realA"], True)
    DB, ampB = build(case["B"], case["realB"], True)
    ctx.check(DA.shape == () and DB.shape == (), "unit disks have shape ()")
    k = check_disk_data(ctx, DA, [a], ampA, "unit disk")
    check_circle(ctx, DA, [a], ampA, k, "unit disk", ())
    # every public method answers on a unit disk, with a scalar-shaped result
    ci = DA.center_inside()
    ctx.check(np.asarray(ci).shape == () and bool(ci) == (not a[2]), "center_inside()")
    ctx.check(DA.boundary_points().shape == (3,), "boundary_points() shape",
              got=DA.boundary_points().shape)
    ctx.check(DA.interior_point().shape == (), "interior_point() shape")
    # Fubini-Study parameters against the spherical cap of (c, r, out)
    c, r, out = a
    lo, hi = math.atan(abs(c) - r), math.atan(abs(c) + r)
    diam = hi - lo if not out else math.pi - (hi - lo)
    tol = 1e-9 * ampA * max(1.0, k[0]) * (1 + abs(c) + r)
    d = DA.fs_diameter()
    ctx.check(np.asarray(d).shape == (), "fs_diameter() of a unit disk is a scalar")
    ctx.small("fs_diameter() of a unit disk", (float(d) - diam) / tol, 1.0, got=float(d),
              want=diam)
    fc = DA.fs_center()
    ctx.check(fc.shape == (), "fs_center() of a unit disk is a point")
    # centre of the cap: on the ray of c at FS distance (lo + hi)/2 from 0 (antipode when
    # the disk contains infinity)
    u = c / abs(c) if abs(c) > 0 else 1.0
    wc = O.z_to_sphere(u * math.tan((lo + hi) / 2))
    if out:
        wc = -wc
    ctx.small("fs_center() of a unit disk", np.linalg.norm(
        np.asarray(fc.spherical_coords()) - wc) / tol, 1.0, got=fc.spherical_coords(), want=wc)
    con, inter, gp = truth_entry(ctx, a, b)
    r1, r2 = DA.contains(DB), DA.intersects(DB)
    ctx.check(np.asarray(r1).shape == () and np.asarray(r2).shape == (),
              "contains / intersects of unit disks are scalars")
    if gp:
        ctx.check(bool(r1) == con, "unit contains", got=bool(r1), want=con)
        ctx.check(bool(r2) == inter, "unit intersects", got=bool(r2), want=inter)
    Dc = DA.complement()
    kc = check_disk_data(ctx, Dc, [(c, r, not out)], ampA, "unit complement")
    check_circle(ctx, Dc, [(c, r, not out)], ampA, kc, "unit complement", ())
    M = mob_matrix(case["map"], a)
    ic, ir, iout, amp = O.image_disk(a, M)
    E = projective.Transformation(M.copy(), column_vectors=True) @ DA
    ke = check_disk_data(ctx, E, [(ic, ir, iout)], ampA * amp, "unit image")
    check_circle(ctx, E, [(ic, ir, iout)], ampA * amp, ke, "unit image", ())


LAWS = [
    Law("spherical_roundtrip_stereographic", points_case(), body_spherical, nt_points,
        quick=250, thorough=1500, shards=(1, 4)),
    Law("single_precision_data", single_precision_case(), body_single_precision,
        lambda l: True, quick=150, thorough=800, shards=(1, 2)),
    Law("affine_disk_reports", affine_disk_case(), body_affine_disk, nt_centre, quick=250,
        thorough=1500, shards=(1, 4)),
    Law("fs_disk_reports", fs_case(), body_fs, nt_fs, quick=250, thorough=1500,
        shards=(1, 4)),
    Law("moebius_image", moebius_case(), body_moebius, nt_centre, quick=250, thorough=1200,
        shards=(2, 6)),
    Law("complement_involution", complement_case(), body_complement, nt_centre, quick=200,
        thorough=1000, shards=(2, 6)),
    Law("containment_truth_table", relation_case(), body_relation_elementwise("contains"),
        nt_relation, quick=250, thorough=1200, shards=(2, 6)),
    Law("intersection_truth_table", relation_case(), body_relation_elementwise("intersects"),
        nt_relation, quick=250, thorough=1200, shards=(2, 6)),
    Law("pairwise_truth_table_vs_loop", relation_case(pairwise=True), body_relation_pairwise,
        nt_relation, quick=150, thorough=800, shards=(2, 6)),
    Law("unit_disks_work", unit_case(), body_unit, nt_centre, quick=200, thorough=1000,
        shards=(2, 6)),
]
