"""C02 - every isometry the library builds preserves the Minkowski form and distances."""
import math
import itertools
import functools
import numpy as np
from hypothesis import strategies as st

from ..core import Law, HarnessError
from .. import gen
from ..gen import fl
from ..num import mink
from ..oracles import isom as I

from geometry_tools import hyperbolic, coxeter
from geometry_tools.hyperbolic import (Point, DualPoint, Isometry, TangentVector,
                                       Hyperplane, Subspace)

CTORS = ["origin_to", "tv_origin_to", "isometry_to", "timelike_to", "spacelike_to",
         "elliptic", "standard_rotation", "standard_loxodromic", "sl2_iso",
         "reflection_across", "coxeter_hyperbolic_rep"]

# finding reported to the coordinator and not yet listed in known_findings.json: the family
# is kept out of the search (counted under `excluded`) until it is repaired or listed as open
PENDING_FINDINGS = set()


def pending(fid):
    """True while `fid` is a reported-but-unlisted finding; VERIF_PENDING=0 switches the
    exclusion off (to replay the saved case of the finding and see it fail)"""
    import os
    return fid in PENDING_FINDINGS and os.environ.get("VERIF_PENDING", "1") != "0"


RULE = ("cases are constructor-tagged JSON specs: Point.origin_to (projective representatives "
        "with factors in +-[0.2,5], force_oriented T/F/default, n 1..5, composite shapes), "
        "TangentVector.origin_to / isometry_to (basepoint, harness-built tangent direction x "
        "length plus a non-tangential component the library must project away), timelike_to / "
        "spacelike_to (raw vectors of either sign, composite as (...,1,n+1)), Isometry.elliptic "
        "(O(n) blocks from Givens products, both column_vectors), standard_rotation (special "
        "angles, dimension 2..5), standard_loxodromic (parameter +-exp(s)), sl2_iso / from_sl2 "
        "(products of unipotents, diagonals, rotations, reflections; det +-1; list or ndarray; "
        "composite), Hyperplane(normal).reflection_across and Subspace(ideal basis)."
        "reflection_across (n 2..5, composite), CoxeterGroup/TriangleGroup.hyperbolic_rep "
        "(triangle triples with 1/p+1/q+1/r<1 incl. infinity, rank-4 matrices sampled from all "
        "46347 over {2,3,4,5,6,inf} and rank-5 matrices from a fixed sample whose cosine form "
        "the harness finds of signature (d,1) with |eigenvalue| >= 0.005; generators, a word of "
        "length <= 8, and the composite rep.isometries(words); exhaustive: all ordered "
        "hyperbolic triangle triples over {2..8,inf} and, thorough, one representative per "
        "generator permutation class of the rank-4 matrices over {2,3,4,5,inf}); programs = histories of <= 8 steps (acc@X, X@acc, "
        "acc.inv(), acc@X.inv(), X.inv()@acc) over a pool of 2-3 built isometries.  Every built "
        "isometry is applied to 3 interior, 2 ideal, 2 exterior test points.  non-trivial = "
        "non-identity isometry in dimension >= 2, or a program with >= 2 steps; distinct = "
        "distinct JSON case.")

ASSUMPTIONS = [
    "form preservation is asserted relative to the squared spectral norm of the matrix "
    "(1e-9*|M|^2, times the harness-measured conditioning of the ideal basis for reflections "
    "and 1/min|eigenvalue| of the cosine form for Coxeter groups)",
    "translation lengths of single constructors <= 3.8 (Klein radius <= 0.999); inside programs "
    "each pool element moves the origin by <= 0.8 so that |M| stays below ~1e4 and the distance "
    "check keeps an absolute meaning",
    "spacelike normals satisfy <v,v> >= 0.05 |v|^2 (hyperplane within 1.8 of the origin)",
    "hyperplanes / reflections in dimension >= 2 only (a 'hyperplane' of H^1 is a point; "
    "Hyperplane(normal) in H^1 builds a non-orthogonal ideal basis - reported, not asserted)",
    "composite timelike_to/spacelike_to/Hyperplane inputs use the (...,1,n+1) layout the "
    "library's own callers use",
    "float64 only",
]

CLAIM = dict(
    text=("Generated-input search over every isometry constructor (11 families, dimensions "
          "1..5, composite shapes, special parameter values) and over random programs of "
          "composition/inversion: the stored row matrix must satisfy M J M^T = J relative to "
          "|M|^2, its inverse must equal the closed form J M^T J, harness-computed distances of "
          "random point pairs and the causal character (and Minkowski square) of interior / "
          "ideal / exterior test vectors must be unchanged, force_oriented must give det > 0, "
          "and each program is replayed on a numpy model step by step. Refutes, never proves."),
    note=("Subspace.reflection_across of a hyperplane through the origin (NaN / LinAlgError "
          "before fdde039) is part of the search and pinned as a regression."),
    technique="property-based testing (Hypothesis): algebraic invariant (form), closed-form "
              "metric oracle, model-based replay of composition histories, exhaustive small "
              "Coxeter domains",
)

SHAPES = [[], [], [], [2], [3], [1], [1, 2], [2, 1]]
SPECIAL_ANGLES = [0.0, math.pi / 2, math.pi, -math.pi / 2, 2 * math.pi, math.pi / 3,
                  1e-9, -math.pi, 3 * math.pi / 2]


# --------------------------------------------------------------------------- helpers
def simplex(m):
    """m+1 unit vectors of R^m with pairwise inner product -1/m"""
    pts = np.zeros((m + 1, m))
    for i in range(m):
        pts[i, i] = math.sqrt(max(1.0 - float(np.sum(pts[i, :i] ** 2)), 0.0))
        for k in range(i + 1, m + 1):
            pts[k, i] = (-1.0 / m - float(pts[k, :i] @ pts[i, :i])) / pts[i, i]
    return pts


def spacelike_unit(a, d):
    """(sinh a, cosh a * d): unit spacelike normal of a hyperplane at distance |a|"""
    return np.concatenate([[math.sinh(a)], math.cosh(a) * np.asarray(d, dtype=float)])


def tangent_data(k, d, length, ncomp):
    """hyperboloid point over k, unit tangent at it in direction d (transported from the
    origin by the boost), and a raw vector length*u + ncomp*p"""
    p = I.hyperboloid_from_klein(k)
    u = np.concatenate([[0.0], np.asarray(d, dtype=float)]) @ I.boost(k)
    return p, u, length * u + ncomp * p


def nparts(e):
    """decode a spacelike normal: {"a","d","s"} -> s*(sinh a, cosh a d), or {"v"} = raw small
    integers; returns (vector, a, d) with |a| the distance of the hyperplane from the origin"""
    if "v" in e:
        v = np.array(e["v"], dtype=float)
        m = float(v[1:] @ v[1:])
        q = m - v[0] ** 2
        return v, math.asinh(v[0] / math.sqrt(q)), v[1:] / math.sqrt(m)
    return spacelike_unit(e["a"], e["d"]) * e["s"], float(e["a"]), np.array(e["d"], dtype=float)


# ------------------------------------------------------------------- spec strategies
def _rmax(dmax):
    return min(math.tanh(dmax), 0.999)


@st.composite
def sdir(draw, n):
    """unit direction; one in five is a lattice direction (entries in {-1,0,1}) because the
    library's SVD-based frame completion behaves specially on such inputs"""
    if n >= 2 and draw(st.integers(0, 4)) == 0:
        v = [float(draw(st.integers(-1, 1))) for _ in range(n)]
        v[draw(st.integers(0, n - 1))] = float(draw(st.sampled_from([-1, 1])))
        nrm = math.sqrt(sum(x * x for x in v))
        return [x / nrm for x in v]
    return draw(gen.directions(n))


@st.composite
def kpoint(draw, n, rmax):
    """Klein point; one in six has simple rational coordinates"""
    if draw(st.integers(0, 5)) == 0:
        v = [draw(st.sampled_from([0.0, 0.0, 0.5, -0.5, 0.25, -0.25, 0.75, -0.2]))
             for _ in range(n)]
        r = math.sqrt(sum(x * x for x in v))
        if r > rmax:
            v = [x * 0.5 * rmax / r for x in v]
        return v
    return draw(gen.klein_point(n, rmax=rmax))


def kpoints(n, cnt, rmax):
    return st.lists(kpoint(n, rmax), min_size=cnt, max_size=cnt)


@st.composite
def spec_origin_to(draw, n, shape, dmax):
    cnt = gen.prod(shape)
    return dict(ctor="origin_to", n=n, shape=shape,
                pts=draw(kpoints(n, cnt, _rmax(dmax))),
                scales=[draw(gen.scalars_pm(0.2, 5.0)) for _ in range(cnt)],
                fo=draw(st.sampled_from([True, False, None])))


@st.composite
def _tv_fields(draw, n, shape, dmax):
    d = draw(_tv_fields_raw(n, shape, dmax))
    # a very short vector is given as a tangent vector proper: a component along the
    # basepoint 1e7 times its length would leave nothing of its direction after rounding
    d["ncomp"] = [0.0 if ln < 1e-3 else c for c, ln in zip(d["ncomp"], d["lens"])]
    return d


@st.composite
def _tv_fields_raw(draw, n, shape, dmax):
    cnt = gen.prod(shape)
    return dict(pts=draw(kpoints(n, cnt, _rmax(dmax))),
                dirs=[draw(sdir(n)) for _ in range(cnt)],
                # the length of a tangent vector says nothing about its direction: ordinary
                # lengths, and now and then a very short or a very long one
                lens=[draw(st.one_of(fl(0.1, 10.0), fl(0.1, 10.0), fl(0.1, 10.0),
                                     st.sampled_from([1e-7, 3e-9, 1e5]))) for _ in range(cnt)],
                ncomp=[draw(st.one_of(st.just(0.0), fl(-2.0, 2.0))) for _ in range(cnt)],
                scales=[draw(st.one_of(st.just(1.0), gen.scalars_pm(0.2, 5.0)))
                        for _ in range(cnt)])


@st.composite
def spec_tv_origin_to(draw, n, shape, dmax):
    d = dict(ctor="tv_origin_to", n=n, shape=shape,
             fo=draw(st.sampled_from([True, False, None])))
    d["tv"] = draw(_tv_fields(n, shape, dmax))
    return d


@st.composite
def spec_isometry_to(draw, n, shape, dmax):
    return dict(ctor="isometry_to", n=n, shape=shape,
                fo=draw(st.sampled_from([True, False, None])),
                tv=draw(_tv_fields(n, shape, dmax / 2)),
                tv2=draw(_tv_fields(n, shape, dmax / 2)))


@st.composite
def spec_timelike_to(draw, n, shape, dmax):
    cnt = gen.prod(shape)
    return dict(ctor="timelike_to", n=n, shape=shape,
                pts=draw(kpoints(n, cnt, _rmax(dmax))),
                # (a raw vector: any non-zero multiple of it names the same point)
                scales=[draw(gen.scalars_any()) for _ in range(cnt)],
                fo=draw(st.sampled_from([True, False, None])))


@st.composite
def _normals(draw, n, cnt, amax):
    out = []
    for _ in range(cnt):
        if draw(st.integers(0, 5)) == 0:
            # raw small-integer spacelike vector with <v,v> >= |v|^2 / cosh(2 amax)
            vs = [draw(st.integers(-2, 2)) for _ in range(n)]
            vs[draw(st.integers(0, n - 1))] = draw(st.sampled_from([-2, -1, 1, 2]))
            m = sum(x * x for x in vs)
            lim = 1.0 / math.cosh(2 * amax)
            ok = [t for t in range(-3, 4) if (m - t * t) >= lim * (m + t * t) and m > t * t]
            out.append({"v": [draw(st.sampled_from(ok))] + vs})
        else:
            a = draw(fl(-amax, amax)) if draw(st.integers(0, 6)) else 0.0
            out.append({"a": a, "d": draw(sdir(n)), "s": draw(gen.scalars_any())})
    return out


@st.composite
def spec_spacelike_to(draw, n, shape, dmax):
    cnt = gen.prod(shape)
    return dict(ctor="spacelike_to", n=n, shape=shape,
                normals=draw(_normals(n, cnt, min(dmax, 1.8))),
                fo=draw(st.sampled_from([True, False, None])))


@st.composite
def spec_elliptic(draw, n, shape, dmax):
    return dict(ctor="elliptic", n=n, shape=[], O=draw(gen.orthogonal_matrix(n)),
                cv=draw(st.sampled_from([True, False, None])))


@st.composite
def spec_standard_rotation(draw, n, shape, dmax):
    ang = draw(st.one_of(fl(-2 * math.pi, 2 * math.pi), st.sampled_from(SPECIAL_ANGLES)))
    return dict(ctor="standard_rotation", n=n, shape=[], angle=ang,
                default_dim=bool(n == 2 and draw(st.booleans())))


@st.composite
def spec_standard_loxodromic(draw, n, shape, dmax):
    s = draw(st.one_of(fl(-dmax, dmax), st.just(0.0)))
    sign = draw(st.sampled_from([1.0, 1.0, -1.0]))
    return dict(ctor="standard_loxodromic", n=n, shape=[], param=sign * math.exp(s))


@st.composite
def sl2_matrix(draw, dmax):
    """2x2 matrix of determinant +-1 as a product of <= 4 elementary factors"""
    M = np.eye(2)
    for _ in range(draw(st.integers(0, 4))):
        kind = draw(st.integers(0, 4))
        if kind == 0:
            F = np.array([[1.0, draw(fl(-dmax, dmax))], [0.0, 1.0]])
        elif kind == 1:
            F = np.array([[1.0, 0.0], [draw(fl(-dmax, dmax)), 1.0]])
        elif kind == 2:
            s = draw(fl(-dmax / 2, dmax / 2))
            F = np.array([[math.exp(s), 0.0], [0.0, math.exp(-s)]])
        elif kind == 3:
            t = draw(st.one_of(fl(-math.pi, math.pi), st.sampled_from(SPECIAL_ANGLES)))
            F = np.array([[math.cos(t), -math.sin(t)], [math.sin(t), math.cos(t)]])
        else:
            F = np.array(draw(st.sampled_from([[[1.0, 0.0], [0.0, -1.0]],
                                               [[0.0, 1.0], [1.0, 0.0]],
                                               [[-1.0, 0.0], [0.0, -1.0]]])))
        M = M @ F
    return [[float(x) for x in row] for row in M]


@st.composite
def spec_sl2_iso(draw, n, shape, dmax):
    if len(shape) > 1:
        shape = [gen.prod(shape)]
    cnt = gen.prod(shape)
    return dict(ctor="sl2_iso", n=2, shape=shape,
                mats=[draw(sl2_matrix(min(dmax, 2.0))) for _ in range(cnt)],
                as_list=draw(st.booleans()), alias=draw(st.booleans()))


@st.composite
def spec_reflection_across(draw, n, shape, dmax):
    cnt = gen.prod(shape)
    via = draw(st.sampled_from(["hyperplane", "hyperplane", "subspace", "hyperplane_rows"]))
    d = dict(ctor="reflection_across", n=n, shape=shape, via=via,
             rowscale=[draw(st.sampled_from([3.0, 0.5, -2.0, 7.5])) for _ in range(max(cnt, 1))],
             normals=draw(_normals(n, cnt, min(dmax, 1.8))))
    if via == "subspace":
        if cnt and draw(st.integers(0, 3)) == 0:      # a wall through the origin
            d["normals"][0] = {"a": 0.0, "d": draw(sdir(n)), "s": 1.0}
        # ideal basis = (1, 0, simplex vertex rotated by Q) carried by rot(O) . boost
        d["Q"] = [draw(gen.orthogonal_matrix(n - 1)) for _ in range(cnt)]
        d["bscales"] = [[draw(st.one_of(st.just(1.0), fl(0.5, 2.0))) for _ in range(n)]
                        for _ in range(cnt)]
    return d


# ---- Coxeter matrices -------------------------------------------------------------
MIN_EIG = 0.005      # smallest |eigenvalue| of the cosine form admitted (conditioning)
TRI_LABELS = [2, 3, 4, 5, 6, 7, 8, 10, 12, 20, 50, 0, -1]


def _inv_label(m):
    return 0.0 if m <= 0 else 1.0 / m


def tri_matrix(p, q, r):
    return [[1, p, r], [p, 1, q], [r, q, 1]]


def hyperbolic_triples(labels):
    out = []
    for p, q, r in itertools.product(labels, repeat=3):
        if _inv_label(p) + _inv_label(q) + _inv_label(r) < 1.0 - 1e-12:
            out.append((p, q, r))
    return out


def _sym_from_labels(rank, labels):
    M = np.ones((rank, rank), dtype=int)
    for (i, j), l in zip(itertools.combinations(range(rank), 2), labels):
        M[i, j] = M[j, i] = l
    return M


def _lorentzian_mask(mats):
    """rows of a stack of Coxeter matrices whose cosine form has signature (d,1) with
    |eigenvalue| >= 0.005 (harness' own test)"""
    m = np.asarray(mats, dtype=float)
    with np.errstate(all="ignore"):
        B = np.where(m <= 0, -1.0, -np.cos(np.pi / np.where(m <= 0, 1.0, m)))
    ev = np.linalg.eigvalsh(B)
    return ((np.sum(ev < -MIN_EIG, axis=-1) == 1) &
            (np.sum(ev > MIN_EIG, axis=-1) == m.shape[-1] - 1))


@functools.lru_cache(maxsize=None)
def rank4_table():
    """all rank-4 Coxeter matrices with labels in {2,3,4,5,6,inf} of signature (3,1)"""
    labs = [2, 3, 4, 5, 6, 0]
    combos = list(itertools.product(labs, repeat=6))
    mats = np.array([_sym_from_labels(4, c) for c in combos])
    mask = _lorentzian_mask(mats)
    return [combos[i] for i in np.nonzero(mask)[0]]


@functools.lru_cache(maxsize=None)
def rank4_classes():
    """one representative per generator-permutation class of the rank-4 Coxeter matrices
    over {2,3,4,5,inf} with Lorentzian cosine form"""
    pairs = list(itertools.combinations(range(4), 2))
    index = {p: i for i, p in enumerate(pairs)}
    perms = list(itertools.permutations(range(4)))
    out = []
    for lab in rank4_table():
        if 6 in lab:
            continue
        best = min(tuple(lab[index[tuple(sorted((pm[i], pm[j])))]] for (i, j) in pairs)
                   for pm in perms)
        if best == tuple(lab):
            out.append(lab)
    return out


RANK5_FIXED = [(5, 2, 2, 2, 3, 2, 2, 3, 2, 3), (5, 2, 2, 2, 3, 2, 2, 3, 2, 4),
               (5, 2, 2, 2, 3, 2, 2, 3, 2, 5)]      # linear [5,3,3,3], [5,3,3,4], [5,3,3,5]


@functools.lru_cache(maxsize=None)
def rank5_table():
    """a fixed pseudo-random sample of rank-5 Coxeter matrices of signature (4,1)"""
    rng = np.random.RandomState(20260927)
    labs = np.array([2, 2, 2, 3, 3, 4, 5, 0])
    cand = labs[rng.randint(0, len(labs), size=(6000, 10))]
    mats = np.array([_sym_from_labels(5, c) for c in cand])
    mask = _lorentzian_mask(mats)
    out = [tuple(int(x) for x in cand[i]) for i in np.nonzero(mask)[0]][:400]
    return [t for t in RANK5_FIXED if _lorentzian_mask([_sym_from_labels(5, t)])[0]] + out


@st.composite
def spec_coxeter(draw, n, shape, dmax, maxword=8):
    rank = n + 1
    if rank == 3:
        while True:
            p = draw(st.sampled_from(TRI_LABELS))
            q = draw(st.sampled_from(TRI_LABELS))
            allowed = [r for r in TRI_LABELS
                       if _inv_label(p) + _inv_label(q) + _inv_label(r) < 1.0 - 1e-12]
            if allowed:
                break
        r = draw(st.sampled_from(allowed))
        cox = tri_matrix(p, q, r)
        via = draw(st.sampled_from(["triangle", "matrix", "diagram"]))
    else:
        table = rank4_table() if rank == 4 else rank5_table()
        labels = table[draw(st.integers(0, len(table) - 1))]
        cox = _sym_from_labels(rank, labels).tolist()
        via = draw(st.sampled_from(["matrix", "matrix", "diagram"]))
    word = draw(st.lists(st.integers(0, rank - 1), min_size=0, max_size=maxword))
    return dict(ctor="coxeter_hyperbolic_rep", n=n, shape=[], cox=cox, via=via,
                style=draw(st.sampled_from(["alpha", "alphanum"])), word=word,
                automaton=draw(st.booleans()), prior_cartan=draw(st.booleans()),
                dorder=draw(st.sampled_from([0] + list(range(1, 64)))),
                extra_words=draw(st.lists(st.lists(st.integers(0, rank - 1), max_size=4),
                                          min_size=1, max_size=3)))


SPEC = {"origin_to": spec_origin_to, "tv_origin_to": spec_tv_origin_to,
        "isometry_to": spec_isometry_to, "timelike_to": spec_timelike_to,
        "spacelike_to": spec_spacelike_to, "elliptic": spec_elliptic,
        "standard_rotation": spec_standard_rotation,
        "standard_loxodromic": spec_standard_loxodromic, "sl2_iso": spec_sl2_iso,
        "reflection_across": spec_reflection_across, "coxeter_hyperbolic_rep": spec_coxeter}
DIMS = {"origin_to": (1, 5), "tv_origin_to": (1, 5), "isometry_to": (1, 5),
        "timelike_to": (1, 5), "spacelike_to": (1, 5), "elliptic": (1, 5),
        "standard_rotation": (2, 5), "standard_loxodromic": (1, 5), "sl2_iso": (2, 2),
        "reflection_across": (2, 5), "coxeter_hyperbolic_rep": (2, 4)}
COMPOSITE = {"origin_to", "tv_origin_to", "isometry_to", "timelike_to", "spacelike_to",
             "sl2_iso", "reflection_across"}


def ctors_for(n):
    return [c for c in CTORS if DIMS[c][0] <= n <= DIMS[c][1]]


@st.composite
def testpoints(draw, n, rmax=0.999, amax=1.8):
    return dict(int=draw(gen.klein_points(n, 3, rmax=rmax)),
                int_scales=[draw(st.one_of(st.just(1.0), gen.scalars_pm(0.2, 5.0)))
                            for _ in range(3)],
                ideal=[[draw(gen.directions(n)), draw(gen.scalars_pm(0.2, 5.0))]
                       for _ in range(2)],
                ext=draw(_normals(n, 2, amax)))


@st.composite
def ctor_case(draw, ctor, dmax=3.8, rmax=0.999, amax=1.8):
    lo, hi = DIMS[ctor]
    n = draw(st.integers(lo, hi))
    shape = draw(st.sampled_from(SHAPES)) if ctor in COMPOSITE else []
    return dict(spec=draw(SPEC[ctor](n, shape, dmax)), pts=draw(testpoints(n, rmax, amax)))


@st.composite
def far_case(draw):
    """basepoints far from the origin (hyperbolic distance 4..14, i.e. Klein radius up to
    1 - 1e-12), given directly in hyperboloid-type coordinates so that the input itself is
    well conditioned"""
    n = draw(st.integers(1, 4))
    shape = draw(st.sampled_from([[], [], [2], [1, 2]]))
    cnt = gen.prod(shape)
    return dict(n=n, shape=shape, kind=draw(st.sampled_from(["origin_to", "timelike_to",
                                                              "tv_origin_to"])),
                t=[draw(fl(4.0, 14.0)) for _ in range(cnt)],
                u=[draw(sdir(n)) for _ in range(cnt)],
                w=[draw(sdir(n + 1)) for _ in range(cnt)],
                scales=[draw(gen.scalars_pm(0.2, 5.0)) for _ in range(cnt)],
                fo=draw(st.sampled_from([True, False, None])))


def body_far(case, ctx):
    n, shape = case["n"], tuple(case["shape"])
    t = np.array(case["t"]).reshape(shape)
    u = np.array(case["u"], dtype=float).reshape(shape + (n,))
    H = np.concatenate([np.cosh(t)[..., None], np.sinh(t)[..., None] * u], axis=-1)
    sc = np.array(case["scales"]).reshape(shape)
    X = H * (np.abs(sc) if case["kind"] == "tv_origin_to" else sc)[..., None]
    ctx.label("far", "kind=" + case["kind"], "n=%d" % n, "rank=%d" % len(shape), "non-identity",
              "n>=2" if n >= 2 else "")
    kw = _fo_kwargs(case["fo"])
    if case["kind"] == "origin_to":
        T = Point(X.copy()).origin_to(**kw)
    elif case["kind"] == "timelike_to":
        T = hyperbolic.timelike_to(X.copy()[..., None, :] if shape else X.copy(), **kw)
    else:
        W = np.array(case["w"], dtype=float).reshape(shape + (n + 1,))
        # an ambient vector with a sizeable tangential part at H
        tv = hyperbolic.TangentVector(Point(X.copy()), W * np.cosh(t)[..., None])
        T = tv.origin_to(**kw)
    M = np.asarray(T.matrix)
    ctx.check(M.shape == shape + (n + 1, n + 1), "shape", got=M.shape)
    ctx.check(np.all(np.isfinite(M)), "finite")
    J = np.diag([-1.0] + [1.0] * n)
    fro = np.sum(M * M, axis=(-1, -2))
    ctx.small("far basepoint: M J M^T = J relative to |M|^2",
              (M @ J @ np.swapaxes(M, -1, -2) - J) / (1e-9 * fro[..., None, None]), 1.0)
    from ..num import proj_dist
    ctx.small("far basepoint: the origin is sent to the point", proj_dist(M[..., 0, :], H), 1e-9)
    if case["fo"] is not False:
        ctx.check(np.all(np.linalg.slogdet(M)[0] > 0) if case["fo"] else True,
                  "force_oriented gives positive determinant")


@st.composite
def rep_case(draw):
    n = draw(st.integers(2, 4))
    perm = draw(st.permutations(list(range(n))))
    signs = [draw(st.sampled_from([1, -1])) for _ in range(n)]
    return dict(n=n, pt=draw(kpoint(n, 0.9)), perm=list(perm), signs=signs,
                angle=draw(st.one_of(fl(-3.0, 3.0), st.sampled_from([1.0, 2.0, -1.0]))),
                angle_as=draw(st.sampled_from(["float", "npint", "int", "np64"])),
                order=draw(st.sampled_from(["float-first", "int-first", "int-last", "int-last"])),
                words=[draw(st.lists(st.sampled_from(["a", "b", "A", "B", "c", "C"]),
                                     min_size=1, max_size=7)) for _ in range(3)],
                eps=[draw(fl(-1.0, 1.0)) for _ in range((n + 1) ** 2)])


def body_rep(case, ctx):
    """isometries coming out of a HyperbolicRepresentation (words in generators of mixed
    dtype: a float translation, a signed permutation given as an INTEGER array, a rotation
    whose angle may be an integer) preserve the form and are the products of the generators;
    HyperbolicRepresentation.normalize brings a slightly perturbed isometry back into
    O(n,1)"""
    n = case["n"]
    N = n + 1
    J = np.diag([-1.0] + [1.0] * n)
    ctx.label("n=%d" % n, "n>=2", "non-identity", "order=" + case["order"],
              "angle_as=" + case["angle_as"])
    T = Point(np.array(case["pt"]), model="klein").origin_to()
    blk = np.zeros((n, n), dtype=np.int64)
    for i, (pj, sg) in enumerate(zip(case["perm"], case["signs"])):
        blk[i, pj] = sg
    E = Isometry.elliptic(n, blk.copy())
    ang = case["angle"]
    if case["angle_as"] in ("npint", "int") and float(ang) != int(ang):
        ang = float(int(ang)) if abs(ang) >= 1 else 1.0
    pk = {"float": float(ang), "np64": np.float64(ang),
          "npint": np.int64(int(ang)) if float(ang) == int(ang) else float(ang),
          "int": int(ang) if float(ang) == int(ang) else float(ang)}[case["angle_as"]]
    R = Isometry.standard_rotation(pk, dimension=n)
    Rm = np.eye(N)
    Rm[1:3, 1:3] = [[math.cos(ang), -math.sin(ang)], [math.sin(ang), math.cos(ang)]]
    ctx.close("standard_rotation (column matrix) for this packaging of the angle",
              np.asarray(R.matrix, dtype=float).T, Rm, rtol=0, atol=1e-12)
    rep = hyperbolic.HyperbolicRepresentation()
    gens = {"float-first": [("a", T), ("b", E), ("c", R)], "int-first": [("b", E), ("a", T), ("c", R)],
            "int-last": [("a", T), ("c", R), ("b", E)]}[case["order"]]
    for nm, g in gens:          # (the generator assigned last decides rep.dtype)
        rep[nm] = g
    col = {"a": np.asarray(T.matrix, dtype=float).T, "b": np.asarray(E.matrix, dtype=float).T,
           "c": Rm}
    for k_ in list(col):
        col[k_.upper()] = np.linalg.inv(col[k_])
    for w in case["words"]:
        W = np.eye(N)
        for g in w:
            W = W @ col[g]
        got = np.asarray(rep["".join(w)].matrix, dtype=float).T
        sc = max(1.0, float(np.sum(W * W)))
        ctx.close("rep[w] is the product of the generator matrices", got, W, rtol=0,
                  atol=1e-9 * sc, word="".join(w))
        ctx.small("rep[w] preserves the Minkowski form", (got.T @ J @ got - J) / (1e-9 * sc), 1.0,
                  word="".join(w))
    ws = ["".join(w) for w in case["words"]]
    comp = np.asarray(rep.isometries(ws).matrix, dtype=float)
    for i, w in enumerate(case["words"]):
        M = comp[i]
        sc = max(1.0, float(np.sum(M * M)))
        ctx.small("rep.isometries(words)[i] preserves the form", (M @ J @ M.T - J) / (1e-9 * sc),
                  1.0, word=ws[i])
    # normalize: a rounded / perturbed isometry (row matrix) back into O(n,1)
    M0 = np.asarray(T.matrix, dtype=float) @ np.asarray(E.matrix, dtype=float)
    P = M0 + 1e-4 * np.array(case["eps"]).reshape(N, N) * np.abs(M0).max()
    Mn = np.asarray(rep.normalize(P.copy()), dtype=float)
    sc = max(1.0, float(np.sum(M0 * M0)))
    ctx.small("normalize(perturbed isometry) preserves the form", (Mn @ J @ Mn.T - J) /
              (1e-9 * sc), 1.0)
    ctx.small("normalize(perturbed isometry) stays close to it", (Mn - M0) / (1e-2 * sc), 1.0)


# --------------------------------------------------------------------------- builders
def _fo_kwargs(fo):
    return {} if fo is None else {"force_oriented": fo}


def _points_array(spec, n, shape):
    K = np.array(spec["pts"], dtype=float).reshape(tuple(shape) + (n,))
    X = np.concatenate([np.ones(K.shape[:-1] + (1,)), K], axis=-1)
    S = np.array(spec["scales"], dtype=float).reshape(tuple(shape))
    return K, X * S[..., None]


def build_tv(f, n, shape):
    """TangentVector from the fields drawn by _tv_fields; returns (tv, P_h, U, V) with the
    harness' unit hyperboloid basepoints P_h, unit tangents U and raw vectors V"""
    cnt = gen.prod(shape)
    P, U, V = [], [], []
    for i in range(cnt):
        p, u, v = tangent_data(f["pts"][i], f["dirs"][i], f["lens"][i], f["ncomp"][i])
        P.append(p)
        U.append(u)
        V.append(v)
    sh = tuple(shape)
    P = np.array(P).reshape(sh + (n + 1,))
    U = np.array(U).reshape(sh + (n + 1,))
    V = np.array(V).reshape(sh + (n + 1,))
    S = np.array(f["scales"], dtype=float).reshape(sh)
    tv = TangentVector(Point((P * S[..., None]).copy()), V.copy())
    return tv, P, U, V


def _normal_array(normals, n, shape, composite_layout=True):
    V = np.array([nparts(e)[0] for e in normals])
    V = V.reshape(tuple(shape) + (n + 1,))
    if len(shape) and composite_layout:
        V = V[..., None, :]
    return V


def ideal_basis_of(spec, n, shape):
    """harness-built ideal bases (n null vectors each) of the hyperplanes with the spec's
    normals; returns array shape+(n, n+1) and the worst condition number"""
    cnt = gen.prod(shape)
    S = simplex(n - 1) if n >= 2 else None
    out, worst = [], 1.0
    for i in range(cnt):
        _, a, d = nparts(spec["normals"][i])
        Q = np.array(spec["Q"][i], dtype=float).reshape(n - 1, n - 1)
        W = S @ Q                                        # n unit vectors of R^(n-1)
        base = np.concatenate([np.ones((n, 1)), np.zeros((n, 1)), W], axis=1)
        # rotate e1 to d (any orthogonal matrix with first row d), then translate by a
        # along d: the normal e1 goes to (sinh a, cosh a d)
        R = _rotation_with_first_row(d)
        k = math.tanh(a) * np.asarray(d, dtype=float)
        g = I.frame_isometry(k, R)
        ib = (base @ g) * np.array(spec["bscales"][i], dtype=float)[:, None]
        out.append(ib)
        sv = np.linalg.svd(ib, compute_uv=False)
        worst = max(worst, float(sv[0] / sv[-1]))
    return np.array(out).reshape(tuple(shape) + (n, n + 1)), worst


def _rotation_with_first_row(d):
    """an orthogonal matrix whose first row is the unit vector d (Householder)"""
    d = np.asarray(d, dtype=float)
    n = len(d)
    e = np.zeros(n)
    e[0] = 1.0
    w = e - d
    nw = float(w @ w)
    if nw < 1e-30:
        return np.eye(n)
    Hh = np.eye(n) - 2.0 * np.outer(w, w) / nw           # symmetric, maps e -> d
    return Hh


def cox_names(rank, style):
    if style == "alphanum":
        return ["s%d" % i for i in range(rank)]
    return [chr(ord("a") + i) for i in range(rank)]


def build_coxeter(spec):
    cox = np.array(spec["cox"], dtype=int)
    rank = cox.shape[0]
    via = spec["via"]
    if via == "triangle":
        G = coxeter.TriangleGroup((int(cox[0, 1]), int(cox[1, 2]), int(cox[2, 0])))
        names = ["a", "b", "c"]
    elif via == "diagram":
        names = cox_names(rank, "alpha")
        diagram = [(names[i], names[j], int(cox[i, j]))
                   for i in range(rank) for j in range(i + 1, rank)]
        # the edges of a diagram come in no particular order, nor do the two ends of an edge
        k = int(spec.get("dorder", 0))
        if k:
            diagram = diagram[k % len(diagram):] + diagram[:k % len(diagram)]
            if k % 2:
                diagram = diagram[::-1]
            diagram = [(b, a, m) if (k >> (2 + i)) & 1 else (a, b, m)
                       for i, (a, b, m) in enumerate(diagram)]
        G = coxeter.CoxeterGroup(diagram=diagram)
    else:
        names = cox_names(rank, spec["style"])
        G = coxeter.CoxeterGroup(matrix=cox.copy(), generator_style=spec["style"])
    return G, names


class Built:
    """a built isometry with what the harness knows about it"""

    def __init__(self, T, n, shape, ctor, cond=1.0, det_positive=False, labels=(),
                 extras=()):
        self.T, self.n, self.shape, self.ctor = T, n, tuple(shape), ctor
        self.cond, self.det_positive = cond, det_positive
        self.labels = list(labels)
        self.extras = list(extras)        # further isometries [(name, T, shape)]
        self.excluded = None


def build(spec):
    ctor, n, shape = spec["ctor"], spec["n"], spec["shape"]
    lab = ["ctor=" + ctor, "n=%d" % n, "rank=%d" % len(shape)]
    if ctor == "origin_to":
        _, X = _points_array(spec, n, shape)
        if min(spec["scales"], default=1.0) < 0:
            lab.append("negative-representative")
        T = Point(X.copy()).origin_to(**_fo_kwargs(spec["fo"]))
        return Built(T, n, shape, ctor, det_positive=spec["fo"] in (True, None),
                     labels=lab + ["fo=%s" % spec["fo"]])
    if ctor == "tv_origin_to":
        tv, _, _, _ = build_tv(spec["tv"], n, shape)
        T = tv.origin_to(**_fo_kwargs(spec["fo"]))
        return Built(T, n, shape, ctor, det_positive=spec["fo"] in (True, None),
                     labels=lab + ["fo=%s" % spec["fo"]])
    if ctor == "isometry_to":
        tv1, _, _, _ = build_tv(spec["tv"], n, shape)
        tv2, _, _, _ = build_tv(spec["tv2"], n, shape)
        T = tv1.isometry_to(tv2, **_fo_kwargs(spec["fo"]))
        return Built(T, n, shape, ctor, det_positive=spec["fo"] in (True, None),
                     labels=lab + ["fo=%s" % spec["fo"]])
    if ctor == "timelike_to":
        _, X = _points_array(spec, n, shape)
        if len(shape):
            X = X[..., None, :]
        T = hyperbolic.timelike_to(X.copy(), **_fo_kwargs(spec["fo"]))
        return Built(T, n, shape, ctor, det_positive=spec["fo"] is True,
                     labels=lab + ["fo=%s" % spec["fo"]])
    if ctor == "spacelike_to":
        V = _normal_array(spec["normals"], n, shape)
        T = hyperbolic.spacelike_to(V.copy(), **_fo_kwargs(spec["fo"]))
        return Built(T, n, shape, ctor, det_positive=spec["fo"] is True,
                     labels=lab + ["fo=%s" % spec["fo"]])
    if ctor == "elliptic":
        O = np.array(spec["O"], dtype=float).reshape(n, n)
        kw = {} if spec["cv"] is None else {"column_vectors": spec["cv"]}
        T = Isometry.elliptic(n, O.copy(), **kw)
        # the block must sit in the matrix as given (row or column convention)
        want = O if spec["cv"] is False else O.T
        ex = float(np.max(np.abs(np.asarray(T.matrix, dtype=float)[1:, 1:] - want)))
        b = Built(T, n, shape, ctor, labels=lab + ["cv=%s" % spec["cv"],
                                                   "det=%+d" % round(np.linalg.det(O))])
        b.block_error = ex
        return b
    if ctor == "standard_rotation":
        if spec.get("default_dim"):
            T = Isometry.standard_rotation(spec["angle"])
        else:
            T = Isometry.standard_rotation(spec["angle"], dimension=n)
        return Built(T, n, shape, ctor, labels=lab + (
            ["special-angle"] if spec["angle"] in SPECIAL_ANGLES else []))
    if ctor == "standard_loxodromic":
        T = Isometry.standard_loxodromic(n, spec["param"])
        return Built(T, n, shape, ctor, labels=lab + (
            ["negative-parameter"] if spec["param"] < 0 else []))
    if ctor == "sl2_iso":
        A = np.array(spec["mats"], dtype=float).reshape(tuple(shape) + (2, 2))
        arg = A.tolist() if spec["as_list"] else A.copy()
        dets = np.linalg.det(A)
        if tuple(shape) == () and (spec["as_list"] or (np.any(dets < 0) and spec["alias"])):
            # the same image reached through a representation: compose with the wrapped
            # homomorphism, wrap the result as a hyperbolic representation, ask for the word
            from geometry_tools import representation as _R, lie as _lie
            r0 = _R.Representation()
            r0["a"] = A.copy()
            hr = hyperbolic.HyperbolicRepresentation(r0.compose(_lie.hom.sl2_to_so21()))
            T = hr["a"]
            lab.append("via=compose(lie.hom.sl2_to_so21)")
        else:
            T = Isometry.from_sl2(arg) if spec["alias"] else hyperbolic.sl2_iso(arg)
        return Built(T, 2, shape, ctor, labels=lab + (
            ["det=-1"] if np.any(dets < 0) else []) + (["list-arg"] if spec["as_list"] else []))
    if ctor == "reflection_across":
        lab.append("via=" + spec["via"])
        # (the caller has its own copy of the Minkowski form and has been editing it)
        mine = hyperbolic.minkowski(n + 1)
        mine[0, 0] = 1.0
        mine[-1, -1] = -3.0
        if spec["via"] in ("hyperplane", "hyperplane_rows"):
            V = _normal_array(spec["normals"], n, shape)
            Hp = Hyperplane(V.copy())
            if spec["via"] == "hyperplane_rows":
                # the same walls given by their full stored rows (normal + ideal basis),
                # rescaled wall by wall: explicit hyperplane data whose normal is not a unit
                # vector
                k = np.array(spec.get("rowscale", [3.0])[:max(gen.prod(shape), 1)],
                             dtype=float).reshape(tuple(shape) + (1, 1))
                Hp = Hyperplane(np.array(Hp.proj_data) * k)
            T = Hp.reflection_across()
            worst = max(math.cosh(2 * nparts(e)[1]) for e in spec["normals"])
            return Built(T, n, shape, ctor, cond=worst, labels=lab)
        ib, worst = ideal_basis_of(spec, n, shape)
        if any(abs(nparts(e)[1]) < 1e-15 for e in spec["normals"]):
            lab.append("subspace-through-origin")
        T = Subspace(ib.copy()).reflection_across()
        return Built(T, n, shape, ctor, cond=worst, labels=lab)
    if ctor == "coxeter_hyperbolic_rep":
        cox = np.array(spec["cox"], dtype=int)
        rank = cox.shape[0]
        pos, neg, zero, mineig = I.signature(I.cosine_form(cox))
        if (pos, neg, zero) != (rank - 1, 1, 0) or mineig < MIN_EIG:
            raise HarnessError("Coxeter matrix outside the domain: signature %r"
                               % ((pos, neg, zero, mineig),))
        G, names = build_coxeter(spec)
        if spec.get("prior_cartan") and np.any(np.array(G.coxeter_matrix) <= 0):
            # the same group object has already produced a Cartan matrix / Tits-Vinberg
            # representation with free (non-symmetric) parameters on its infinite bonds
            lab.append("group-object-used-before")
            lm = np.array(G.coxeter_matrix)
            params = {}
            for (i, j) in zip(*np.nonzero(lm <= 0)):
                if i < j:
                    params[(int(i), int(j))] = -4.0
                    params[(int(j), int(i))] = -1.5
            G.cartan_matrix(params)
            G.tits_vinberg_rep(params)
        rep = G.hyperbolic_rep()
        # the word in the generators - every other letter written as the inverse letter (a
        # reflection is its own inverse, and the representation knows both names)
        word = [names[i] if k % 3 else names[i].upper() for k, i in enumerate(spec["word"])]
        if any(x != x.lower() for x in word):
            lab.append("word-with-inverse-letters")
        simple = all(len(x) == 1 for x in names)
        if simple and len(word) % 2 == 0:
            T = rep["".join(word)]
        else:
            T = rep[word]
        extras = [("generator " + g, rep[g] if simple else rep[[g]], ()) for g in names]
        ws = [[names[i] for i in w] for w in spec.get("extra_words", [])]
        if ws:
            arg = ["".join(w) for w in ws] if simple else ws
            extras.append(("rep.isometries(words)", rep.isometries(arg), (len(ws),)))
        if spec.get("automaton") and rank <= 4:
            # the group's isometries enumerated through its automaton - after another
            # representation of the same group has been enumerated the same way (what that
            # call computed belongs to that representation)
            aut = G.automaton()
            # (multi-character generator names: edge labels are generators, not words)
            G.geometric_representation().automaton_accepted(aut, 2, edge_words=simple)
            if simple:      # (freely_reduced_elements reads names character by character)
                G.canonical_representation().freely_reduced_elements(1)
            acc = rep.automaton_accepted(aut, 2, edge_words=simple)
            extras.append(("rep.automaton_accepted(automaton, 2)", acc, tuple(acc.shape)))
            if simple:
                fr = rep.freely_reduced_elements(2)
                extras.append(("rep.freely_reduced_elements(2)", fr, tuple(fr.shape)))
            lab.append("via-automaton")
        lab += ["via=" + spec["via"], "rank=%d" % rank, "wordlen=%d" % len(word)]
        if np.any(cox <= 0):
            lab.append("has-infinity")
        return Built(T, n, shape, ctor, cond=1.0 / mineig, labels=lab, extras=extras)
    raise HarnessError("unknown constructor %r" % ctor)


# ---------------------------------------------------------------------------- checks
def test_vectors(pts, n):
    K = np.array(pts["int"], dtype=float).reshape(3, n)
    XI = np.concatenate([np.ones((3, 1)), K], axis=1) * np.array(pts["int_scales"])[:, None]
    XN = np.array([np.concatenate([[1.0], d]) * s for (d, s) in pts["ideal"]])
    XE = np.array([nparts(e)[0] for e in pts["ext"]])
    return XI, XN, XE


def check_isometry(ctx, T, n, shape, pts, name, cond=1.0, det_positive=False):
    """everything C02 says about one (possibly composite) isometry; returns its matrix"""
    shape = tuple(shape)
    M = np.asarray(T.matrix)
    ctx.check(M.shape == shape + (n + 1, n + 1), name + ": matrix shape", got=M.shape,
              want=shape + (n + 1, n + 1))
    M = M.astype(float)
    ctx.check(np.all(np.isfinite(M)), name + ": matrix is finite", M=M)
    nrm = np.maximum(I.opnorm(M), 1.0)
    g = float(np.max(nrm))
    ctx.small(name + ": M J M^T - J relative to |M|^2",
              I.form_residual(M) / (1e-9 * cond * nrm ** 2), 1.0, M=M)
    # the inverse is again an isometry, and is the closed form J M^T J
    Minv = np.asarray(T.inv().matrix).astype(float)
    ctx.check(Minv.shape == M.shape, name + ": inverse shape", got=Minv.shape)
    ctx.small(name + ": inv() vs J M^T J", (Minv - I.o_n1_inverse(M)) /
              (1e-8 * cond * nrm[..., None, None] ** 2), 1.0, M=M, Minv=Minv)
    ctx.small(name + ": inverse preserves the form",
              I.form_residual(Minv) / (1e-8 * cond * nrm ** 2), 1.0)
    # singular values of an element of O(n,1) are e^d, e^-d, 1..1 with cosh d = |M_00|
    m00 = np.abs(M[..., 0, 0])
    ctx.small(name + ": |M|_2 = |M00| + sqrt(M00^2 - 1)",
              (I.opnorm(M) - (m00 + np.sqrt(np.maximum(m00 ** 2 - 1.0, 0.0)))) /
              (1e-6 * cond * nrm ** 2), 1.0, M=M)
    if det_positive:
        det = np.linalg.det(M)
        ctx.check(np.all(det > 0.5), name + ": force_oriented gives det > 0", det=det)
    if float(np.max(np.abs(M - np.eye(n + 1)))) > 1e-9:
        ctx.label("non-identity")
    if g > 1e3:
        ctx.label("norm>1e3")
    XI, XN, XE = test_vectors(pts, n)
    # images through the library
    YI = [np.asarray((T @ Point(x.copy())).proj_data, dtype=float) for x in XI]
    YN = [np.asarray((T @ Point(x.copy())).proj_data, dtype=float) for x in XN]
    YE = [np.asarray((T @ DualPoint(x.copy())).proj_data, dtype=float) for x in XE]
    for xs, ys, kind in ((XI, YI, "interior"), (XN, YN, "ideal"), (XE, YE, "exterior")):
        for x, y in zip(xs, ys):
            ctx.check(y.shape == shape + (n + 1,), name + ": image shape", got=y.shape)
            # documented row action
            ctx.small(name + ": image is x M", (y - x @ M) /
                      (1e-9 * nrm[..., None] * np.linalg.norm(x)), 1.0)
            q0 = float(mink(x, x))
            q1 = mink(y, y)
            tol = 1e-9 * cond * nrm ** 2 * float(x @ x)
            ctx.small(name + ": <Tx,Tx> = <x,x> (%s)" % kind, (q1 - q0) / tol, 1.0,
                      x=x, y=y)
            if kind == "interior":
                ctx.check(np.all(q1 < 0) or np.any(np.abs(q0) <= 2 * tol),
                          name + ": interior stays interior", x=x, y=y)
            elif kind == "exterior":
                ctx.check(np.all(q1 > 0) or np.any(np.abs(q0) <= 2 * tol),
                          name + ": exterior stays exterior", x=x, y=y)
    # distances between the interior points, harness metric on both sides
    for i in range(3):
        for j in range(i + 1, 3):
            a, b = I.to_hyperboloid(XI[i]), I.to_hyperboloid(XI[j])
            d0 = I.dist_h(a, b)
            tol = I.dist_tol(a, b, d0, eps=1e-12, growth=cond * nrm ** 2)
            if np.any(tol > 0.05):
                ctx.label("distance-check-loose")
            d1 = I.dist_proj(YI[i], YI[j])
            ctx.small(name + ": d(Tp,Tq) = d(p,q)", (d1 - d0) / tol, 1.0, d0=d0, d1=d1,
                      p=XI[i], q=XI[j])
    return M


def body_ctor(case, ctx):
    spec, pts = case["spec"], case["pts"]
    b = build(spec)
    ctx.label(*b.labels)
    if b.n >= 2:
        ctx.label("n>=2")
    if b.excluded is not None:
        if pending(b.excluded) or ctx.known(b.excluded):
            ctx.exclude(b.excluded)
            return
        T = Subspace(b.payload.copy()).reflection_across()
        b.T = T
    name = spec["ctor"]
    M = check_isometry(ctx, b.T, b.n, b.shape, pts, name, cond=b.cond,
                       det_positive=b.det_positive)
    if name == "elliptic":
        ctx.small("elliptic: block placed as given", b.block_error, 1e-12)
        ctx.small("elliptic: fixes the origin", M[0, 1:], 1e-12)
    if name == "reflection_across":
        # docstring: "reflecting across this hyperplane": the normal is negated, the
        # hyperplane fixed pointwise
        V = _normal_array(spec["normals"], b.n, b.shape, composite_layout=False)
        img = np.einsum("...i,...ij->...j", V, M)
        nv = np.linalg.norm(V, axis=-1)
        ctx.small("reflection: normal is negated", (img + V) /
                  (1e-8 * b.cond * nv[..., None]), 1.0)
        ctx.small("reflection: is an involution", (M @ M - np.eye(b.n + 1)) /
                  (1e-8 * b.cond), 1.0)
    for (nm, T, sh) in b.extras:
        check_isometry(ctx, T, b.n, sh, pts, nm, cond=b.cond)
        ctx.label("extra-isometries")


def nt_ctor(labels):
    return "non-identity" in labels and "n>=2" in labels


# --------------------------------------------------------------------------- programs
@st.composite
def program_case(draw):
    n = draw(st.integers(1, 5))
    shape = draw(st.sampled_from([[], [], [], [2], [3], [1, 2]]))
    names = ctors_for(n)
    pool = []
    for _ in range(draw(st.integers(2, 3))):
        c = draw(st.sampled_from(names))
        sh = shape if c in COMPOSITE else []
        if c == "coxeter_hyperbolic_rep":
            pool.append(draw(spec_coxeter(n, [], 0.8, maxword=3)))
        else:
            pool.append(draw(SPEC[c](n, sh, 0.8)))
    L = draw(st.integers(0, 8))
    prog = [[draw(st.integers(0, 4)), draw(st.integers(0, 2))] for _ in range(L)]
    return dict(n=n, pool=pool, start=draw(st.integers(0, 2)), prog=prog,
                pts=draw(testpoints(n, rmax=math.tanh(2.0), amax=1.5)))


def body_program(case, ctx):
    n = case["n"]
    pool = []
    for spec in case["pool"]:
        b = build(spec)
        if b.excluded is not None:
            if pending(b.excluded) or ctx.known(b.excluded):
                ctx.label("excluded-pool-element")
                ctx.exclude(b.excluded)
                return
            b.T = Subspace(b.payload.copy()).reflection_across()
        pool.append(b)
        ctx.label("pool:" + spec["ctor"])
    cond = max(b.cond for b in pool)
    mats = []
    for b in pool:
        M = np.asarray(b.T.matrix).astype(float)
        nrm = np.maximum(I.opnorm(M), 1.0)
        ctx.small("pool element preserves the form",
                  I.form_residual(M) / (1e-9 * b.cond * nrm ** 2), 1.0, ctor=b.ctor)
        mats.append(M)
    k = len(pool)
    s = case["start"] % k
    acc, model = pool[s].T, mats[s]
    growth = float(np.max(I.opnorm(model)))
    shape = pool[s].shape
    ninv = 0
    for step, (op, i) in enumerate(case["prog"]):
        i = i % k
        X, MX = pool[i].T, mats[i]
        if op == 0:                       # acc @ X : apply X first  -> rows: MX . model
            acc, model = acc @ X, MX @ model
        elif op == 1:
            acc, model = X @ acc, model @ MX
        elif op == 2:
            acc, model = acc.inv(), I.o_n1_inverse(model)
            ninv += 1
        elif op == 3:
            acc, model = acc @ X.inv(), I.o_n1_inverse(MX) @ model
            ninv += 1
        else:
            acc, model = X.inv() @ acc, model @ I.o_n1_inverse(MX)
            ninv += 1
        if op != 2:
            growth *= float(np.max(I.opnorm(MX)))
            shape = np.broadcast_shapes(shape, pool[i].shape)
        got = np.asarray(acc.matrix).astype(float)
        ctx.check(got.shape == model.shape, "program: shape after step %d" % step,
                  got=got.shape, want=model.shape)
        ctx.check(isinstance(acc, Isometry), "program: result is an Isometry",
                  got=type(acc).__name__)
        ctx.small("program: library result vs numpy model of the history",
                  (got - model) / (1e-8 * cond * max(growth, 1.0) ** 2), 1.0, step=step,
                  op=op, got=got, model=model)
    L = len(case["prog"])
    ctx.label("n=%d" % n, "steps=%d" % L, "rank=%d" % len(shape))
    if L >= 2:
        ctx.label("steps>=2")
    if ninv:
        ctx.label("has-inverse")
    if n >= 2:
        ctx.label("n>=2")
    check_isometry(ctx, acc, n, shape, case["pts"], "program", cond=cond)


def nt_program(labels):
    return "steps>=2" in labels or ("non-identity" in labels and "n>=2" in labels)


# ------------------------------------------------------------------ causal character
@st.composite
def causal_case(draw):
    """any constructor, moderate translation length, test vectors close to the light cone"""
    n = draw(st.integers(1, 5))
    c = draw(st.sampled_from(ctors_for(n)))
    shape = draw(st.sampled_from(SHAPES)) if c in COMPOSITE else []
    if c == "coxeter_hyperbolic_rep":
        spec = draw(spec_coxeter(n, [], 2.0, maxword=4))
    else:
        spec = draw(SPEC[c](n, shape, 2.0))
    K = [draw(gen.klein_point(n, rmax=0.9999, rmin=0.99, special=False)) for _ in range(3)]
    pts = dict(int=K, int_scales=[draw(gen.scalars_pm(0.2, 5.0)) for _ in range(3)],
               ideal=[[draw(gen.directions(n)), draw(gen.scalars_pm(0.2, 5.0))]
                      for _ in range(2)],
               ext=[dict(a=draw(st.sampled_from([-1.0, 1.0])) * draw(fl(2.0, 3.0)),
                         d=draw(gen.directions(n)), s=draw(gen.scalars_pm(0.2, 5.0)))
                    for _ in range(2)])
    return dict(spec=spec, pts=pts)


def body_causal(case, ctx):
    spec, pts = case["spec"], case["pts"]
    b = build(spec)
    ctx.label(*b.labels)
    ctx.label("near-light-cone")
    if b.n >= 2:
        ctx.label("n>=2")
    if b.excluded is not None:
        if pending(b.excluded) or ctx.known(b.excluded):
            ctx.exclude(b.excluded)
            return
        b.T = Subspace(b.payload.copy()).reflection_across()
    n, shape = b.n, b.shape
    M = np.asarray(b.T.matrix).astype(float)
    nrm = np.maximum(I.opnorm(M), 1.0)
    if float(np.max(np.abs(M - np.eye(n + 1)))) > 1e-9:
        ctx.label("non-identity")
    XI, XN, XE = test_vectors(pts, n)
    for xs, kind, cls in ((XI, "interior", Point), (XN, "ideal", hyperbolic.IdealPoint),
                          (XE, "exterior", DualPoint)):
        # the whole family in one composite object, every isometry applied to every vector
        obj = cls(xs.copy())
        Y = np.asarray(b.T.apply(obj, "pairwise").proj_data, dtype=float)
        ctx.check(Y.shape == (len(xs),) + tuple(shape) + (n + 1,), "pairwise image shape",
                  got=Y.shape)
        for j, x in enumerate(xs):
            y = Y[j]
            q0 = float(mink(x, x))
            q1 = mink(y, y)
            e2 = np.sum(y * y, axis=-1)
            tol = 1e-9 * b.cond * nrm ** 2 * float(x @ x)
            ctx.small("<Tx,Tx> = <x,x> (%s)" % kind, (q1 - q0) / tol, 1.0, x=x, y=y)
            if kind != "ideal" and abs(q0) <= 4 * float(np.max(tol)):
                # the vector is closer to the cone than the rounding of this isometry
                ctx.label("margin-below-rounding")
            elif kind == "interior":
                ctx.check(np.all(q1 < 0), "interior point stays interior", x=x, y=y, q1=q1)
                ctx.label("sign-checked")
            elif kind == "exterior":
                ctx.check(np.all(q1 > 0), "exterior point stays exterior", x=x, y=y, q1=q1)
                ctx.label("sign-checked")
            else:
                # null vectors stay null: relative to the Euclidean size of the image
                ctx.small("ideal point stays ideal", q1 / (1e-9 * b.cond * nrm ** 2 *
                                                          float(x @ x)), 1.0, x=x, y=y)
                ctx.check(np.all(e2 > 0), "ideal image is non-zero", y=y)


# --------------------------------------------------------------------------- Coxeter
def coxeter_exhaustive(tier):
    # infinity is written 0 or negative (both spellings: a representation built from a
    # form in which one spelling is mistaken for a finite label can be singular)
    labs = [2, 3, 4, 5, 6, 7, 8, 0, -1] if tier == "thorough" else [2, 3, 4, 5, 7, 0, -1]
    pts = dict(int=[[0.3, -0.2], [-0.5, 0.1], [0.0, 0.7]], int_scales=[1.0, -2.0, 0.5],
               ideal=[[[0.6, 0.8], 1.0], [[-1.0, 0.0], -3.0]],
               ext=[dict(a=0.5, d=[0.0, 1.0], s=1.0), dict(a=-1.2, d=[0.8, -0.6], s=-2.0)])
    cases = []
    for (p, q, r) in hyperbolic_triples(labs):
        for via in (["triangle", "matrix"] if tier == "thorough" else ["triangle"]):
            cases.append(dict(spec=dict(ctor="coxeter_hyperbolic_rep", n=2, shape=[],
                                        cox=tri_matrix(p, q, r), via=via, style="alpha",
                                        word=[0, 1, 2, 0, 1, 2, 1, 0],
                                        extra_words=[[0, 1], [2, 1, 0], []]), pts=pts))
    out = [("ordered triangle triples over %s (0 = infinity) with 1/p+1/q+1/r < 1"
            % labs, cases)]
    if tier == "thorough":
        pts3 = dict(int=[[0.3, -0.2, 0.1], [-0.5, 0.1, 0.4], [0.0, 0.0, 0.7]],
                    int_scales=[1.0, -2.0, 0.5],
                    ideal=[[[0.6, 0.8, 0.0], 1.0], [[0.0, 0.0, -1.0], -3.0]],
                    ext=[dict(a=0.5, d=[0.0, 1.0, 0.0], s=1.0),
                         dict(a=-1.2, d=[0.8, 0.0, -0.6], s=-2.0)])
        c4 = [dict(spec=dict(ctor="coxeter_hyperbolic_rep", n=3, shape=[],
                             cox=_sym_from_labels(4, lab).tolist(), via="matrix",
                             style="alpha", word=[0, 1, 2, 3, 0, 2, 1, 3],
                             extra_words=[[0, 1], [3, 2]]), pts=pts3)
              for lab in rank4_classes()]
        out.append(("all rank-4 Coxeter matrices over {2,3,4,5,inf} up to permutation of the "
                    "generators with cosine form of signature (3,1), |eigenvalue| >= 0.005",
                    c4))
    return out


def _ctor_law(ctor, quick, thorough, shards=(1, 4), exhaustive=None):
    return Law("ctor_preserves_form[%s]" % ctor, ctor_case(ctor), body_ctor, nt_ctor,
               quick=quick, thorough=thorough, shards=shards, exhaustive=exhaustive)


LAWS = [
    _ctor_law("origin_to", 150, 700),
    _ctor_law("tv_origin_to", 120, 600),
    _ctor_law("isometry_to", 120, 600),
    _ctor_law("timelike_to", 100, 500),
    _ctor_law("spacelike_to", 120, 600),
    _ctor_law("elliptic", 100, 600, shards=(1, 2)),
    _ctor_law("standard_rotation", 80, 500, shards=(1, 2)),
    _ctor_law("standard_loxodromic", 80, 500, shards=(1, 2)),
    _ctor_law("sl2_iso", 120, 600),
    _ctor_law("reflection_across", 150, 800),
    _ctor_law("coxeter_hyperbolic_rep", 80, 400, exhaustive=coxeter_exhaustive),
    Law("program_preserves_form_and_distance", program_case(), body_program, nt_program,
        quick=200, thorough=1000, shards=(2, 8)),
    Law("representation_words_and_normalize", rep_case(), body_rep, nt_ctor, quick=150,
        thorough=1000, shards=(1, 4)),
    Law("far_basepoints_preserve_form", far_case(), body_far, nt_ctor, quick=150, thorough=1000,
        shards=(1, 4)),
    Law("causal_character_preserved", causal_case(), body_causal, nt_ctor, quick=150,
        thorough=700, shards=(1, 4)),
]
