"""C16 - affine charts, affine maps and subspace operations in projective space are exact."""
import math
import numpy as np
from hypothesis import strategies as st

from ..core import Law
from .. import gen
from ..gen import fl
from ..oracles import linalg as LA

from geometry_tools import projective
from geometry_tools.base import GeometryError

RULE = ("cases: projective dimension n in 1..5, every chart index 0..n, composite shapes of rank "
        "0..2 (sides 1..3), row and column layouts, real and complex affine coordinates with "
        "1e-3 <= |c| <= 10 and 0, +-1, 0.5, -2 mixed in, per-point rescalings lambda (real of either sign, purely "
        "imaginary, generic complex, |lambda| in [1e-3,1e3] and 1e+-150); homogeneous vectors "
        "with entries exactly 0 / -0 / 1e-300 / purely imaginary for the outside-the-chart and "
        "automatic-chart clauses; well-conditioned linear maps (cond <= ~1e3), translations, "
        "normals of every direction (axis-aligned, negative) and length 0.1..10; transverse "
        "subspace pairs of vector dimensions (k1,k2), k1+k2 > n+1 (coordinate subspaces of a "
        "well-conditioned frame, tilted by <= 0.15 so that the members of a composite differ, "
        "each with its own well-conditioned basis), elementwise and pairwise, ndarray or "
        "Subspace argument; transformations "
        "S diag(lambda) S^-1 with distinct real eigenvalues +-1.25^e (e distinct up to sign), "
        "single and composite, queried at present, nearly-present and absent eigenvalues.  "
        "non-trivial = complex coordinates, or chart index != 0, or dimension >= 3, or pairwise / "
        "composite; distinct = distinct JSON case.")

ASSUMPTIONS = [
    "coordinates bounded by 10 in modulus, rescalings by 1e+-150; linear maps and eigenbases have "
    "condition number <= ~1e3 and tolerances are multiplied by the measured condition number",
    "subspace pairs are transverse by construction (images of coordinate subspaces under a "
    "well-conditioned map); non-transverse pairs are outside the statement",
    "eigenvalues are real, non-zero and pairwise distinct with |ratio| >= 1.25 or opposite sign; "
    "queried absent eigenvalues differ by >= 10% from every eigenvalue (np.isclose rtol=1e-5)",
    "linear maps, translations and normals are real (the library builds real blocks); points "
    "may be complex",
    "float64 / complex128 only (Sage back end not installed)",
]

CLAIM = dict(
    text=("In every standard chart of RP^n / CP^n (n <= 5) chart conversion is exact and invariant "
          "under non-zero rescaling, points are rejected exactly when their chart coordinate is "
          "zero, affine_linear_map / affine_translation / hyperplane_coordinate_transform act as "
          "stated, Subspace.intersect returns the transverse intersection, and "
          "eigenvector / diagonalize return eigen-data of the transformation."),
    note=("exploration level; complex rescalings include purely imaginary chart coordinates "
          "(defect 8 of DESIGN section 5 is replayed from regressions/C16)"),
    technique="property-based testing (Hypothesis) against closed forms and harness SVD rank tests",
)

SPECIAL = [0.0, 1.0, -1.0, 0.5, -2.0]


def coord():
    """0, +-1, ... or a number with 1e-3 <= |c| <= 10 (no underflow under 1e-150 rescaling)"""
    return st.one_of(scalars_nz(1e-3, 10.0), scalars_nz(1e-3, 1.0), st.sampled_from(SPECIAL))


def scalars_nz(lo=0.01, hi=10.0):
    return st.builds(lambda s, m: s * m, st.sampled_from([-1.0, 1.0]), fl(lo, hi))


def coords(k):
    return st.lists(coord(), min_size=k, max_size=k)


@st.composite
def scale(draw, cplx):
    """non-zero rescaling as [re, im]; the chart coordinate of the rescaled point is this
    number, so its kind (real / purely imaginary / generic) is the class under test."""
    kind = draw(st.sampled_from(["real", "imag", "generic"] if cplx else ["real"]))
    mag = draw(st.one_of(st.builds(math.exp, fl(-7.0, 7.0)),
                         st.sampled_from([1.0, 1e-150, 1e150, 2.0])))
    sgn = draw(st.sampled_from([-1.0, 1.0]))
    if kind == "real":
        return [sgn * mag, 0.0]
    if kind == "imag":
        return [0.0, sgn * mag]
    th = draw(fl(-math.pi, math.pi))
    return [mag * math.cos(th), mag * math.sin(th)]


def _nt(labels):
    return bool({"complex", "chart!=0", "n>=3", "pairwise", "composite"} & set(labels))


def _labels(ctx, n, shape, cplx=False, chart=None):
    ctx.label("n=%d" % n, "rank=%d" % len(shape))
    if n >= 3:
        ctx.label("n>=3")
    if len(shape) >= 1:
        ctx.label("composite")
    if cplx:
        ctx.label("complex")
    if chart is not None:
        ctx.label("chart!=0" if chart != 0 else "chart=0")
        if chart == n:
            ctx.label("chart=last")


def chart_of(h, j):
    """harness closed form: affine coordinates in chart j of homogeneous rows h"""
    with np.errstate(all="ignore"):
        return np.delete(h / h[..., j:j + 1], j, axis=-1)


def _hp(x):
    """projective.Point from the caller's own array of homogeneous coordinates, which the
    caller overwrites as soon as the point exists"""
    h = gen.Handed()
    pt = projective.Point(h.give(x))
    h.scribble()
    return pt


# ---------------------------------------------------------------------------
@st.composite
def roundtrip_case(draw):
    n = draw(st.integers(1, 5))
    i = draw(st.integers(0, n))
    shape = draw(gen.shapes(max_rank=2))
    cnt = gen.prod(shape)
    cplx = draw(st.booleans())
    case = dict(n=n, i=i, j=draw(st.integers(0, n)), shape=shape, cplx=cplx,
                re=draw(coords(cnt * n)), re2=draw(coords(cnt * n)),
                scales=[draw(scale(cplx)) for _ in range(cnt)],
                col=draw(st.booleans()))
    if cplx:
        case["im"] = draw(coords(cnt * n))
        case["im2"] = draw(coords(cnt * n))
    return case


def _scales(case, shape):
    s = np.array(case["scales"], dtype=float).reshape(tuple(shape) + (2,))
    if case["cplx"]:
        return s[..., 0] + 1j * s[..., 1]
    return s[..., 0]


def body_roundtrip(case, ctx):
    n, i, j, shape = case["n"], case["i"], case["j"], tuple(case["shape"])
    cplx = case["cplx"]
    a = LA.decode(case["re"], shape + (n,), case.get("im"))
    a2 = LA.decode(case["re2"], shape + (n,), case.get("im2"))
    lam = _scales(case, shape)
    _labels(ctx, n, shape, cplx, i)
    for s in np.atleast_1d(lam).ravel():
        ctx.label("scale:" + ("real" if s.imag == 0 else "imag" if s.real == 0 else "generic")
                  if cplx else ("scale:neg" if s < 0 else "scale:pos"))
        if abs(s) in (1e-150, 1e150):
            ctx.label("scale:extreme")
    rt = dict(rtol=1e-12, atol=1e-14)

    # function level, row layout
    p = projective.projective_coords(a.copy(), chart_index=i)
    ctx.check(p.shape == shape + (n + 1,), "projective_coords shape", got=p.shape)
    ctx.check(np.all(p[..., i] == 1), "chart slot is exactly 1", got=p[..., i])
    ctx.check(np.array_equal(np.delete(p, i, axis=-1), a),
              "other slots are the affine coordinates, in order", got=p, a=a)
    h = np.insert(a, i, 1.0, axis=-1)         # harness' own homogeneous coordinates
    x = h * lam[..., None]
    back = projective.affine_coords(x.copy(), chart_index=i)
    ctx.close("affine_coords(lambda * projective_coords(a)) = a", back, a, **rt)
    # another chart of the same points
    if np.all(x[..., j] != 0):
        ctx.label("transition")
        got = projective.affine_coords(x.copy(), chart_index=j)
        ctx.close("coordinates in a second chart", got, chart_of(h, j), rtol=1e-12, atol=0)
    else:
        ctx.label("transition-outside")
        try:
            got = projective.affine_coords(x.copy(), chart_index=j)
        except GeometryError:
            pass
        else:
            ctx.fail("a point with chart coordinate 0 was given affine coordinates", x=x, j=j,
                     got=got)

    # column layout
    if case["col"] and len(shape) >= 1:
        ctx.label("layout=col")
        ac = np.ascontiguousarray(a.swapaxes(-1, -2))
        pc = projective.projective_coords(ac.copy(), chart_index=i, column_vectors=True)
        ctx.check(np.array_equal(pc, h.swapaxes(-1, -2)), "projective_coords, column layout",
                  got=pc, want=h.swapaxes(-1, -2))
        xc = np.ascontiguousarray(x.swapaxes(-1, -2))
        bc = projective.affine_coords(xc.copy(), chart_index=i, column_vectors=True)
        ctx.check(bc.shape == ac.shape, "affine_coords column layout shape", got=bc.shape)
        ctx.close("affine_coords, column layout", bc, ac, **rt)
    else:
        ctx.label("layout=row")

    # object level
    # the chart as a Python int, or as the NumPy integer that affine_coords() itself hands
    # back when it picks the chart, keyword or positional
    ci = [i, np.int64(i), np.int32(i), np.intp(i)][(i + n + len(shape)) % 4]
    if not isinstance(ci, int):
        ctx.label("chart-index-as-numpy-integer")
    P = projective.Point(a.copy(), chart_index=ci) if (n + len(shape)) % 2 else \
        projective.Point(a.copy(), ci)
    # a collection of points (the class the drawing code uses for point clouds) from the same
    # affine data: the same homogeneous coordinates
    if len(shape) >= 1:
        PCk = projective.PointCollection(a.copy(), chart_index=ci)
        PCp = projective.PointCollection(a.copy(), ci)
        h_ = np.insert(a, i, 1.0, axis=-1)
        ctx.check(np.array_equal(np.asarray(PCk.proj_data), h_) and
                  np.array_equal(np.asarray(PCp.proj_data), h_),
                  "PointCollection(a, chart) data, chart given by keyword or by position",
                  got=np.asarray(PCp.proj_data))
    ctx.check(P.shape == shape, "Point shape", got=P.shape, want=shape)
    ctx.check(np.array_equal(P.proj_data, h), "Point(a, chart_index=i) data", got=P.proj_data)
    ctx.close("Point(a, chart).affine_coords(chart)", P.affine_coords(chart_index=i), a, **rt)
    ctx.check(np.all(P.in_affine_chart(i)), "in_affine_chart of a chart point")
    P2 = _hp(x)
    ctx.close("Point(lambda h).affine_coords(chart)", P2.affine_coords(chart_index=i), a, **rt)
    inc = P2.in_affine_chart(j)
    ctx.check(np.shape(inc) == shape and np.array_equal(inc, x[..., j] != 0),
              "in_affine_chart agrees with the chart coordinate", got=inc, x=x, j=j)
    # setter / getter in chart j
    ret = P2.affine_coords(a2.copy(), chart_index=j)
    ctx.close("value returned by the setter", ret, a2, **rt)
    ctx.check(np.array_equal(P2.proj_data, np.insert(a2, j, 1.0, axis=-1)),
              "data after affine_coords(a2, chart_index=j)", got=P2.proj_data)
    ctx.close("getter after setter", P2.affine_coords(chart_index=j), a2, **rt)


# ---------------------------------------------------------------------------
ZEROISH = [0.0, -0.0]


@st.composite
def hom_entry(draw, cplx):
    k = draw(st.integers(0, 9))
    if k <= 2:
        z = draw(st.sampled_from(ZEROISH))
        return [z, draw(st.sampled_from(ZEROISH))] if cplx else [z, 0.0]
    if k == 3:
        t = draw(st.sampled_from([1e-300, -1e-300, 5e-324]))
        if cplx and draw(st.booleans()):
            return [0.0, t]
        return [t, 0.0]
    if cplx:
        if k == 4:
            return [0.0, draw(scalars_nz())]
        if k == 5:
            return [draw(scalars_nz()), 0.0]
        return [draw(scalars_nz()), draw(scalars_nz())]
    return [draw(scalars_nz()), 0.0]




@st.composite
def outside_case(draw):
    n = draw(st.integers(1, 5))
    shape = draw(gen.shapes(max_rank=2))
    cnt = gen.prod(shape)
    cplx = draw(st.booleans())
    ent = [draw(hom_entry(cplx)) for _ in range(cnt * (n + 1))]
    return dict(n=n, shape=shape, cplx=cplx, ent=ent, col=draw(st.booleans()))


def _hom(case):
    n, shape = case["n"], tuple(case["shape"])
    e = np.array(case["ent"], dtype=float).reshape(shape + (n + 1, 2))
    if case["cplx"]:
        return e[..., 0] + 1j * e[..., 1]
    return e[..., 0].copy()


def _cmp_finite(ctx, name, got, want, rtol=1e-12):
    ok = np.isfinite(want)
    if np.iscomplexobj(want):
        # complex division by subnormal / 1e-300 may lose accuracy: compare ordinary entries
        ok = ok & (np.abs(want) < 1e200)
    ctx.check(np.shape(got) == np.shape(want), name + ": shape", got=np.shape(got),
              want=np.shape(want))
    ctx.close(name, np.where(ok, got, 0), np.where(ok, want, 0), rtol=rtol, atol=1e-305)


def body_outside(case, ctx):
    n, shape, cplx = case["n"], tuple(case["shape"]), case["cplx"]
    x = _hom(case)
    _labels(ctx, n, shape, cplx)
    P = _hp(x)
    col = case["col"] and len(shape) >= 1
    ctx.label("layout=col" if col else "layout=row")
    tiny = np.abs(x) < 1e-299
    for i in range(n + 1):
        zero = (x[..., i] == 0)
        expect_err = bool(np.any(zero))
        if i != 0:
            ctx.label("chart!=0")
        ctx.label("outside" if expect_err else "inside")
        if not expect_err and np.any(tiny[..., i]):
            ctx.label("inside:tiny-chart-coordinate")
        if cplx and not expect_err and np.any(x[..., i].real == 0):
            ctx.label("inside:purely-imaginary-chart-coordinate")
        inc = P.in_affine_chart(i)
        ctx.check(np.shape(inc) == shape and np.array_equal(inc, ~zero),
                  "in_affine_chart(i) <=> chart coordinate != 0", got=inc, x=x, i=i)
        calls = [("affine_coords", lambda: projective.affine_coords(x.copy(), chart_index=i)),
                 ("Point.affine_coords", lambda: P.affine_coords(chart_index=i))]
        if col:
            xc = np.ascontiguousarray(x.swapaxes(-1, -2))
            calls.append(("affine_coords[col]", lambda: projective.affine_coords(
                xc.copy(), chart_index=i, column_vectors=True).swapaxes(-1, -2)))
        for name, f in calls:
            try:
                got = f()
                raised = False
            except GeometryError:
                raised = True
            ctx.check(raised == expect_err,
                      "%s raises GeometryError exactly when a chart coordinate is 0" % name,
                      raised=raised, expected=expect_err, x=x, i=i)
            if not raised:
                _cmp_finite(ctx, name + " value", got, chart_of(x, i))


# ---------------------------------------------------------------------------
@st.composite
def pair_polygon_case(draw):
    n = draw(st.integers(1, 4))
    shape = draw(gen.shapes(max_rank=2))
    k = draw(st.integers(3, 5))
    cnt = gen.prod(shape)
    # homogeneous vertex coordinates; the chart-0 coordinate of each polygon is of one sign,
    # of both signs, or has an exact zero
    polys, kinds = [], []
    for _ in range(cnt):
        kind = draw(st.sampled_from(["positive", "negative", "mixed", "zero", "zero"]))
        rows = []
        for v in range(k):
            x0 = draw(scalars_nz(0.05, 5.0))
            x0 = abs(x0) if kind in ("positive", "zero") else -abs(x0) if kind == "negative" \
                else (abs(x0) if v % 2 else -abs(x0))
            rows.append([x0] + draw(coords(n)))
        if kind == "zero":
            rows[draw(st.integers(0, k - 1))][0] = 0.0
        polys.append(rows)
        kinds.append(kind)
    return dict(n=n, shape=shape, k=k, polys=polys, kinds=kinds,
                chart=draw(st.integers(0, n)))


def body_pair_polygon(case, ctx):
    """the chart accessors of objects made of several points: a pair's endpoints in the
    requested chart, and whether a polygon lies in the standard chart - it does exactly when
    no vertex has chart coordinate zero and all have it of one sign (so that the affine
    picture of the polygon is the polygon)"""
    n, shape, k, i = case["n"], tuple(case["shape"]), case["k"], case["chart"]
    V = np.array(case["polys"], dtype=float).reshape(shape + (k, n + 1))
    _labels(ctx, n, shape, False, i)
    for kd in set(case["kinds"]):
        ctx.label("x0=" + kd)
    Pg = projective.Polygon(_hp(V))
    x0 = V[..., 0]
    want = np.all(x0 > 0, axis=-1) | np.all(x0 < 0, axis=-1)
    got = Pg.in_standard_chart()
    ctx.check(np.shape(got) == shape and np.array_equal(np.asarray(got, dtype=bool), want),
              "Polygon.in_standard_chart() <=> every vertex has a non-zero chart coordinate "
              "of one sign", got=got, want=want, x0=x0)
    # a polygon reported inside has affine coordinates (and one reported outside because of a
    # zero has none)
    for idx in (np.ndindex(*shape) if shape else [()]):
        one = projective.Polygon(V[idx].copy())
        try:
            aff = one.affine_coords(chart_index=0)
            raised = False
        except GeometryError:
            raised = True
        ctx.check(raised == bool(np.any(x0[idx] == 0)), "affine_coords of a polygon raises "
                  "exactly when a vertex has chart coordinate 0", raised=raised, x0=x0[idx])
        if want[idx]:
            ctx.check(not raised, "a polygon reported in the standard chart has affine "
                      "coordinates there")
            _cmp_finite(ctx, "affine coordinates of the vertices", aff, chart_of(V[idx], 0))
    # pairs: consecutive vertices, read in chart i
    A, B = V[..., 0, :], V[..., 1, :]
    pair = projective.PointPair(_hp(A), _hp(B))
    ok = np.all(A[..., i] != 0) and np.all(B[..., i] != 0)
    try:
        e = pair.endpoint_affine_coords(chart_index=i)
        raised = False
    except GeometryError:
        raised = True
    ctx.check(raised == (not ok), "endpoint_affine_coords(chart_index=i) raises exactly when an "
              "endpoint has chart coordinate 0", raised=raised, i=i)
    if not raised:
        ctx.check(np.shape(e) == shape + (2, n), "endpoint_affine_coords shape",
                  got=np.shape(e))
        _cmp_finite(ctx, "endpoint_affine_coords in chart i",
                    e, np.stack([chart_of(A, i), chart_of(B, i)], axis=-2))
    if ok and i != 0:
        ctx.label("pair-in-chart!=0")


# ---------------------------------------------------------------------------
@st.composite
def auto_case(draw):
    n = draw(st.integers(1, 5))
    shape = draw(gen.shapes(max_rank=2))
    cnt = gen.prod(shape)
    cplx = draw(st.booleans())
    ngood = min(n + 1, draw(st.sampled_from([0, 1, 1, 2, 3, n + 1])))
    perm = draw(st.permutations(list(range(n + 1))))
    good = [c in perm[:ngood] for c in range(n + 1)]
    ent = []
    # a chart that is not good gets a zero in at least one point
    forced = [draw(st.integers(0, cnt - 1)) for _ in range(n + 1)]
    for pt in range(cnt):
        for c in range(n + 1):
            if good[c]:
                e = [draw(scalars_nz()), draw(scalars_nz()) if cplx else 0.0]
                if cplx:
                    k = draw(st.integers(0, 3))
                    if k == 0:
                        e[0] = 0.0
                    elif k == 1:
                        e[1] = 0.0
                if draw(st.integers(0, 12)) == 0:
                    e = [1e-300, 0.0]
            elif forced[c] == pt or draw(st.integers(0, 2)) == 0:
                e = [0.0, 0.0]
            else:
                e = [draw(scalars_nz()), draw(scalars_nz()) if cplx else 0.0]
            ent.append(e)
    return dict(n=n, shape=shape, cplx=cplx, ent=ent, col=draw(st.booleans()))


def body_auto(case, ctx):
    n, shape, cplx = case["n"], tuple(case["shape"]), case["cplx"]
    x = _hom(case)
    _labels(ctx, n, shape, cplx)
    axes = tuple(range(x.ndim - 1))
    good = [c for c in range(n + 1) if np.all(x[..., c] != 0)]
    col = case["col"] and len(shape) >= 1
    ctx.label("layout=col" if col else "layout=row")
    ctx.label("good-charts=%s" % ("0" if not good else "1" if len(good) == 1 else "many"))
    if good and 0 not in good:
        ctx.label("chart!=0")
    try:
        if col:
            res = projective.affine_coords(np.ascontiguousarray(x.swapaxes(-1, -2)),
                                           column_vectors=True)
        else:
            res = projective.affine_coords(x.copy())
        raised = False
    except GeometryError:
        raised = True
    ctx.check(raised == (not good),
              "automatic chart: GeometryError exactly when no standard chart contains all points",
              raised=raised, good=good, x=x)
    if raised:
        return
    ctx.check(isinstance(res, tuple) and len(res) == 2, "returns (affine, chart_index)")
    aff, idx = res
    ctx.check(np.ndim(idx) == 0 and float(idx) == int(idx), "chart index is an integer",
              got=idx)
    idx = int(idx)
    ctx.check(idx in good, "the chosen chart contains every point", idx=idx, good=good, x=x)
    if col:
        aff = aff.swapaxes(-1, -2)
    _cmp_finite(ctx, "affine coordinates in the chosen chart", aff, chart_of(x, idx))


# ---------------------------------------------------------------------------
@st.composite
def points_in_chart(draw, n, max_rank=2):
    shape = draw(gen.shapes(max_rank=max_rank))
    cnt = gen.prod(shape)
    cplx = draw(st.booleans())
    d = dict(shape=shape, cplx=cplx, re=draw(coords(cnt * n)),
             scales=[draw(scale(cplx)) for _ in range(cnt)])
    if cplx:
        d["im"] = draw(coords(cnt * n))
    return d


def _points(pc, n, i):
    shape = tuple(pc["shape"])
    a = LA.decode(pc["re"], shape + (n,), pc.get("im"))
    lam = _scales(pc, shape)
    x = np.insert(a, i, 1.0, axis=-1) * lam[..., None]
    return a, x, shape


@st.composite
def linmap_case(draw):
    n = draw(st.integers(1, 5))
    i = draw(st.integers(0, n))
    kind = draw(st.sampled_from([0, 1, 2, 3, 4, 5, 5, 5]))
    if kind == 0:
        L = [[1.0 if r == c else 0.0 for c in range(n)] for r in range(n)]
    elif kind == 1:     # a permutation-like / shear matrix: entries placed by position
        L = [[float(r * n + c + 1) if (r <= c or draw(st.booleans())) else 0.0
              for c in range(n)] for r in range(n)]
        for r in range(n):
            L[r][r] = float(n * n + r + 2)
    else:
        L = draw(gen.wellcond_matrix(n))
    if kind == 5:
        # a strong contraction or dilation (determinant 1e-15 .. 1e10): as good a linear map
        # of the chart as any
        c = draw(st.sampled_from([1e-3, 1e-3, 0.02, 1e2]))
        L = [[c * x for x in row] for row in L]
    return dict(n=n, i=i, L=L, cv=draw(st.sampled_from([True, False, None])),
                pts=draw(points_in_chart(n)))


def body_linmap(case, ctx):
    n, i = case["n"], case["i"]
    L = np.array(case["L"], dtype=float)
    a, x, shape = _points(case["pts"], n, i)
    _labels(ctx, n, shape, case["pts"]["cplx"], i)
    cv = case["cv"]
    ctx.label("column_vectors=%s" % cv)
    if cv is None:     # documented default: column vectors
        T = projective.affine_linear_map(L.copy(), chart_index=i)
    else:
        T = projective.affine_linear_map(L.copy(), chart_index=i, column_vectors=cv)
    ctx.check(isinstance(T, projective.Transformation) and T.matrix.shape == (n + 1, n + 1),
              "affine_linear_map returns a transformation of P^n", got=np.shape(T.matrix))
    if cv is False:
        want = a @ L
    else:
        want = a @ L.T          # x -> L x on column vectors
    img = T @ _hp(x)
    ctx.check(isinstance(img, projective.Point) and img.shape == shape, "image is a Point",
              got=type(img).__name__)
    sc = float(np.max(np.abs(L))) * max(1.0, float(np.max(np.abs(a), initial=0.0))) * n
    ctx.check(np.all(img.in_affine_chart(i)), "the chart is preserved")
    ctx.close("affine_linear_map acts as the linear map in the chart",
              img.affine_coords(chart_index=i), want, rtol=1e-12, atol=1e-13 * sc, scale=sc)
    # lattice points given by integer-typed affine coordinates are mapped like any others
    ai = np.rint(np.real(a) * 3).astype(np.int64)
    ctx.close("affine_linear_map acts as the linear map on integer-typed points",
              (T @ projective.Point(ai.copy(), chart_index=i)).affine_coords(chart_index=i),
              (ai @ L) if cv is False else (ai @ L.T), rtol=1e-12, atol=1e-13 * sc * 3)
    # the origin of the chart is fixed
    o = projective.Point(np.zeros(n), chart_index=i)
    ctx.close("origin fixed", (T @ o).affine_coords(chart_index=i), np.zeros(n), atol=1e-14)
    # array form of apply
    img2 = T.apply(x.copy())
    ctx.close("apply(ndarray)", chart_of(np.asarray(img2.proj_data), i), want, rtol=1e-12,
              atol=1e-13 * sc, scale=sc)


@st.composite
def translation_case(draw):
    n = draw(st.integers(1, 5))
    i = draw(st.integers(0, n))
    return dict(n=n, i=i, t=draw(coords(n)), pts=draw(points_in_chart(n)))


def body_translation(case, ctx):
    n, i = case["n"], case["i"]
    t = np.array(case["t"], dtype=float)
    a, x, shape = _points(case["pts"], n, i)
    _labels(ctx, n, shape, case["pts"]["cplx"], i)
    T = projective.affine_translation(t.copy(), chart_index=i)
    ctx.check(isinstance(T, projective.Transformation) and T.matrix.shape == (n + 1, n + 1),
              "affine_translation returns a transformation of P^n", got=np.shape(T.matrix))
    img = T @ _hp(x)
    ctx.check(np.all(img.in_affine_chart(i)), "the chart is preserved")
    ctx.close("affine_translation acts as x + t in the chart",
              img.affine_coords(chart_index=i), a + t, rtol=1e-12, atol=1e-13)
    back = T.inv() @ img
    ctx.close("inverse translation", back.affine_coords(chart_index=i), a, rtol=1e-12,
              atol=1e-12)
    # lattice points given by integer-typed affine coordinates move by t like any others
    ai = np.rint(np.real(a) * 3).astype(np.int64)
    Pi = projective.Point(ai.copy(), chart_index=i)
    ctx.label("integer-typed-points")
    ctx.close("affine_translation moves integer-typed points by t",
              (T @ Pi).affine_coords(chart_index=i), ai + t, rtol=1e-12, atol=1e-13)
    ctx.close("two translations by t/2 of integer-typed points add up",
              (projective.affine_translation(t / 2, chart_index=i) @
               (projective.affine_translation(t / 2, chart_index=i) @ Pi)).affine_coords(
                   chart_index=i), ai + t, rtol=1e-12, atol=1e-13)
    # hyperplane at infinity of the chart is fixed pointwise
    d = np.insert(a, i, 0.0, axis=-1)
    if np.all(np.sum(np.abs(d), axis=-1) > 0):
        ctx.label("points-at-infinity")
        imd = np.asarray((T @ _hp(d)).proj_data)
        ctx.close("points at infinity of the chart are fixed", imd, d, rtol=1e-12, atol=1e-13)


# ---------------------------------------------------------------------------
@st.composite
def hyperplane_case(draw):
    n = draw(st.integers(1, 5))
    m = n + 1
    d = draw(gen.directions(m))
    length = draw(st.one_of(fl(0.1, 10.0), st.just(1.0)))
    k = draw(st.integers(1, 4))
    ys = draw(coords(k * m))
    normal = [length * c for c in d]
    pack = "ndarray"
    if draw(st.integers(0, 3)) == 0:
        # a lattice normal, in integer packagings too
        normal = [float(draw(st.integers(-3, 3))) for _ in range(m)]
        if not any(normal):
            normal[draw(st.integers(0, m - 1))] = 1.0
        pack = draw(st.sampled_from(["ndarray", "intarray", "intlist", "list"]))
    return dict(n=n, normal=normal, ys=ys, k=k, pack=pack)


def body_hyperplane(case, ctx):
    n, k = case["n"], case["k"]
    m = n + 1
    nv = np.array(case["normal"], dtype=float)
    Y = np.array(case["ys"], dtype=float).reshape(k, m)
    _labels(ctx, n, (k,), False)
    nz = np.count_nonzero(nv)
    ctx.label("normal:axis" if nz == 1 else "normal:generic")
    if nv[0] < 0:
        ctx.label("normal:first-negative")
    if nz == 1 and nv[0] == 0:
        ctx.label("chart!=0")
    pack = case.get("pack", "ndarray")
    arg = {"ndarray": lambda: nv.copy(), "intarray": lambda: nv.astype(np.int64),
           "intlist": lambda: [int(x) for x in nv], "list": lambda: [float(x) for x in nv]}[pack]()
    keep = np.array(arg, copy=True)
    T = projective.hyperplane_coordinate_transform(arg)
    ctx.label("normal-packaging=" + pack)
    ctx.check(np.array_equal(np.asarray(arg), keep), "hyperplane_coordinate_transform leaves the "
              "caller's normal as it was", before=keep, after=np.asarray(arg))
    M = np.asarray(T.matrix)
    ctx.check(M.shape == (m, m), "shape", got=M.shape)
    ctx.close("orthogonal: M M^T = I", M @ M.T, np.eye(m), rtol=0, atol=1e-12)
    nhat = nv / np.linalg.norm(nv)
    ynorm = np.maximum(np.linalg.norm(Y, axis=-1), 1e-300)
    X = Y - (Y @ nhat)[:, None] * nhat[None, :]        # points of {x.n = 0}
    imgX = np.asarray((T @ _hp(X)).proj_data)
    ctx.small("{x.n=0} is sent to {x0=0}", imgX[..., 0], 1e-12 * np.maximum(ynorm, 1.0))
    imgY = np.asarray((T @ _hp(Y)).proj_data)
    ctx.close("|x0 of the image| = |x.n|/|n|", np.abs(imgY[..., 0]), np.abs(Y @ nhat),
              rtol=1e-12, atol=1e-12 * float(np.max(ynorm)))
    ctx.close("norms preserved", np.linalg.norm(imgY, axis=-1), np.linalg.norm(Y, axis=-1),
              rtol=1e-12, atol=1e-13)
    # the chart {x.n != 0} goes to the standard chart 0
    off = np.abs(Y @ nhat) > 1e-6 * ynorm
    if np.any(off):
        ctx.label("off-hyperplane")
        Q = T @ _hp(Y[off])
        ctx.check(np.all(Q.in_affine_chart(0)), "image lies in chart 0")


# ---------------------------------------------------------------------------
@st.composite
def intersect_case(draw):
    n = draw(st.integers(1, 5))
    N = n + 1
    k1 = draw(st.integers(1, N))
    k2 = draw(st.integers(N - k1 + 1, N))
    mode = draw(st.sampled_from(["elementwise", "elementwise", "pairwise"]))
    if mode == "elementwise":
        s1 = draw(gen.shapes(max_rank=2))
        s2 = list(s1)
    else:
        s1 = draw(gen.shapes(max_rank=2, max_side=2))
        s2 = draw(gen.shapes(max_rank=2 if len(s1) < 2 else 1, max_side=2))
    # one common frame S (or, elementwise, maybe one per element); A_t is spanned by the first
    # k1 frame vectors tilted by a small X_t towards the others, B_u by the last k2 tilted by
    # Y_u: all pairs stay transverse (tilts <= 0.15), the subspaces differ from each other
    S = draw(gen.wellcond_matrix(N, maxfactor=2.0))
    c1, c2 = gen.prod(s1), gen.prod(s2)
    GA = [draw(gen.wellcond_matrix(k1, maxfactor=2.0)) for _ in range(c1)]
    GB = [draw(gen.wellcond_matrix(k2, maxfactor=2.0)) for _ in range(c2)]
    tilt = draw(st.sampled_from([True, True, False]))

    def tilts(rows, cols):
        if not tilt:
            return [[0.0] * cols for _ in range(rows)]
        return [[draw(fl(-0.15, 0.15)) for _ in range(cols)] for _ in range(rows)]
    XA = [tilts(k1, N - k1) for _ in range(c1)]
    YB = [tilts(k2, N - k2) for _ in range(c2)]
    if mode == "elementwise" and draw(st.booleans()):
        # elementwise: a different frame for every element
        Ss = [draw(gen.wellcond_matrix(N, maxfactor=2.0)) for _ in range(c1)]
    else:
        Ss = None
    return dict(n=n, k1=k1, k2=k2, mode=mode, s1=s1, s2=s2, S=S, Ss=Ss, GA=GA, GB=GB,
                XA=XA, YB=YB, tilt=tilt, other_as_array=draw(st.booleans()),
                rowlen=draw(st.integers(0, 3)) == 0)


def body_intersect(case, ctx):
    n, k1, k2, mode = case["n"], case["k1"], case["k2"], case["mode"]
    N = n + 1
    d = k1 + k2 - N
    s1, s2 = tuple(case["s1"]), tuple(case["s2"])
    c1, c2 = gen.prod(s1), gen.prod(s2)
    S = np.array(case["S"], dtype=float)
    Ss = [np.array(s, dtype=float) for s in case["Ss"]] if case["Ss"] else None
    A = np.zeros((c1, k1, N))
    B = np.zeros((c2, k2, N))
    for t in range(c1):
        F = Ss[t] if Ss else S
        X = np.array(case["XA"][t], dtype=float).reshape(k1, N - k1)
        A[t] = np.array(case["GA"][t], dtype=float) @ (F[:k1] + X @ F[k1:])
    for t in range(c2):
        F = Ss[t] if Ss else S
        Y = np.array(case["YB"][t], dtype=float).reshape(k2, N - k2)
        B[t] = np.array(case["GB"][t], dtype=float) @ (F[N - k2:] + Y @ F[:N - k2])
    if case.get("rowlen"):
        # spanning vectors of very different lengths (a subspace is its span, whatever the
        # lengths of the vectors it is given by)
        fA = np.array([[1.0, 2500.0, 0.04, 60.0, 1.0, 700.0][(t + r) % 6] for t in range(c1)
                       for r in range(k1)]).reshape(c1, k1, 1)
        fB = np.array([[0.02, 1.0, 4000.0, 1.0, 30.0, 0.5][(t + r) % 6] for t in range(c2)
                       for r in range(k2)]).reshape(c2, k2, 1)
        A, B = A * fA, B * fB
        ctx.label("spanning-vectors-of-different-lengths")
    A = A.reshape(s1 + (k1, N))
    B = B.reshape(s2 + (k2, N))
    _labels(ctx, n, s1)
    ctx.label(mode, "k=(%d,%d)" % (k1, k2), "d=%d" % d,
              "k1!=k2" if k1 != k2 else "k1=k2",
              "other=ndarray" if case["other_as_array"] else "other=Subspace")
    if mode == "pairwise" and (len(s1) or len(s2)):
        ctx.label("pairwise")
    if Ss:
        ctx.label("frame-per-element")
    ctx.label("tilted" if case["tilt"] else "coordinate-subspaces")
    # coordinate subspaces given by whole-number vectors in integer-typed arrays: span(e_0..
    # e_{k1-1}) meets span(e_{N-k2}..e_{N-1}) in span(e_{N-k2}..e_{k1-1})
    Ri = projective.Subspace(np.eye(N, dtype=np.int64)[:k1] * 2).intersect(
        projective.Subspace(np.eye(N, dtype=np.int64)[N - k2:] * 3))
    Di = np.asarray(Ri.proj_data, dtype=float)
    ctx.check(Di.shape == (d, N), "intersection of integer-typed coordinate subspaces: shape",
              got=Di.shape, want=(d, N))
    outside = np.ones(N, dtype=bool)
    outside[N - k2:k1] = False
    ctx.small("intersection of integer-typed coordinate subspaces lies in both",
              Di[:, outside], 1e-12)
    ctx.check(np.linalg.matrix_rank(Di) == d, "... and has the expected dimension")
    SA = projective.Subspace(A.copy())
    other = B.copy() if case["other_as_array"] else projective.Subspace(B.copy())
    R = SA.intersect(other, broadcast=mode)
    ctx.check(isinstance(R, projective.Subspace), "intersect returns a Subspace",
              got=type(R).__name__)
    want_shape = s1 if mode == "elementwise" else s1 + s2
    D = np.asarray(R.proj_data)
    ctx.check(R.shape == want_shape and D.shape == want_shape + (d, N),
              "shape of the intersection", got=D.shape, want=want_shape + (d, N))
    ctx.check(R.n == d, "dimension of the underlying vector space is k1+k2-(n+1)", got=R.n)
    ctx.check(np.array_equal(SA.proj_data, A), "self not modified")
    for idx in np.ndindex(*want_shape):
        ia = idx[:len(s1)]
        ib = idx if mode == "elementwise" else idx[len(s1):]
        a, b, r = A[ia], B[ib], D[idx]
        t = int(np.ravel_multi_index(ia, s1)) if s1 else 0
        F = Ss[t] if Ss else S
        sv = np.linalg.svd(np.vstack([a / np.linalg.norm(a), b / np.linalg.norm(b)]),
                           compute_uv=False)
        condn = (sv[0] / sv[N - 1]) * max(np.linalg.cond(a), np.linalg.cond(b))
        tol = 1e-12 * max(condn, 1.0)
        ctx.check(np.all(np.isfinite(r)), "finite", r=r)
        ctx.small("rows of the intersection lie in span(self)", LA.span_defect(r, a), tol)
        ctx.small("rows of the intersection lie in span(other)", LA.span_defect(r, b), tol)
        ctx.check(LA.min_rel_sv(r) > 1e-7, "rows of the intersection are independent",
                  sv=LA.min_rel_sv(r), r=r)
        if not case["tilt"]:
            true = F[N - k2:k1]                   # the d frame vectors common to both
            ctx.small("equals the intersection known by construction",
                      LA.same_span_defect(r, true), tol * np.linalg.cond(F))


@st.composite
def generic_complex_matrix(draw, n):
    """invertible complex n x n matrix with condition number <= 4: U1 diag(r e^{i phi}) U2 with
    U1, U2 products of complex Givens rotations (genuinely complex in every entry)"""
    def unitary():
        U = np.eye(n, dtype=complex)
        for _ in range(2 * n):
            if n < 2:
                break
            i = draw(st.integers(0, n - 2))
            j = draw(st.integers(i + 1, n - 1))
            th = draw(fl(0.2, 1.3))
            al = draw(fl(-math.pi, math.pi))
            G = np.eye(n, dtype=complex)
            G[i, i] = G[j, j] = math.cos(th)
            G[i, j] = -math.sin(th) * np.exp(-1j * al)
            G[j, i] = math.sin(th) * np.exp(1j * al)
            U = G @ U
        return U
    d = np.array([math.exp(draw(fl(-0.69, 0.69))) * np.exp(1j * draw(fl(-math.pi, math.pi)))
                  for _ in range(n)])
    M = unitary() @ np.diag(d) @ unitary()
    return [[[float(z.real), float(z.imag)] for z in row] for row in M]


@st.composite
def intersect_complex_case(draw):
    n = draw(st.integers(1, 4))
    N = n + 1
    k1 = draw(st.integers(1, N))
    k2 = draw(st.integers(N - k1 + 1, N))
    cnt = draw(st.sampled_from([0, 0, 2, 3]))       # 0 = a single (non-composite) pair
    m = max(cnt, 1)
    return dict(n=n, k1=k1, k2=k2, cnt=cnt,
                S=[draw(generic_complex_matrix(N)) for _ in range(m)],
                GA=[draw(generic_complex_matrix(k1)) for _ in range(m)],
                GB=[draw(generic_complex_matrix(k2)) for _ in range(m)],
                mode=draw(st.sampled_from(["elementwise", "pairwise"])))


def _cspan_defect(r, a):
    """relative distance of the rows of r from the (complex) row span of a"""
    coef, *_ = np.linalg.lstsq(a.T, r.T, rcond=None)
    res = r.T - a.T @ coef
    return np.sqrt(np.sum(np.abs(res) ** 2, axis=0) / np.sum(np.abs(r) ** 2, axis=1))


def body_intersect_complex(case, ctx):
    """projective space over C (documented): the intersection of complex subspaces lies in
    both.  A = G_A F[:k1], B = G_B F[N-k2:] for a complex frame F, so the intersection is
    span F[N-k2:k1]."""
    n, k1, k2, cnt, mode = case["n"], case["k1"], case["k2"], case["cnt"], case["mode"]
    N = n + 1
    d = k1 + k2 - N
    m = max(cnt, 1)
    F = [gen.cmat(x) for x in case["S"]]
    if mode == "pairwise":
        # one frame for all (different bases of the same two subspaces), so that every
        # pair is transverse with a known intersection and known conditioning
        F = [F[0]] * m
    A = np.array([gen.cmat(case["GA"][t]) @ F[t][:k1] for t in range(m)])
    B = np.array([gen.cmat(case["GB"][t]) @ F[t][N - k2:] for t in range(m)])
    if cnt == 0:
        A, B = A[0], B[0]
    ctx.label("complex", "n=%d" % n, "n>=3" if n >= 3 else "", mode, "composite" if cnt else "",
              "dim>=3" if n >= 3 else "")
    R = projective.Subspace(A.copy()).intersect(projective.Subspace(B.copy()), broadcast=mode)
    D = np.asarray(R.proj_data)
    if cnt == 0:
        want_shape = ()
    else:
        want_shape = (m,) if mode == "elementwise" else (m, m)
    ctx.check(D.shape == want_shape + (d, N), "shape of the complex intersection", got=D.shape,
              want=want_shape + (d, N))
    for idx in np.ndindex(*want_shape):
        ia = idx[0] if idx else None
        ib = (idx[0] if mode == "elementwise" else idx[1]) if idx else None
        a = A if cnt == 0 else A[ia]
        b = B if cnt == 0 else B[ib]
        r = D[idx]
        cond = max(np.linalg.cond(a), np.linalg.cond(b), 1.0) * np.linalg.cond(F[ia or 0])
        ctx.check(np.all(np.isfinite(r)), "finite")
        ctx.small("complex: rows of the intersection lie in span(self)", _cspan_defect(r, a),
                  1e-11 * cond)
        ctx.small("complex: rows of the intersection lie in span(other)", _cspan_defect(r, b),
                  1e-11 * cond)
        if True:
            true = F[ia or 0][N - k2:k1]
            ctx.small("complex: equals the intersection known by construction",
                      _cspan_defect(r, true), 1e-11 * cond)


# ---------------------------------------------------------------------------
@st.composite
def eigen_spectrum(draw, N):
    """N distinct non-zero reals sign * 1.25^e with (e, sign) pairwise different"""
    pairs = draw(st.lists(st.tuples(st.integers(-5, 5), st.sampled_from([-1, 1])),
                          min_size=N, max_size=N, unique=True))
    return [s * 1.25 ** e for e, s in pairs]


@st.composite
def eig_transform(draw, N):
    if N >= 2 and draw(st.integers(0, 4)) == 0:
        # a nearly symmetric transformation: orthogonal frame, so that S diag S^-1 is
        # symmetric, tilted by a few 1e-6 (asymmetric within the default allclose tolerances,
        # but a different matrix with different eigenvectors)
        Q = np.array(draw(gen.orthogonal_matrix(N)), dtype=float)
        tilt = np.eye(N)
        tilt[0, N - 1] = draw(st.sampled_from([3e-6, -5e-6, 2e-7, -1e-7, 4e-8]))
        return dict(S=(Q @ tilt).tolist(), lam=draw(eigen_spectrum(N)), nearly_symmetric=True)
    return dict(S=draw(gen.wellcond_matrix(N, maxfactor=2.0)), lam=draw(eigen_spectrum(N)))


def _colmat(tr):
    S = np.array(tr["S"], dtype=float)
    lam = np.array(tr["lam"], dtype=float)
    return S @ np.diag(lam) @ np.linalg.inv(S), S, lam


@st.composite
def eigvec_case(draw):
    n = draw(st.integers(1, 5))
    N = n + 1
    shape = draw(gen.shapes(max_rank=2))
    cnt = gen.prod(shape)
    trs = [draw(eig_transform(N)) for _ in range(cnt)]
    # the queried eigenvalue: present in transformation 0, maybe forced into others
    q = draw(st.sampled_from(["present", "present", "near", "absent", "none"]))
    lam0 = trs[0]["lam"][draw(st.integers(0, N - 1))]
    for t in range(1, cnt):
        if draw(st.booleans()) and lam0 not in trs[t]["lam"]:
            trs[t]["lam"][draw(st.integers(0, N - 1))] = lam0
    if q == "near":
        query = lam0 * (1 + draw(st.sampled_from([1e-9, -1e-9, 1e-12])))
    elif q == "absent":
        query = draw(st.sampled_from([-1.0, 1.0])) * 1.25 ** (draw(st.integers(-5, 5)) + 0.5)
    else:
        query = lam0
    return dict(n=n, shape=shape, trs=trs, q=q, query=query,
                cv=draw(st.booleans()),
                via=draw(st.sampled_from(["direct", "direct", "product", "reassigned"])))


def _build_T(case):
    n, shape = case["n"], tuple(case["shape"])
    N = n + 1
    mats, Ss, lams = [], [], []
    for tr in case["trs"]:
        C, S, lam = _colmat(tr)
        mats.append(C)
        Ss.append(S)
        lams.append(lam)
    C = np.array(mats).reshape(shape + (N, N))
    via = case.get("via", "direct")
    if via != "direct":
        # the same transformation obtained as a product A @ B, or written with set() into an
        # existing object - after B (that object) has already answered eigen-queries about
        # its own matrix diag(1, ..., N): what it answered then must not be what T answers
        Bc = np.diag(np.arange(1.0, N + 1.0))
        B = projective.Transformation(np.broadcast_to(Bc, shape + (N, N)).copy(),
                                      column_vectors=True)
        for query in (None, 1.0, float(N)):
            try:
                B.eigenvector(query)
            except GeometryError:
                pass
        B.diagonalize()
        B.diagonalize(return_inv=True)
        if via == "product":
            A = projective.Transformation(C @ np.diag(1.0 / np.arange(1.0, N + 1.0)),
                                          column_vectors=True)
            T = A @ B
        else:
            B.set(np.ascontiguousarray(C.swapaxes(-1, -2)))
            T = B
        return T, C, Ss, lams
    if case["cv"]:
        T = projective.Transformation(C.copy(), column_vectors=True)
    else:
        T = projective.Transformation(np.ascontiguousarray(C.swapaxes(-1, -2)))
    return T, C, Ss, lams


def body_eigvec(case, ctx):
    n, shape, q = case["n"], tuple(case["shape"]), case["q"]
    N = n + 1
    T, C, Ss, lams = _build_T(case)
    _labels(ctx, n, shape)
    ctx.label("query=" + q, "column_vectors=%s" % case["cv"], "via=" + case.get("via", "direct"))
    query = None if q == "none" else float(case["query"])
    present = [bool(np.any(np.isclose(l, case["query"], rtol=1e-6, atol=0))) for l in lams]
    single = (len(shape) == 0)
    try:
        P = T.eigenvector(query)
        raised = False
    except GeometryError:
        raised = True
    if single and q != "none" and not present[0]:
        ctx.label("missing:single")
        ctx.check(raised, "a missing eigenvalue raises GeometryError for a single "
                  "transformation", query=query, lam=lams[0])
        return
    ctx.check(not raised, "eigenvector() raised GeometryError although the eigenvalue is "
              "present", query=query, lams=lams)
    ctx.check(isinstance(P, projective.Point) and P.shape == shape, "a Point of the shape of "
              "the transformation", got=getattr(P, "shape", None))
    V = np.asarray(P.proj_data)
    ctx.check(V.shape == shape + (N,), "eigenvector data shape", got=V.shape)
    TP = np.asarray((T @ P).proj_data)       # the action of T on the reported point
    for t, idx in enumerate(np.ndindex(*shape)):
        v = V[idx]
        cond = np.linalg.cond(Ss[t])
        lmax = float(np.max(np.abs(lams[t])))
        if q != "none" and not present[t]:
            ctx.label("missing:composite-zero-row")
            ctx.check(np.all(v == 0), "no eigenvector with this eigenvalue: zero row", v=v)
            continue
        ctx.label("present")
        nv = float(np.linalg.norm(v))
        ctx.check(nv > 1e-8 and np.all(np.isfinite(v)), "non-degenerate eigenvector", v=v)
        tol = 1e-11 * cond * lmax * nv
        if q == "none":
            # an arbitrary eigenvector: C v parallel to v with some eigenvalue of C
            w = C[idx] @ v
            mu = np.vdot(v, w) / np.vdot(v, v)
            ctx.small("C v = mu v for the arbitrary eigenvector", w - mu * v, tol)
            ctx.check(np.min(np.abs(lams[t] - mu)) < 1e-8 * cond * lmax,
                      "mu is an eigenvalue", mu=mu, lam=lams[t])
        else:
            lam = float(case["query"])
            sfx = " [query off by <= 1e-9 relative]" if q == "near" else ""
            ctx.small("T v = lambda v (column convention)" + sfx, C[idx] @ v - lam * v,
                      tol + 2e-9 * lmax * nv * (q == "near"))
            ctx.small("(T @ P) = lambda P through the library's action" + sfx,
                      TP[idx] - lam * v, tol + 2e-9 * lmax * nv * (q == "near"))


@st.composite
def eig_complex_case(draw):
    """complex transformations (and real ones with non-real eigenvalues), single and composite"""
    n = draw(st.integers(1, 3))
    N = n + 1
    shape = draw(st.sampled_from([[], [], [1], [2], [2, 2]]))
    kind = draw(st.sampled_from(["complex", "complex", "real-rotation"]))
    trs = []
    for _ in range(gen.prod(shape)):
        if kind == "complex":
            # distinct complex eigenvalues r e^{i phi}, moduli 1.3^k pairwise different
            ks = draw(st.lists(st.integers(-3, 3), min_size=N, max_size=N, unique=True))
            lam = [[1.3 ** k * math.cos(ph), 1.3 ** k * math.sin(ph)]
                   for k, ph in zip(ks, [draw(fl(-3.0, 3.0)) for _ in range(N)])]
            trs.append(dict(S=draw(generic_complex_matrix(N)), lam=lam))
        else:
            th = draw(fl(0.3, 2.8))
            trs.append(dict(theta=th, scale=draw(st.sampled_from([1.0, 2.0, 0.5])),
                            S=draw(gen.wellcond_matrix(N, maxfactor=2.0))))
    return dict(n=n, shape=shape, kind=kind, trs=trs, which=draw(st.integers(0, N - 1)),
                cv=draw(st.booleans()))


def body_eig_complex(case, ctx):
    n, shape, kind = case["n"], tuple(case["shape"]), case["kind"]
    N = n + 1
    mats, lams = [], []
    for tr in case["trs"]:
        if kind == "complex":
            S = np.array([[complex(*z) for z in row] for row in tr["S"]])
            lam = np.array([complex(*z) for z in tr["lam"]])
        else:
            S = np.array(tr["S"], dtype=float)
            th, sc = tr["theta"], tr["scale"]
            lam = np.array([sc * np.exp(1j * th), sc * np.exp(-1j * th)] +
                           [1.7 ** (k + 1) for k in range(N - 2)])
            # real matrix with the rotation block: S R S^-1
        if kind == "complex":
            C = S @ np.diag(lam) @ np.linalg.inv(S)
        else:
            R = np.zeros((N, N))
            R[:2, :2] = tr["scale"] * np.array([[math.cos(th), -math.sin(th)],
                                                [math.sin(th), math.cos(th)]])
            for k in range(N - 2):
                R[2 + k, 2 + k] = 1.7 ** (k + 1)
            C = S @ R @ np.linalg.inv(S)
        mats.append(C)
        lams.append(lam)
    ctx.label("n=%d" % n, "rank=%d" % len(shape), "kind=" + kind,
              "composite" if shape else "single", "n>=2" if n >= 2 else "")
    C = np.array(mats).reshape(shape + (N, N))
    if case["cv"]:
        T = projective.Transformation(C.copy(), column_vectors=True)
    else:
        T = projective.Transformation(np.ascontiguousarray(C.swapaxes(-1, -2)))
    # the queried eigenvalue: one of transformation 0 (all transformations of a complex case
    # are given it too); for the rotation case e^{i theta} scale of transformation 0
    q = lams[0][case["which"] % N]
    if kind == "complex":
        for t in range(1, len(mats)):
            lam = lams[t].copy()
            if np.min(np.abs(lam[1:] - q)) < 0.05 * abs(q):
                # q would sit next to another eigenvalue of this unit: a nearly defective
                # matrix, whose eigenvectors no solver determines - leave the unit without q
                continue
            lam[0] = q
            S = np.array([[complex(*z) for z in row] for row in case["trs"][t]["S"]])
            mats[t] = S @ np.diag(lam) @ np.linalg.inv(S)
            lams[t] = lam
        C = np.array(mats).reshape(shape + (N, N))
        T = projective.Transformation(C.copy(), column_vectors=True)
    present = [bool(np.any(np.abs(l - q) < 1e-9 * abs(q))) for l in lams]
    if not all(present):
        ctx.label("absent-in-some-unit")
    try:
        Pt = T.eigenvector(complex(q))
    except GeometryError:
        ctx.check(not shape and not present[0], "eigenvector() raised GeometryError although "
                  "the (complex) eigenvalue is present", q=q)
        return
    V = np.asarray(Pt.proj_data)
    ctx.check(V.shape == shape + (N,), "eigenvector data shape", got=V.shape)
    for t, idx in enumerate(np.ndindex(*shape)):
        v = V[idx]
        if not present[t]:
            continue
        cond = float(np.linalg.cond(np.asarray(mats[t]))) + 1.0
        nv = float(np.linalg.norm(v))
        ctx.check(nv > 1e-8 and np.all(np.isfinite(v)), "non-degenerate eigenvector", v=v)
        lmax = float(np.max(np.abs(lams[t])))
        ctx.small("T v = lambda v for a complex eigenvalue / complex transformation",
                  (mats[t] @ v - q * v) / (1e-10 * cond * lmax * nv), 1.0, unit=t, q=q)
    # the diagonalising frame, through the library's own action
    M = T.diagonalize()
    D = np.asarray((M.inv() @ T @ M).matrix)
    for t, idx in enumerate(np.ndindex(*shape)):
        d = D[idx]
        cond = float(np.linalg.cond(np.asarray(mats[t]))) + 1.0
        off = d - np.diag(np.diag(d))
        ctx.small("M.inv() @ T @ M is diagonal (complex spectrum)", off,
                  1e-9 * cond ** 2 * float(np.max(np.abs(lams[t]))))
        # as multisets (sorting complex numbers whose real parts agree to rounding is not
        # stable): every eigenvalue is matched by a different diagonal entry
        got = list(np.diag(d))
        worst = 0.0
        for lam_k in lams[t]:
            j = int(np.argmin([abs(g - lam_k) for g in got]))
            worst = max(worst, abs(got[j] - lam_k))
            got.pop(j)
        ctx.small("its diagonal is the complex spectrum (as a multiset)", worst,
                  1e-8 * cond ** 2 * float(np.max(np.abs(lams[t]))))


def _nt_eig(labels):
    return _nt(labels) or "n=2" in labels


@st.composite
def diag_case(draw):
    n = draw(st.integers(1, 5))
    N = n + 1
    shape = draw(gen.shapes(max_rank=2))
    trs = [draw(eig_transform(N)) for _ in range(gen.prod(shape))]
    return dict(n=n, shape=shape, trs=trs, cv=draw(st.booleans()),
                return_inv=draw(st.booleans()),
                via=draw(st.sampled_from(["direct", "direct", "product", "reassigned"])))


def body_diag(case, ctx):
    n, shape = case["n"], tuple(case["shape"])
    N = n + 1
    T, C, Ss, lams = _build_T(case)
    _labels(ctx, n, shape)
    ctx.label("return_inv=%s" % case["return_inv"], "via=" + case.get("via", "direct"))
    if case["return_inv"]:
        res = T.diagonalize(return_inv=True)
        ctx.check(isinstance(res, tuple) and len(res) == 2, "return_inv=True returns a pair")
        M, Minv = res
        ctx.check(isinstance(Minv, projective.Transformation), "inverse is a Transformation")
    else:
        M = T.diagonalize()
        Minv = M.inv()
    ctx.check(isinstance(M, projective.Transformation) and M.shape == shape,
              "diagonalize returns a Transformation of the same shape",
              got=getattr(M, "shape", None))
    D = np.asarray((Minv @ T @ M).matrix)
    ctx.check(D.shape == shape + (N, N), "shape of M^-1 T M", got=D.shape)
    I = np.asarray((Minv @ M).matrix)
    for t, idx in enumerate(np.ndindex(*shape)):
        cond = np.linalg.cond(Ss[t])
        lmax = float(np.max(np.abs(lams[t])))
        tol = 1e-11 * cond ** 2 * lmax
        d = D[idx]
        off = d - np.diag(np.diag(d))
        ctx.small("M.inv() @ T @ M is diagonal", off, tol)
        ctx.close("its diagonal is the spectrum", np.sort(np.diag(d).real), np.sort(lams[t]),
                  rtol=0, atol=tol)
        ctx.small("diagonal is real", np.diag(d).imag, tol)
        ctx.close("M.inv() @ M = identity", I[idx], np.eye(N), rtol=0,
                  atol=1e-11 * cond ** 2)
        # columns of the column matrix of M are eigenvectors
        Mc = np.asarray(M.matrix)[idx].T
        ctx.check(LA.min_rel_sv(Mc) > 1e-6 / cond, "M is invertible", sv=LA.min_rel_sv(Mc))


LAWS = [
    Law("chart_roundtrip", roundtrip_case(), body_roundtrip, _nt, quick=300, thorough=1500,
        shards=(2, 6)),
    Law("outside_chart_iff_zero", outside_case(), body_outside, _nt, quick=250, thorough=1200,
        shards=(1, 4)),
    Law("pairs_and_polygons_in_charts", pair_polygon_case(), body_pair_polygon,
        lambda l: "rank=0" not in l or "x0=zero" in l, quick=250, thorough=1200,
        shards=(1, 4)),
    Law("auto_chart", auto_case(), body_auto, _nt, quick=250, thorough=1200, shards=(1, 4)),
    Law("affine_linear_map", linmap_case(), body_linmap, _nt, quick=250, thorough=1200,
        shards=(1, 4)),
    Law("affine_translation", translation_case(), body_translation, _nt, quick=250,
        thorough=1200, shards=(1, 4)),
    Law("hyperplane_coordinate_transform", hyperplane_case(), body_hyperplane,
        lambda l: "n=1" not in l, quick=250, thorough=1200, shards=(1, 4)),
    Law("intersect", intersect_case(), body_intersect, _nt, quick=150, thorough=800,
        shards=(2, 6)),
    Law("intersect_complex", intersect_complex_case(), body_intersect_complex, lambda l: True,
        quick=150, thorough=800, shards=(1, 3)),
    Law("eigenvector_complex", eig_complex_case(), body_eig_complex, lambda l: "n>=2" in l,
        quick=150, thorough=800, shards=(1, 3)),
    Law("eigenvector", eigvec_case(), body_eigvec, _nt_eig, quick=150, thorough=800,
        shards=(2, 6)),
    Law("diagonalize", diag_case(), body_diag, _nt_eig, quick=150, thorough=800,
        shards=(2, 6)),
]
