"""C18 - the indefinite linear-algebra helpers meet their stated contracts."""
import math
import numpy as np
from hypothesis import strategies as st

from ..core import Law
from .. import gen
from ..gen import fl
from ..oracles import linalg as LA

from geometry_tools import utils
from geometry_tools.base import GeometryError

RULE = ("cases: symmetric forms B = Q^T diag(+-lambda) Q of every signature (p,q), p+q in 1..6, "
        "lambda in [0.3,3] (also diagonal, +-1 and Minkowski forms); row sets R = L (F' + E F'') "
        "where F is a B-orthonormal frame (eigenframe, optionally boosted / rotated inside "
        "O(p,q), permuted), L lower triangular with |diagonal| in [0.5,2], E a perturbation with "
        "entries <= 0.15 - so every leading Gram minor is non-zero by construction; batch shapes "
        "of rank 0..2 (sides 1..3), single vectors; k = 1..n rows (k = n: nothing to complete); "
        "batches of forms of mixed signature for diagonalize_form with both orders, reverse and "
        "with_inverse; matrices U diag(s) V of prescribed rank (kernel dimension 0..n, tall, "
        "square and wide) for kernel; k+2 points at prescribed distance from a prescribed centre "
        "in R^(k+1), k = 0..4, directions = perturbed regular simplex; angle pairs in (-2pi,2pi) "
        "(short_arc) / [-pi,pi] (right_to_left, arc_include) built from a start angle and a gap "
        "that stays 1e-3 away from 0, pi and 2pi, special angles 0, +-pi/2, +-pi mixed in, batch "
        "rank 0..2 including a single pair.  non-trivial = indefinite form with >= 2 rows, or "
        "batch rank >= 1 (forms / matrices / points / angles), or dimension >= 3; distinct = "
        "distinct JSON case.")

ASSUMPTIONS = [
    "forms are non-degenerate with |eigenvalues| in [0.3,3]; row sets have all leading Gram "
    "minors non-zero (conditioning measured in the harness, tolerances scaled by it and by the "
    "Euclidean size of the returned rows)",
    "find_isometry / orthogonal_complement orthonormalise an SVD basis of an indefinite "
    "complement: results whose rows exceed 1e4 in Euclidean norm (basis vector nearly null) "
    "are counted, not asserted (orthogonal_complement documents that normalising may fail)",
    "non-zero singular values of kernel inputs are >= 1e-3, zero ones are exact up to rounding "
    "(the library's rank threshold is 1e-8)",
    "sphere points are affinely independent with measured condition number <= ~1e4",
    "angles: (-2pi,2pi) for short_arc, [-pi,pi] for right_to_left / arc_include (what "
    "circle_angles = atan2 produces); gaps keep 1e-3 from the tie values",
    "find_definite_isometry: the use made by its single caller (one 1-d vector): orthogonal, "
    "first column = +v/|v|; with force_oriented=True the same matrix up to the sign of its "
    "last row, with positive determinant",
    "float64 only",
]

CLAIM = dict(
    text=("indefinite_orthogonalize, projection, find_isometry, find_definite_isometry (1-d "
          "input), make_orientation_preserving, orthogonal_complement, diagonalize_form, kernel, "
          "sphere_through / circle_through, short_arc, right_to_left, arc_include and "
          "circle_angles meet their documented contracts on every batch shape of rank 0..2."),
    note=("exploration level; regressions: arc_include on a single pair (defect 14), kernel of "
          "a full-column-rank matrix, diagonalize_form(minkowski, reverse) on a batch"),
    technique="property-based testing (Hypothesis) against Gram / span / closed-form oracles",
)


# ---------------------------------------------------------------------------
# generators
@st.composite
def form_spec(draw, n=None, max_n=6, min_n=1):
    if n is None:
        n = draw(st.integers(min_n, max_n))
    kind = draw(st.sampled_from(["generic", "generic", "generic", "diag", "pm1", "minkowski"]))
    if kind == "minkowski":
        signs = [-1.0] + [1.0] * (n - 1)
    else:
        signs = [draw(st.sampled_from([-1.0, 1.0])) for _ in range(n)]
    if kind in ("minkowski", "pm1"):
        mags = [1.0] * n
    else:
        mags = [draw(fl(0.3, 3.0)) for _ in range(n)]
    if kind == "generic":
        Q = draw(gen.orthogonal_matrix(n))
    else:
        Q = [[1.0 if i == j else 0.0 for j in range(n)] for i in range(n)]
    return dict(kind=kind, Q=Q, lams=[s * m for s, m in zip(signs, mags)])


def build_form(fs):
    B = LA.form_from(fs["Q"], fs["lams"])
    B = (B + B.T) / 2
    F = LA.form_frame(fs["Q"], fs["lams"])
    signs = np.sign(np.array(fs["lams"], dtype=float))
    return B, F, signs


@st.composite
def rows_spec(draw, n, k):
    perm = draw(st.permutations(list(range(n))))
    L = [[0.0] * k for _ in range(k)]
    for i in range(k):
        for j in range(i):
            if draw(st.booleans()):
                L[i][j] = draw(fl(-1.0, 1.0))
        L[i][i] = draw(st.sampled_from([-1.0, 1.0])) * draw(st.one_of(fl(0.5, 2.0),
                                                                     st.just(1.0)))
    E = [[draw(fl(-0.15, 0.15)) if draw(st.booleans()) else 0.0 for _ in range(n - k)]
         for _ in range(k)]
    nb = draw(st.integers(0, 2)) if n >= 2 else 0
    boosts = []
    for _ in range(nb):
        a = draw(st.integers(0, n - 2))
        b = draw(st.integers(a + 1, n - 1))
        boosts.append([a, b, draw(fl(-1.5, 1.5))])
    return dict(perm=list(perm), L=L, E=E, boosts=boosts)


def build_rows(rs, F, signs):
    """rows (k, n), the signs of the permuted frame, a conditioning number"""
    F = F.copy()
    n = F.shape[0]
    for a, b, t in rs["boosts"]:
        fa, fb = F[a].copy(), F[b].copy()
        if signs[a] != signs[b]:      # boost: stays B-orthonormal
            F[a] = math.cosh(t) * fa + math.sinh(t) * fb
            F[b] = math.sinh(t) * fa + math.cosh(t) * fb
        else:                         # rotation
            F[a] = math.cos(t) * fa - math.sin(t) * fb
            F[b] = math.sin(t) * fa + math.cos(t) * fb
    perm = rs["perm"]
    Fp = F[perm]
    sp = signs[perm]
    L = np.array(rs["L"], dtype=float)
    k = L.shape[0]
    E = np.array(rs["E"], dtype=float).reshape(k, n - k)
    R = L @ (Fp[:k] + E @ Fp[k:])
    return R, sp


def gram_cond(R, B):
    """max condition number of the leading principal blocks of R B R^T, times the
    spread of the Euclidean row norms"""
    G = R @ B @ R.T
    c = 1.0
    for j in range(1, G.shape[0] + 1):
        c = max(c, float(np.linalg.cond(G[:j, :j])))
    return c


def pivot_signs(R, B):
    """signs of the successive Gram-Schmidt pivots = det G_j / det G_(j-1)"""
    G = R @ B @ R.T
    out, prev = [], 1.0
    for j in range(1, G.shape[0] + 1):
        d = float(np.linalg.det(G[:j, :j]))
        out.append(np.sign(d / prev))
        prev = d
    return np.array(out)


def _labels(ctx, B, shape, k=None):
    p, q = LA.signature(B)
    n = B.shape[0]
    ctx.label("n=%d" % n, "rank=%d" % len(shape), "sig=(%d,%d)" % (p, q))
    if p >= 1 and q >= 1:
        ctx.label("indefinite")
    if len(shape) >= 1:
        ctx.label("batch")
    if n >= 3:
        ctx.label("n>=3")
    if k is not None:
        ctx.label("k=%d" % k if k < n else "k=n")
        if k >= 2:
            ctx.label("k>=2")


def _nt(labels):
    L = set(labels)
    return ("indefinite" in L and "k>=2" in L) or "batch" in L


def _nt_dim(labels):
    L = set(labels)
    return "batch" in L or "n>=3" in L or "indefinite" in L


@st.composite
def rows_case(draw, kmin=1, allow_full=True, max_rank=2, vector=True):
    fs = draw(form_spec())
    n = len(fs["lams"])
    k = draw(st.integers(min(kmin, n), n if allow_full else max(n - 1, 1)))
    shape = draw(gen.shapes(max_rank=max_rank))
    rows = [draw(rows_spec(n, k)) for _ in range(gen.prod(shape))]
    return dict(form=fs, k=k, shape=shape, rows=rows,
                vector=bool(vector and k == 1 and draw(st.booleans())))


def _build(case):
    B, F, signs = build_form(case["form"])
    shape = tuple(case["shape"])
    n, k = B.shape[0], case["k"]
    Rs, sps = [], []
    for rs in case["rows"]:
        R, sp = build_rows(rs, F, signs)
        Rs.append(R)
        sps.append(sp)
    R = np.array(Rs).reshape(shape + (k, n))
    return B, F, signs, shape, n, k, R, sps


# ---------------------------------------------------------------------------
def body_orthogonalize(case, ctx):
    B, F, signs, shape, n, k, R, sps = _build(case)
    _labels(ctx, B, shape, k)
    arg = R.copy()
    if case["vector"] and not shape:
        ctx.label("single-vector")
        arg = arg[0].copy()
    O = utils.indefinite_orthogonalize(B.copy(), arg)
    ctx.check(np.shape(O) == arg.shape, "shape preserved", got=np.shape(O), want=arg.shape)
    O = np.asarray(O, dtype=float).reshape(shape + (k, n))
    for t, idx in enumerate(np.ndindex(*shape)):
        r, o = R[idx], O[idx]
        kap = gram_cond(r, B)
        size = max(1.0, float(np.sum(o * o)))
        tol = 1e-12 * kap * size
        ctx.check(np.all(np.isfinite(o)), "finite", o=o)
        G = o @ B @ o.T
        ctx.small("Gram matrix off-diagonal", G - np.diag(np.diag(G)), tol, kappa=kap)
        ctx.close("Gram matrix diagonal is +-1", np.abs(np.diag(G)), np.ones(k), rtol=0,
                  atol=tol)
        ctx.check(np.array_equal(np.sign(np.diag(G)), pivot_signs(r, B)),
                  "sign of each square-norm = sign of the Gram pivot of the input",
                  got=np.diag(G), want=pivot_signs(r, B))
        for j in range(1, k + 1):
            ctx.small("flag preserved: span of the first j rows",
                      LA.same_span_defect(o[:j], r[:j]), 1e-11 * kap, j=j)


@st.composite
def projection_case(draw):
    fs = draw(form_spec())
    n = len(fs["lams"])
    shape = draw(gen.shapes(max_rank=2))
    cnt = gen.prod(shape)
    v1 = [draw(fl(-5.0, 5.0)) for _ in range(cnt * n)]
    v2 = []
    for _ in range(cnt):
        i = draw(st.integers(0, n - 1))
        al = draw(gen.scalars_pm(0.2, 5.0))
        c = [draw(fl(-0.3, 0.3)) * abs(al) / math.sqrt(n) for _ in range(n)]
        c[i] = al
        v2.append(c)          # coefficients in the B-orthonormal frame
    return dict(form=fs, shape=shape, v1=v1, v2=v2)


def body_projection(case, ctx):
    B, F, signs = build_form(case["form"])
    shape = tuple(case["shape"])
    n = B.shape[0]
    _labels(ctx, B, shape)
    v1 = np.array(case["v1"], dtype=float).reshape(shape + (n,))
    v2 = (np.array(case["v2"], dtype=float) @ F).reshape(shape + (n,))
    w = utils.projection(v1.copy(), v2.copy(), B.copy())
    ctx.check(np.shape(w) == shape + (n,), "shape", got=np.shape(w))
    b12 = np.einsum("...i,ij,...j->...", v1, B, v2)
    b22 = np.einsum("...i,ij,...j->...", v2, B, v2)
    sc = (1.0 + float(np.max(np.abs(v1)))) * (1.0 + float(np.max(np.abs(v2)))) ** 2 * 10 / \
        float(np.min(np.abs(b22)))
    ctx.close("w = v2 <v1,v2>/<v2,v2>", w, v2 * (b12 / b22)[..., None], rtol=1e-12,
              atol=1e-13 * sc)
    ctx.small("v1 - w is B-orthogonal to v2",
              np.einsum("...i,ij,...j->...", v1 - w, B, v2), 1e-12 * sc * 10)


# ---------------------------------------------------------------------------
@st.composite
def isometry_case(draw):
    c = draw(rows_case())
    c["force_oriented"] = draw(st.booleans())
    return c


def body_find_isometry(case, ctx):
    B, F, signs, shape, n, k, R, sps = _build(case)
    _labels(ctx, B, shape, k)
    p, q = LA.signature(B)
    fo = case["force_oriented"]
    ctx.label("force_oriented=%s" % fo)
    arg = R.copy()
    if case["vector"] and not shape:
        ctx.label("single-vector")
        arg = arg[0].copy()
    M = utils.find_isometry(B.copy(), arg, force_oriented=fo)
    ctx.check(np.shape(M) == shape + (n, n), "an array of n x n matrices", got=np.shape(M),
              want=shape + (n, n))
    M = np.asarray(M, dtype=float)
    for t, idx in enumerate(np.ndindex(*shape)):
        r, m = R[idx], M[idx]
        ctx.check(np.all(np.isfinite(m)), "finite", m=m)
        kap = gram_cond(r, B)
        size = max(1.0, float(np.sum(m * m)))
        if size > 1e8:
            ctx.label("skipped:near-null-complement-basis")
            continue
        tol = 1e-12 * kap * size
        G = m @ B @ m.T
        ctx.small("M B M^T off-diagonal", G - np.diag(np.diag(G)), tol, kappa=kap)
        ctx.close("M B M^T diagonal is +-1", np.abs(np.diag(G)), np.ones(n), rtol=0, atol=tol)
        sg = np.sign(np.diag(G))
        ctx.check(int(np.sum(sg > 0)) == p and int(np.sum(sg < 0)) == q,
                  "M B M^T has the signature of B", got=np.diag(G), p=p, q=q)
        ctx.check(np.array_equal(sg[:k], pivot_signs(r, B)),
                  "leading signs are those of the given rows", got=sg[:k])
        for j in range(1, k + 1):
            ctx.small("leading rows span the given flag", LA.same_span_defect(m[:j], r[:j]),
                      1e-11 * kap, j=j)
        det = float(np.linalg.det(m))
        ctx.close("|det M| = |det B|^(-1/2)", abs(det),
                  1.0 / math.sqrt(abs(float(np.linalg.det(B)))), rtol=1e-9 * kap * size, atol=0)
        if fo:
            ctx.check(det > 0, "force_oriented => det > 0", det=det)
        if case["form"]["kind"] == "minkowski" and sps[t][0] < 0:
            ctx.label("minkowski-timelike-first")
            ctx.close("M J M^T = J for a frame starting with a timelike row", G, B, rtol=0,
                      atol=tol)


@st.composite
def definite_case(draw):
    n = draw(st.integers(1, 6))
    d = draw(gen.directions(n))
    length = draw(st.one_of(fl(0.1, 10.0), st.just(1.0)))
    return dict(n=n, v=[length * c for c in d])


def body_find_definite(case, ctx):
    n = case["n"]
    v = np.array(case["v"], dtype=float)
    ctx.label("n=%d" % n, "axis" if np.count_nonzero(v) == 1 else "generic")
    if n >= 3:
        ctx.label("n>=3")
    if v[0] < 0:
        ctx.label("first-negative")
    if v[0] == 0:
        ctx.label("first-zero")
    Q = np.asarray(utils.find_definite_isometry(v.copy()))
    ctx.check(Q.shape == (n, n), "shape", got=Q.shape)
    ctx.close("Q Q^T = I", Q @ Q.T, np.eye(n), rtol=0, atol=1e-13 * n)
    ctx.close("first column is +v/|v| (what hyperplane_coordinate_transform uses)", Q[:, 0],
              v / np.linalg.norm(v), rtol=0, atol=1e-13 * n)
    # positive determinant on request, by the documented means: a reflection of the last row
    Qo = np.asarray(utils.find_definite_isometry(v.copy(), force_oriented=True))
    ctx.check(Qo.shape == (n, n), "shape (force_oriented)", got=Qo.shape)
    ctx.close("force_oriented: Q Q^T = I", Qo @ Qo.T, np.eye(n), rtol=0, atol=1e-13 * n)
    ctx.check(np.linalg.det(Qo) > 0, "force_oriented: positive determinant",
              det=float(np.linalg.det(Qo)), n=n)
    ctx.close("force_oriented changes at most the sign of the last row", Qo[:-1], Q[:-1],
              rtol=0, atol=1e-13 * n)
    ctx.close("force_oriented changes at most the sign of the last row (the last row)",
              np.abs(Qo[-1]), np.abs(Q[-1]), rtol=0, atol=1e-13 * n)
    if np.linalg.det(Q) < 0:
        ctx.label("reflection-needed")


@st.composite
def orient_case(draw):
    n = draw(st.integers(1, 5))
    shape = draw(gen.shapes(max_rank=2))
    mats = [draw(gen.wellcond_matrix(n)) for _ in range(gen.prod(shape))]
    # (frames for forms far from the unit scale have determinants like 1e-15 or 1e9: whether a
    # matrix reverses orientation is the sign of its determinant, whatever its size)
    return dict(n=n, shape=shape, mats=mats,
                mscale=[draw(st.sampled_from([1.0, 1.0, 1.0, 1e-5, 1e3]))
                        for _ in range(gen.prod(shape))])


def body_orient(case, ctx):
    n, shape = case["n"], tuple(case["shape"])
    A = np.array(case["mats"], dtype=float).reshape(shape + (n, n))
    A = A * np.array(case.get("mscale") or [1.0] * gen.prod(shape)).reshape(shape + (1, 1))
    ctx.label("n=%d" % n, "rank=%d" % len(shape), "batch" if shape else "", "n>=3" if n >= 3
              else "")
    A0 = A.copy()
    P = utils.make_orientation_preserving(A)
    ctx.check(np.array_equal(A, A0), "argument not modified")
    ctx.check(np.shape(P) == A.shape, "shape", got=np.shape(P))
    dets = np.linalg.det(A0)
    for idx in np.ndindex(*shape):
        d = float(dets[idx])
        ctx.label("det<0" if d < 0 else "det>0")
        want = A0[idx].copy()
        if d < 0:
            want[-1] *= -1
        ctx.check(np.array_equal(P[idx], want),
                  "last row negated exactly for the orientation-reversing matrices", got=P[idx],
                  want=want)
        ctx.check(np.linalg.det(P[idx]) > 0, "result preserves orientation")


# ---------------------------------------------------------------------------
@st.composite
def complement_case(draw):
    c = draw(rows_case(vector=False))
    c["use_form"] = draw(st.sampled_from([True, True, False]))
    c["normalize"] = draw(st.sampled_from(["form", "form", "euclidean", None, "default"]))
    if not c["use_form"]:
        n = len(c["form"]["lams"])
        c["form"] = dict(kind="euclid", Q=[[1.0 if i == j else 0.0 for j in range(n)]
                                           for i in range(n)], lams=[1.0] * n)
    return c


def body_complement(case, ctx):
    B, F, signs, shape, n, k, R, sps = _build(case)
    _labels(ctx, B, shape, k)
    p, q = LA.signature(B)
    norm = case["normalize"]
    ctx.label("normalize=%s" % norm, "form=given" if case["use_form"] else "form=None")
    kw = {}
    if norm != "default":
        kw["normalize"] = norm
    if case["use_form"]:
        C = utils.orthogonal_complement(R.copy(), B.copy(), **kw)
    else:
        C = utils.orthogonal_complement(R.copy(), **kw)
    ctx.check(np.shape(C) == shape + (n - k, n), "n-k row vectors", got=np.shape(C),
              want=shape + (n - k, n))
    C = np.asarray(C, dtype=float)
    if k == n:
        return
    for t, idx in enumerate(np.ndindex(*shape)):
        r, c = R[idx], C[idx]
        ctx.check(np.all(np.isfinite(c)), "finite", c=c)
        size = max(1.0, float(np.sum(c * c)))
        rs = float(np.max(np.abs(r)))
        piv = pivot_signs(r, B)
        cp, cq = p - int(np.sum(piv > 0)), q - int(np.sum(piv < 0))   # complement signature
        if norm in ("form", "default") and cp >= 1 and cq >= 1:
            ctx.label("indefinite-complement")
            if size > 1e8:
                ctx.label("skipped:near-null-complement-basis")
                continue
        ctx.small("complement is B-orthogonal to the given rows", c @ B @ r.T,
                  1e-12 * math.sqrt(size) * rs * 10)
        ctx.check(LA.min_rel_sv(c) > 1e-9 / math.sqrt(size) and LA.rank(c, 1e-10) == n - k,
                  "n-k independent rows", sv=LA.min_rel_sv(c))
        if norm in ("form", "default"):
            G = c @ B @ c.T
            tol = 1e-12 * size * 10
            ctx.small("normalize='form': complement rows mutually B-orthogonal",
                      G - np.diag(np.diag(G)), tol)
            ctx.close("normalize='form': square-norms +-1", np.abs(np.diag(G)), np.ones(n - k),
                      rtol=0, atol=tol)
            sg = np.sign(np.diag(G))
            ctx.check(int(np.sum(sg > 0)) == cp and int(np.sum(sg < 0)) == cq,
                      "signature of the complement", got=np.diag(G), want=(cp, cq))
        elif norm == "euclidean":
            ctx.close("normalize='euclidean': unit Euclidean length",
                      np.sqrt(np.sum(c * c, axis=-1)), np.ones(n - k), rtol=0, atol=1e-12)


# ---------------------------------------------------------------------------
@st.composite
def diagform_case(draw):
    n = draw(st.integers(1, 6))
    shape = draw(gen.shapes(max_rank=2))
    forms = [draw(form_spec(n=n)) for _ in range(gen.prod(shape))]
    return dict(n=n, shape=shape, forms=forms,
                order=draw(st.sampled_from(["signed", "minkowski", "minkowski", "default",
                                            "none"])),
                reverse=draw(st.booleans()), with_inverse=draw(st.sampled_from([True, True,
                                                                                False])))


def _expected_orders(p, q, order, reverse):
    """list of admissible sign sequences"""
    neg_first = [-1.0] * q + [1.0] * p
    pos_first = [1.0] * p + [-1.0] * q
    if order in ("signed", "default"):
        outs = [neg_first]
    elif p < q:
        outs = [pos_first]
    elif q < p:
        outs = [neg_first]
    else:
        outs = [neg_first, pos_first]      # tie: docstring and code disagree; grouped only
    if reverse:
        outs = [o[::-1] for o in outs]
    return outs


def body_diagform(case, ctx):
    n, shape = case["n"], tuple(case["shape"])
    Bs = np.array([build_form(f)[0] for f in case["forms"]]).reshape(shape + (n, n))
    order, rev, winv = case["order"], case["reverse"], case["with_inverse"]
    ctx.label("n=%d" % n, "rank=%d" % len(shape), "order=" + order, "reverse=%s" % rev,
              "with_inverse=%s" % winv, "batch" if shape else "", "n>=3" if n >= 3 else "")
    kw = dict(reverse=rev, with_inverse=winv)
    if order == "none":       # no reordering: the reading find_isometry relies on
        kw["order_eigenvalues"] = None
    elif order != "default":
        kw["order_eigenvalues"] = order
    res = utils.diagonalize_form(Bs.copy(), **kw)
    if winv:
        ctx.check(isinstance(res, tuple) and len(res) == 2, "returns (W, Winv)")
        W, Wi = res
    else:
        W, Wi = res, None
    ctx.check(np.shape(W) == shape + (n, n), "shape of W", got=np.shape(W))
    sigs = set()
    for idx in np.ndindex(*shape):
        b, w = Bs[idx], np.asarray(W)[idx]
        p, q = LA.signature(b)
        sigs.add((p, q))
        if p >= 1 and q >= 1:
            ctx.label("indefinite")
        if p == q:
            ctx.label("tie")
        D = w.T @ b @ w
        tol = 1e-12 * n * 10
        ctx.small("W^T B W off-diagonal", D - np.diag(np.diag(D)), tol)
        ctx.close("W^T B W diagonal +-1", np.abs(np.diag(D)), np.ones(n), rtol=0, atol=tol)
        sg = [float(s) for s in np.sign(np.diag(D))]
        if order == "none":
            ctx.check(sg.count(1.0) == p and sg.count(-1.0) == q, "signature of B", got=sg)
        else:
            ctx.check(sg in _expected_orders(p, q, order, rev),
                      "diagonal signs in the documented order", got=sg, p=p, q=q,
                      order=order, reverse=rev)
        if Wi is not None:
            ctx.close("W Winv = I", w @ np.asarray(Wi)[idx], np.eye(n), rtol=0, atol=tol)
            ctx.close("Winv W = I", np.asarray(Wi)[idx] @ w, np.eye(n), rtol=0, atol=tol)
        # unit loop
        ures = utils.diagonalize_form(b.copy(), **kw)
        uw = ures[0] if winv else ures
        ctx.close("batch entry equals the call on the single form", w, uw, rtol=0, atol=1e-12)
        if winv:
            ctx.close("batch inverse equals the call on the single form",
                      np.asarray(Wi)[idx], ures[1], rtol=0, atol=1e-12)
    if len(sigs) > 1:
        ctx.label("mixed-signatures-in-batch")
    # a caller's work array: diagonalised, then overwritten in place with another form (its
    # negative, rotated by swapping the first two axes of R^n), then diagonalised again
    work = Bs.copy()
    utils.diagonalize_form(work, **kw)
    new = -Bs
    if n >= 2:
        new = new[..., [1, 0] + list(range(2, n)), :][..., :, [1, 0] + list(range(2, n))]
    work[...] = new
    res2 = utils.diagonalize_form(work, **kw)
    W2 = np.asarray(res2[0] if winv else res2)
    for idx in np.ndindex(*shape):
        D2 = W2[idx].T @ new[idx] @ W2[idx]
        ctx.small("a form array overwritten in place: W^T B W off-diagonal for the CURRENT "
                  "form", D2 - np.diag(np.diag(D2)), 1e-11 * n)
        ctx.close("a form array overwritten in place: W^T B W diagonal +-1",
                  np.abs(np.diag(D2)), np.ones(n), rtol=0, atol=1e-11 * n)
        if winv:
            ctx.close("a form array overwritten in place: W Winv = I",
                      W2[idx] @ np.asarray(res2[1])[idx], np.eye(n), rtol=0, atol=1e-11 * n)


@st.composite
def permute_case(draw):
    n = draw(st.integers(1, 5))
    m = draw(st.integers(1, 4))
    shape = draw(gen.shapes(max_rank=2))
    cnt = gen.prod(shape)
    axis = draw(st.sampled_from([-1, -2]))
    side = n
    other = m
    mats = [draw(st.integers(-50, 50)) for _ in range(cnt * n * m)]
    perms = [list(draw(st.permutations(list(range(side))))) for _ in range(cnt)]
    return dict(n=n, m=m, shape=shape, axis=axis, mats=mats, perms=perms,
                diag=[draw(st.integers(-9, 9)) for _ in range(cnt * n)])


def body_permute(case, ctx):
    n, m, shape, axis = case["n"], case["m"], tuple(case["shape"]), case["axis"]
    msh = (m, n) if axis == -1 else (n, m)
    A = np.array(case["mats"], dtype=float).reshape(shape + msh)
    P = np.array(case["perms"], dtype=int).reshape(shape + (n,))
    ctx.label("n=%d" % n, "axis=%d" % axis, "rank=%d" % len(shape), "batch" if shape else "",
              "n>=3" if n >= 3 else "")
    got = utils.permute_along_axis(A.copy(), P.copy(), axis, inverse=True)
    ctx.check(np.shape(got) == A.shape, "shape", got=np.shape(got))
    for idx in np.ndindex(*shape):
        a, p = A[idx], P[idx]
        want = a[:, p] if axis == -1 else a[p, :]
        ctx.check(np.array_equal(got[idx], want),
                  "inverse=True: entry i along the axis is entry perm[i] of the input "
                  "(the reading diagonalize_form relies on)", got=got[idx], want=want)
    d = np.array(case["diag"], dtype=float).reshape(shape + (n,))
    Dg = utils.construct_diagonal(d.copy())
    ctx.check(np.shape(Dg) == shape + (n, n), "construct_diagonal shape", got=np.shape(Dg))
    for idx in np.ndindex(*shape):
        ctx.check(np.array_equal(Dg[idx], np.diag(d[idx])), "construct_diagonal = diag",
                  got=Dg[idx])


# ---------------------------------------------------------------------------
@st.composite
def kernel_case(draw):
    n = draw(st.integers(1, 6))
    d = draw(st.integers(0, n))          # kernel dimension
    r = n - d
    m = draw(st.integers(max(r, 1), r + 2))
    shape = draw(gen.shapes(max_rank=2))
    mats = []
    for _ in range(gen.prod(shape)):
        mats.append(dict(U=draw(gen.orthogonal_matrix(m)), V=draw(gen.orthogonal_matrix(n)),
                         s=[draw(st.one_of(fl(0.3, 3.0), fl(1e-3, 1.0))) for _ in range(r)]))
    return dict(n=n, d=d, m=m, shape=shape, mats=mats)


def body_kernel(case, ctx):
    n, d, m, shape = case["n"], case["d"], case["m"], tuple(case["shape"])
    r = n - d
    As, Ks = [], []
    for sp in case["mats"]:
        U = np.array(sp["U"], dtype=float)
        V = np.array(sp["V"], dtype=float)
        s = np.array(sp["s"], dtype=float)
        As.append((U[:, :r] * s[None, :]) @ V[:r, :])
        Ks.append(V[r:, :])
    A = np.array(As).reshape(shape + (m, n))
    ctx.label("n=%d" % n, "rank=%d" % len(shape), "kernel-dim=%s" % (
        "0" if d == 0 else "n" if d == n else "mid"),
        "tall" if m > n else "square" if m == n else "wide", "batch" if shape else "",
        "n>=3" if n >= 3 else "")
    K = utils.kernel(A.copy())
    ctx.check(np.shape(K) == shape + (n, d), "kernel basis has n - rank columns",
              got=np.shape(K), want=shape + (n, d))
    K = np.asarray(K, dtype=float)
    if d == 0:
        return
    for t, idx in enumerate(np.ndindex(*shape)):
        a, kk = A[idx], K[idx]
        ctx.small("A K = 0", a @ kk, 1e-12 * 10)
        ctx.close("K^T K = I", kk.T @ kk, np.eye(d), rtol=0, atol=1e-12)
        smin = float(np.min(case["mats"][t]["s"])) if r else 1.0
        ctx.small("spans the kernel known by construction",
                  LA.same_span_defect(kk.T, Ks[t]), 1e-12 / smin)


@st.composite
def kernel_mixed_case(draw):
    """a batch whose matrices have different ranks (the documented matching_rank=False route)"""
    n = draw(st.integers(2, 5))
    m = draw(st.integers(n, n + 1))
    k = draw(st.integers(2, 4))
    mats = []
    for _ in range(k):
        d = draw(st.integers(0, n))
        mats.append(dict(d=d, U=draw(gen.orthogonal_matrix(m)), V=draw(gen.orthogonal_matrix(n)),
                         s=[draw(fl(0.3, 3.0)) for _ in range(n - d)]))
    return dict(n=n, m=m, mats=mats, opts=draw(st.sampled_from(["dims+loc", "dims", "loc",
                                                               "plain"])))


def body_kernel_mixed(case, ctx):
    from geometry_tools.utils import numerical
    n, m = case["n"], case["m"]
    As, ds = [], []
    for sp in case["mats"]:
        r = n - sp["d"]
        U, V = np.array(sp["U"], dtype=float), np.array(sp["V"], dtype=float)
        As.append((U[:, :r] * np.array(sp["s"], dtype=float)[None, :]) @ V[:r, :])
        ds.append(sp["d"])
    A = np.array(As)
    distinct = sorted(set(ds))
    ctx.label("n=%d" % n, "n>=3" if n >= 3 else "", "batch", "opts=" + case["opts"],
              "ranks-differ" if len(distinct) > 1 else "ranks-equal")
    if len(distinct) > 1:
        try:
            utils.kernel(A.copy())
            ctx.fail("kernel() of a batch of matrices of different rank must raise ValueError "
                     "(one array cannot hold bases of different dimension)", dims=ds)
        except ValueError:
            pass
    kw = dict(matching_rank=False, with_dimensions=case["opts"] in ("dims+loc", "dims"),
              with_loc=case["opts"] in ("dims+loc", "loc"))
    res = numerical.svd_kernel(A.copy(), **kw)
    if case["opts"] == "plain":
        bases, dims, locs = res, None, None
    elif case["opts"] == "dims":
        dims, bases = res
        locs = None
    elif case["opts"] == "loc":
        bases, locs = res
        dims = None
    else:
        dims, bases, locs = res
    ctx.check(len(bases) == len(distinct), "one group of bases per kernel dimension",
              got=len(bases), want=len(distinct))
    if dims is not None:
        ctx.check(list(np.asarray(dims)) == distinct, "reported kernel dimensions (ascending)",
                  got=list(np.asarray(dims)), want=distinct)
    for gi, dd in enumerate(distinct):
        members = [i for i, x in enumerate(ds) if x == dd]
        K = np.asarray(bases[gi], dtype=float)
        ctx.check(K.shape == (len(members), n, dd), "shape of the group of bases", got=K.shape,
                  want=(len(members), n, dd))
        if locs is not None:
            ctx.check(list(np.nonzero(np.asarray(locs[gi]))[0]) == members, "location mask of "
                      "the group", got=np.asarray(locs[gi]).tolist(), want=members)
        for j, i in enumerate(members):
            if dd == 0:
                continue
            ctx.small("A K = 0 (mixed-rank batch)", A[i] @ K[j], 1e-11)
            ctx.close("K^T K = I (mixed-rank batch)", K[j].T @ K[j], np.eye(dd), rtol=0,
                      atol=1e-12)


@st.composite
def kernel_complex_case(draw):
    n = draw(st.integers(2, 5))
    d = draw(st.integers(1, n - 1))
    r = n - d
    m = draw(st.integers(r, r + 1))
    return dict(n=n, d=d, m=m, U=draw(gen.orthogonal_matrix(m)),
                V1=draw(gen.orthogonal_matrix(n)), V2=draw(gen.orthogonal_matrix(n)),
                ph=[draw(fl(-math.pi, math.pi)) for _ in range(n)],
                s=[draw(fl(0.3, 3.0)) for _ in range(r)],
                batch=draw(st.booleans()))


def body_kernel_complex(case, ctx):
    """the projective module is documented for real or complex fields: the kernel of a
    complex matrix must be annihilated by it (A K = 0, not A conj(K) = 0)"""
    n, d, m = case["n"], case["d"], case["m"]
    r = n - d
    ph = np.exp(1j * np.array(case["ph"]))
    V = np.array(case["V1"]) @ np.diag(ph) @ np.array(case["V2"])      # unitary
    U = np.array(case["U"], dtype=float)
    A = (U[:, :r] * np.array(case["s"])[None, :]) @ V[:r, :]
    Ktrue = np.conj(V[r:, :])          # rows spanning ker A  (A conj(V[r:]).T = 0)
    ctx.label("complex", "n=%d" % n, "n>=3" if n >= 3 else "", "batch" if case["batch"] else "")
    ctx.small("harness: constructed kernel is a kernel", A @ Ktrue.T, 1e-12)
    arg = np.stack([A, A * (0.5 + 0.5j)]) if case["batch"] else A
    K = np.asarray(utils.kernel(arg.copy()))
    want_shape = ((2,) if case["batch"] else ()) + (n, d)
    ctx.check(K.shape == want_shape, "complex kernel shape", got=K.shape, want=want_shape)
    for kk in (K if case["batch"] else [K]):
        ctx.small("A K = 0 for a complex matrix", A @ kk, 1e-11)
        ctx.close("K^H K = I", np.conj(kk.T) @ kk, np.eye(d), rtol=0, atol=1e-12)


# ---------------------------------------------------------------------------
def simplex_dirs(D):
    """D+1 unit vectors in R^D forming a regular simplex"""
    E = np.eye(D + 1) - 1.0 / (D + 1)
    # the D+1 rows lie in the hyperplane sum = 0 of R^(D+1); express them in a basis of it
    Qb, _ = LA.row_basis(E)
    X = E @ Qb.T
    return X / np.linalg.norm(X, axis=-1, keepdims=True)


@st.composite
def sphere_case(draw, circle=False):
    D = 2 if circle else draw(st.integers(1, 5))
    shape = draw(gen.shapes(max_rank=2))
    sph = []
    for _ in range(gen.prod(shape)):
        # the centre: near the origin, or far from it compared with the radius (the points
        # then agree in their leading digits - a fit in coordinates relative to one of the
        # points keeps full accuracy there)
        far = draw(st.sampled_from([1.0, 1.0, 1.0, 1e3, 1e5]))
        sph.append(dict(c=[far * draw(fl(-5.0, 5.0)) for _ in range(D)],
                        # ordinary radii, and now and then a very small or a very large one
                        r=draw(st.one_of(fl(0.1, 10.0), fl(0.1, 10.0), st.just(1.0),
                                         st.sampled_from([1e-5, 3e-7, 1e4]))),
                        Q=draw(gen.orthogonal_matrix(D)),
                        noise=[draw(fl(-0.25, 0.25)) for _ in range((D + 1) * D)]))
    return dict(D=D, shape=shape, sph=sph, how=draw(st.sampled_from(["sphere", "circle"]))
                if circle else "sphere")


def body_sphere(case, ctx):
    D, shape = case["D"], tuple(case["shape"])
    base = simplex_dirs(D)
    P, Cs, Rs, conds = [], [], [], []
    for sp in case["sph"]:
        dirs = base @ np.array(sp["Q"], dtype=float) + \
            np.array(sp["noise"], dtype=float).reshape(D + 1, D)
        dirs = dirs / np.linalg.norm(dirs, axis=-1, keepdims=True)
        c = np.array(sp["c"], dtype=float)
        P.append(c + sp["r"] * dirs)
        Cs.append(c)
        Rs.append(sp["r"])
        conds.append(float(np.linalg.cond(dirs[1:] - dirs[0])))
    P = np.array(P).reshape(shape + (D + 1, D))
    ctx.label("D=%d" % D, "rank=%d" % len(shape), "batch" if shape else "",
              "n>=3" if D >= 3 else "", "via=" + case["how"])
    if case["how"] == "circle":
        c, r = utils.circle_through(P[..., 0, :].copy(), P[..., 1, :].copy(),
                                    P[..., 2, :].copy())
    else:
        c, r = utils.sphere_through(P.copy())
    ctx.check(np.shape(c) == shape + (D,) and np.shape(r) == shape, "shapes of (center, radius)",
              c=np.shape(c), r=np.shape(r))
    c = np.asarray(c, dtype=float)
    r = np.asarray(r, dtype=float)
    for t, idx in enumerate(np.ndindex(*shape)):
        sc = (np.linalg.norm(Cs[t]) + Rs[t]) * conds[t]
        dist = np.linalg.norm(P[idx] - c[idx], axis=-1)
        ctx.check(r[idx] > 0, "positive radius", r=r[idx])
        ctx.close("every point is at distance r from the centre", dist,
                  np.full(D + 1, r[idx]), rtol=0, atol=1e-12 * sc, cond=conds[t])
        ctx.close("centre", c[idx], Cs[t], rtol=0, atol=1e-12 * sc)
        ctx.close("radius", r[idx], Rs[t], rtol=0, atol=1e-12 * sc)
    if D >= 2 and not shape:
        try:
            utils.sphere_through(P[:-1].copy())
        except GeometryError:
            ctx.label("wrong-count-rejected")
        else:
            ctx.fail("k+1 points in R^(k+1) do not determine a sphere: GeometryError expected")


@st.composite
def lattice_sphere_case(draw):
    """D+1 lattice points whose difference matrix is lower triangular with a non-zero
    diagonal (general position by construction), in integer packagings"""
    D = draw(st.integers(1, 4))
    p0 = [draw(st.integers(-4, 4)) for _ in range(D)]
    pts = [list(p0)]
    for i in range(D):
        row = [draw(st.integers(-3, 3)) if j < i else 0 for j in range(D)]
        row[i] = draw(st.sampled_from([-4, -3, -2, -1, 1, 2, 3, 4]))
        pts.append([a + b for a, b in zip(p0, row)])
    order = draw(st.permutations(list(range(D + 1))))
    return dict(D=D, pts=[pts[i] for i in order],
                # (ndarrays only: the helper is documented for ndarray input and reads points.shape)
                how=draw(st.sampled_from(["int64", "int32", "float"])),
                batch=draw(st.booleans()))


def body_lattice_sphere(case, ctx):
    D = case["D"]
    P = np.array(case["pts"], dtype=float)
    ctx.label("D=%d" % D, "how=" + case["how"], "n>=3" if D >= 3 else "",
              "batch" if case["batch"] else "")
    arg = {"int64": lambda: P.astype(np.int64), "int32": lambda: P.astype(np.int32),
           "list": lambda: P.astype(int).tolist(), "float": lambda: P.copy()}[case["how"]]()
    if case["batch"]:
        arg = np.stack([np.asarray(arg), np.asarray(arg)[::-1]]) if case["how"] != "list" else \
            [arg, arg[::-1]]
    c, r = utils.sphere_through(arg)
    c, r = np.asarray(c, dtype=float), np.asarray(r, dtype=float)
    want_c = np.linalg.solve(2 * (P[1:] - P[0]), np.sum(P[1:] ** 2, axis=-1) - np.sum(P[0] ** 2))
    want_r = np.linalg.norm(P[0] - want_c)
    cond = float(np.linalg.cond(P[1:] - P[0]))
    for cc, rr in (zip(c, r) if case["batch"] else [(c, r)]):
        ctx.check(rr > 0, "positive radius", r=rr)
        ctx.close("every lattice point is at distance r from the centre",
                  np.linalg.norm(P - cc, axis=-1), np.full(D + 1, rr), rtol=0,
                  atol=1e-11 * cond * (1 + want_r))
        ctx.close("centre of the sphere through lattice points", cc, want_c, rtol=0,
                  atol=1e-11 * cond * (1 + want_r))
    if D == 2 and not case["batch"]:
        a = np.asarray(arg)
        c2, r2 = utils.circle_through(a[0], a[1], a[2])
        ctx.close("circle_through lattice points: centre", np.asarray(c2, dtype=float), want_c,
                  rtol=0, atol=1e-11 * cond * (1 + want_r))
        ctx.close("circle_through lattice points: radius", float(r2), want_r, rtol=0,
                  atol=1e-11 * cond * (1 + want_r))


# ---------------------------------------------------------------------------
SPECIAL_ANGLES = [0.0, math.pi / 2, -math.pi / 2, math.pi, -math.pi, math.pi / 4]
MARGIN = 1e-3


@st.composite
def angle_in(draw, lo, hi, open_=False):
    a = draw(st.one_of(fl(lo, hi), st.sampled_from(SPECIAL_ANGLES)))
    if open_ and (a <= lo or a >= hi):
        a = 0.0
    return a


def wrap_into(x, lo, hi, choice):
    """a representative of x modulo 2pi inside [lo, hi] (the `choice`-th of them)"""
    reps = []
    k0 = math.floor((lo - x) / (2 * math.pi)) - 1
    for k in range(k0, k0 + 5):
        y = x + 2 * math.pi * k
        if lo <= y <= hi:
            reps.append(y)
    return reps[choice % len(reps)]


@st.composite
def gap(draw, avoid_pi):
    """counter-clockwise gap in (0, 2pi), MARGIN away from 0, 2pi (and pi)"""
    if avoid_pi:
        if draw(st.booleans()):
            return draw(st.one_of(fl(MARGIN, math.pi - MARGIN),
                                  st.sampled_from([MARGIN, math.pi / 2, math.pi - MARGIN])))
        return draw(st.one_of(fl(math.pi + MARGIN, 2 * math.pi - MARGIN),
                              st.sampled_from([math.pi + MARGIN, 1.5 * math.pi,
                                               2 * math.pi - MARGIN])))
    return draw(st.one_of(fl(MARGIN, 2 * math.pi - MARGIN),
                          st.sampled_from([math.pi, math.pi / 2, 1.5 * math.pi])))


@st.composite
def arc_case(draw, which):
    shape = draw(gen.shapes(max_rank=2))
    wide = (which == "short_arc")
    lo, hi = (-2 * math.pi + 1e-9, 2 * math.pi - 1e-9) if wide else (-math.pi, math.pi)
    pairs, refs = [], []
    for _ in range(gen.prod(shape)):
        a = draw(angle_in(lo, hi))
        g = draw(gap(avoid_pi=wide))
        b = wrap_into(a + g, lo, hi, draw(st.integers(0, 3)))
        if which == "arc_include":
            # the reference splits the circle: it lies strictly inside one of the two arcs
            if draw(st.booleans()):
                t = draw(fl(0.0, 1.0))
                ref = a + MARGIN + t * max(g - 2 * MARGIN, 0.0) if g > 2 * MARGIN else None
            else:
                t = draw(fl(0.0, 1.0))
                h = 2 * math.pi - g
                ref = a + g + MARGIN + t * max(h - 2 * MARGIN, 0.0) if h > 2 * MARGIN else None
            if ref is None:
                ref = a + g / 2
            refs.append(wrap_into(ref, lo, hi, 0))
        if draw(st.booleans()):
            a, b = b, a
        pairs.append([a, b])
    return dict(shape=shape, pairs=pairs, refs=refs,
                scalar_ref=draw(st.sampled_from(["float", "np0d"])))


def _perm_of(out, inp, tol):
    same = (LA.circ_dist(out[..., 0], inp[..., 0]) <= tol) & \
        (LA.circ_dist(out[..., 1], inp[..., 1]) <= tol)
    swap = (LA.circ_dist(out[..., 0], inp[..., 1]) <= tol) & \
        (LA.circ_dist(out[..., 1], inp[..., 0]) <= tol)
    return same, swap


def _arc_labels(ctx, shape):
    ctx.label("rank=%d" % len(shape), "batch" if shape else "single-pair")


def body_short_arc(case, ctx):
    shape = tuple(case["shape"])
    th = np.array(case["pairs"], dtype=float).reshape(shape + (2,))
    _arc_labels(ctx, shape)
    out = np.asarray(utils.short_arc(th.copy()))
    ctx.check(out.shape == th.shape, "shape", got=out.shape)
    same, swap = _perm_of(out, th, 1e-12)
    ctx.check(np.all(same | swap), "output is the input pair modulo 2 pi, possibly swapped",
              out=out, inp=th)
    arc = LA.ccw(out[..., 0], out[..., 1])
    ctx.check(np.all(arc < math.pi), "counter-clockwise arc from out[0] to out[1] is the "
              "short one", arc=arc, out=out, inp=th)
    ctx.label("swapped" if np.any(swap & ~same) else "", "kept" if np.any(same) else "")
    if np.any(th < 0):
        ctx.label("negative-angles")
    if np.any(np.abs(th) > math.pi):
        ctx.label("beyond-pi")


def body_right_to_left(case, ctx):
    shape = tuple(case["shape"])
    th = np.array(case["pairs"], dtype=float).reshape(shape + (2,))
    _arc_labels(ctx, shape)
    out = np.asarray(utils.right_to_left(th.copy()))
    ctx.check(out.shape == th.shape, "shape", got=out.shape)
    same = np.all(out == th, axis=-1)
    swap = np.all(out == th[..., ::-1], axis=-1)
    ctx.check(np.all(same | swap), "output is the input pair, possibly swapped", out=out,
              inp=th)
    c = np.cos(out)
    ctx.check(np.all(c[..., 1] <= c[..., 0]), "cos(out[1]) <= cos(out[0])", out=out)
    distinct = np.abs(np.cos(th[..., 0]) - np.cos(th[..., 1])) > 1e-9
    ctx.label("swapped" if np.any(swap & ~same) else "", "kept" if np.any(same & ~swap) else "")
    # already ordered pairs are left alone
    ordered = np.cos(th[..., 1]) <= np.cos(th[..., 0])
    ctx.check(np.all(same[ordered & distinct]), "an ordered pair is returned unchanged")


def body_arc_include(case, ctx):
    shape = tuple(case["shape"])
    th = np.array(case["pairs"], dtype=float).reshape(shape + (2,))
    ref = np.array(case["refs"], dtype=float).reshape(shape)
    _arc_labels(ctx, shape)
    if shape:
        rarg = ref.copy()
    elif case["scalar_ref"] == "float":
        rarg = float(ref)
        ctx.label("ref=float")
    else:
        rarg = np.array(float(ref))
        ctx.label("ref=np0d")
    out = np.asarray(utils.arc_include(th.copy(), rarg))
    ctx.check(out.shape == th.shape, "shape", got=out.shape)
    same = np.all(out == th, axis=-1)
    swap = np.all(out == th[..., ::-1], axis=-1)
    ctx.check(np.all(same | swap), "output is the input pair, possibly swapped", out=out,
              inp=th)
    to_ref = LA.ccw(out[..., 0], ref)
    to_end = LA.ccw(out[..., 0], out[..., 1])
    ctx.check(np.all(to_ref < to_end), "the reference angle lies on the counter-clockwise arc "
              "from out[0] to out[1]", out=out, ref=ref, inp=th)
    ctx.label("swapped" if np.any(swap & ~same) else "", "kept" if np.any(same & ~swap) else "")


@st.composite
def circle_angles_case(draw):
    shape = draw(gen.shapes(max_rank=2))
    k = draw(st.integers(1, 3))
    cnt = gen.prod(shape)
    v = st.one_of(fl(-10.0, 10.0), st.sampled_from([0.0, 1.0, -1.0]))
    return dict(shape=shape, k=k, centers=[draw(v) for _ in range(cnt * 2)],
                offs=[draw(v) for _ in range(cnt * k * 2)])


def body_circle_angles(case, ctx):
    shape, k = tuple(case["shape"]), case["k"]
    c = np.array(case["centers"], dtype=float).reshape(shape + (2,))
    off = np.array(case["offs"], dtype=float).reshape(shape + (k, 2))
    pts = c[..., None, :] + off
    _arc_labels(ctx, shape)
    c_arg, pts_arg = c.copy(), pts.copy()
    got = np.asarray(utils.circle_angles(c_arg, pts_arg))
    ctx.check(got.shape == shape + (k,), "shape", got=got.shape)
    # a helper that returns angles: the caller's centres and points are what they were, so
    # the ordering helpers can be asked about the same arrays afterwards
    ctx.check(np.array_equal(c_arg, c) and np.array_equal(pts_arg, pts),
              "circle_angles leaves the caller's arrays unchanged")
    ctx.close("circle_angles asked twice about the same arrays", np.asarray(
        utils.circle_angles(c_arg, pts_arg)), got, rtol=0, atol=0)
    # lattice points in integer-typed arrays
    ci, pi_ = np.rint(c).astype(np.int64), np.rint(pts).astype(np.int64)
    di = pi_ - ci[..., None, :]
    if np.all(np.any(di != 0, axis=-1)):
        ctx.label("integer-typed-arrays")
        ctx.close("circle_angles of integer-typed centres and points",
                  np.asarray(utils.circle_angles(ci.copy(), pi_.copy()), dtype=float),
                  np.vectorize(math.atan2)(di[..., 1], di[..., 0]).reshape(shape + (k,)),
                  rtol=0, atol=1e-15)
    d = pts - c[..., None, :]
    want = np.vectorize(math.atan2)(d[..., 1], d[..., 0]).reshape(shape + (k,))
    ctx.close("angle = atan2(y - cy, x - cx)", got, want, rtol=0, atol=1e-15)
    ctx.check(np.all((got >= -math.pi) & (got <= math.pi)), "angles in [-pi, pi]")
    if np.any((d[..., 1] == 0) & (d[..., 0] < 0)):
        ctx.label("angle=pi")


def _nt_arc(labels):
    return True


LAWS = [
    Law("indefinite_orthogonalize", rows_case(), body_orthogonalize, _nt, quick=200,
        thorough=2000, shards=(2, 6)),
    Law("projection", projection_case(), body_projection, _nt_dim, quick=150, thorough=1500,
        shards=(1, 2)),
    Law("find_isometry", isometry_case(), body_find_isometry, _nt, quick=200, thorough=2000,
        shards=(2, 6)),
    Law("find_definite_isometry", definite_case(), body_find_definite,
        lambda l: "n>=3" in l or "first-negative" in l, quick=150, thorough=1500, shards=(1, 2)),
    Law("make_orientation_preserving", orient_case(), body_orient, _nt_dim, quick=100,
        thorough=1000, shards=(1, 2)),
    Law("orthogonal_complement", complement_case(), body_complement, _nt, quick=200,
        thorough=2000, shards=(2, 6)),
    Law("diagonalize_form", diagform_case(), body_diagform, _nt_dim, quick=200, thorough=2000,
        shards=(2, 6)),
    Law("permute_along_axis_construct_diagonal", permute_case(), body_permute, _nt_dim,
        quick=100, thorough=1000, shards=(1, 2)),
    Law("kernel", kernel_case(), body_kernel, _nt_dim, quick=200, thorough=2000,
        shards=(1, 4)),
    Law("kernel_mixed_rank_batch", kernel_mixed_case(), body_kernel_mixed, _nt_dim, quick=150,
        thorough=1200, shards=(1, 3)),
    Law("kernel_complex", kernel_complex_case(), body_kernel_complex, lambda l: True, quick=150,
        thorough=1000, shards=(1, 2)),
    Law("sphere_through", sphere_case(), body_sphere, _nt_dim, quick=150, thorough=1500,
        shards=(1, 4)),
    Law("sphere_through_lattice_points", lattice_sphere_case(), body_lattice_sphere,
        lambda l: "how=float" not in l, quick=200, thorough=1500, shards=(1, 3)),
    Law("circle_through", sphere_case(circle=True), body_sphere, lambda l: True, quick=100,
        thorough=1000, shards=(1, 2)),
    Law("short_arc", arc_case("short_arc"), body_short_arc, _nt_arc, quick=250, thorough=2500,
        shards=(1, 4)),
    Law("right_to_left", arc_case("right_to_left"), body_right_to_left, _nt_arc, quick=250,
        thorough=2500, shards=(1, 4)),
    Law("arc_include", arc_case("arc_include"), body_arc_include, _nt_arc, quick=250,
        thorough=2500, shards=(1, 4)),
    Law("circle_angles", circle_angles_case(), body_circle_angles, _nt_arc, quick=100,
        thorough=1000, shards=(1, 2)),
]
