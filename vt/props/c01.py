"""C01 - hyperbolic model coordinates are mutually consistent and carry one metric."""
import math
import numpy as np
from hypothesis import strategies as st

from ..core import Law
from .. import gen
from ..gen import fl
from ..num import mink
from ..oracles import hyp as H

from geometry_tools import hyperbolic
from geometry_tools.hyperbolic import Model

MODELS = ["projective", "hyperboloid", "klein", "poincare", "halfspace"]
# the names a caller may use for each model (Model enum aliases, case-insensitive strings)
ALIASES = {
    "projective": ["projective", "PROJECTIVE", Model.PROJECTIVE],
    "hyperboloid": ["hyperboloid", Model.HYPERBOLOID],
    "klein": ["klein", "kleinian", "affine", Model.KLEIN, "Klein"],
    "poincare": ["poincare", Model.POINCARE, "POINCARE"],
    "halfspace": ["halfspace", "halfplane", Model.HALFSPACE, Model.HALFPLANE],
}

RULE = ("cases: dimension n in 1..6, composite shape of rank 0..3 (sides 1..3), a cloud of "
        "interior points drawn as direction x Klein radius <= 0.999 (origin and axis points "
        "mixed in), converted by the harness' own closed forms into a source model and handed "
        "to Point(..., model); every target model is read and rebuilt (25 ordered pairs); "
        "pairs/triples for the metric laws incl. identical and 1e-9-close points; ideal points "
        "at distance >= 0.05 from the half-space point at infinity.  non-trivial = interior "
        "points not all at the origin and (n >= 2 or composite rank >= 1); distinct = distinct "
        "JSON case (n, shape, models, coordinates).")

ASSUMPTIONS = [
    "interior points have Klein radius <= 0.999 (distance from origin <= 3.8); tolerances are "
    "scaled by the Euclidean size of the hyperboloid representatives",
    "ideal points keep Euclidean distance >= 0.05 from the half-space point at infinity",
    "float64 only (Sage exact back end not installed)",
]


def _alias(model, k):
    al = ALIASES[model]
    return al[k % len(al)]


def hyp_sign_fix(x):
    """hyperboloid representative on the upper sheet"""
    x = np.asarray(x, dtype=float)
    return x * np.where(x[..., :1] < 0, -1.0, 1.0)


# ---------------------------------------------------------------------------
@st.composite
def cloud_case(draw, max_n=6, max_rank=3):
    n = draw(st.integers(1, max_n))
    # (an empty composite - a selection pts[mask] that selected nothing - is a composite too)
    shape = draw(st.one_of(gen.shapes(max_rank=max_rank), gen.shapes(max_rank=max_rank),
                           gen.shapes(max_rank=max_rank), gen.shapes(max_rank=max_rank),
                           st.sampled_from([[0], [2, 0], [0, 3]])))
    cnt = gen.prod(shape)
    pts = draw(gen.klein_points(n, cnt))
    src = draw(st.sampled_from(MODELS))
    scale = draw(st.one_of(gen.scalars_any(), gen.scalars_any(),
                           st.sampled_from([1e-9, -3e-10, 2e8]))) if src == "projective" else 1.0
    return dict(n=n, shape=shape, src=src, pts=pts, scale=scale,
                alias=draw(st.integers(0, 5)))


def body_roundtrip(case, ctx):
    n, shape, src = case["n"], tuple(case["shape"]), case["src"]
    K = np.array(case["pts"], dtype=float).reshape(shape + (n,))
    X = H.klein_to_model(K, src)
    if src == "projective":
        X = X * case["scale"]
    Xin = gen.flavoured(X.copy())  # the caller's array (in one of several memory layouts)
    P = hyperbolic.Point(Xin, model=_alias(src, case["alias"]))
    ctx.check(P.shape == shape, "composite shape of constructed point", got=P.shape,
              want=shape)
    ctx.check(np.array_equal(Xin, X), "constructing a point leaves the caller's coordinate "
              "array untouched", src=src)
    rad = np.sqrt(np.sum(K * K, axis=-1))
    hscale = float(np.max(1.0 / np.sqrt(1 - rad ** 2))) if K.size else 1.0
    ctx.label("src=" + src, "n=%d" % n, "rank=%d" % len(shape))
    if K.size == 0:
        ctx.label("empty-composite")
    if K.size and float(np.max(rad)) > 0:
        ctx.label("not-origin")
    if float(np.max(rad, initial=0.0)) > 0.99:
        ctx.label("near-boundary")
    if n >= 2 or len(shape) >= 1:
        ctx.label("n>=2-or-composite")
    ctx.close("klein(src)", P.coords("klein"), K, rtol=1e-9, atol=1e-10)
    for tgt in MODELS:
        ctx.label("%s->%s" % (src, tgt))
        got = np.array(P.coords(_alias(tgt, case["alias"] + 1)))
        want = H.klein_to_model(K, tgt)
        ctx.check(got.shape == want.shape, "coords(%s) shape" % tgt, got=got.shape,
                  want=want.shape)
        if tgt == "projective":
            # projective coordinates are defined up to scale: compare in the chart
            ctx.close("coords(projective) as a projective class",
                      got[..., 1:] / got[..., :1], K, rtol=1e-9, atol=1e-10)
        elif tgt == "hyperboloid":
            ctx.close("coords(hyperboloid) up to sheet", hyp_sign_fix(got), want,
                      rtol=1e-9, atol=1e-10)
            ctx.close("hyperboloid representative has <x,x> = -1", mink(got, got),
                      -np.ones(shape), rtol=0, atol=1e-9 * hscale ** 2)
        else:
            tol = 1e-9 * (hscale if tgt == "halfspace" else 1.0)
            ctx.close("coords(%s) vs closed form" % tgt, got, want, rtol=tol, atol=tol)
        # rebuild from the target model's coordinates, read everything back
        Q = hyperbolic.Point(got.copy(), model=_alias(tgt, case["alias"] + 2))
        ctx.check(Q.shape == shape, "shape after rebuilding from " + tgt, got=Q.shape)
        ctx.close("klein after %s->%s->klein" % (src, tgt), Q.coords("klein"), K,
                  rtol=1e-8, atol=1e-9)
        back = np.array(Q.coords(src))
        if src == "projective":
            ctx.close("back to projective (class)", back[..., 1:] / back[..., :1], K,
                      rtol=1e-8, atol=1e-9)
        elif src == "hyperboloid":
            ctx.close("back to hyperboloid", hyp_sign_fix(back), hyp_sign_fix(X),
                      rtol=1e-8, atol=1e-9 * hscale)
        else:
            tol = 1e-8 * (hscale if src == "halfspace" else 1.0)
            ctx.close("back to %s" % src, back, X, rtol=tol, atol=tol)
    ctx.check(np.array_equal(Xin, X), "reading coordinates leaves the caller's coordinate "
              "array untouched", src=src)
    P2 = hyperbolic.Point(Xin, model=src)      # the same array, used again
    ctx.close("a second point built from the same array is the same point",
              P2.coords("klein"), K, rtol=1e-9, atol=1e-10)
    # get_point is documented as an equivalent constructor
    if src in ("klein", "poincare", "halfspace"):
        G = hyperbolic.get_point(X.copy(), model=src)
        ctx.close("get_point alias", G.coords("klein"), K, rtol=1e-9, atol=1e-10)


def nt_cloud(labels):
    return "not-origin" in labels and "n>=2-or-composite" in labels


# ---------------------------------------------------------------------------
@st.composite
def pair_case(draw, max_n=6):
    n = draw(st.integers(1, max_n))
    shape = draw(gen.shapes(max_rank=2))
    cnt = gen.prod(shape)
    a = draw(gen.klein_points(n, cnt))
    kind = draw(st.integers(0, 5))
    if kind == 0:        # identical points
        b = [list(x) for x in a]
    elif kind == 1:      # very close points
        eps = draw(st.sampled_from([1e-12, 1e-9, 1e-7, 1e-5]))
        b = []
        for x in a:
            d = draw(gen.directions(n))
            y = [xi + eps * di for xi, di in zip(x, d)]
            if sum(t * t for t in y) >= 0.999 ** 2:
                y = list(x)
            b.append(y)
    else:
        b = draw(gen.klein_points(n, cnt))
    srcs = [draw(st.sampled_from(MODELS)), draw(st.sampled_from(MODELS))]
    return dict(n=n, shape=shape, a=a, b=b, srcs=srcs, kind=kind,
                sa=draw(gen.scalars_pm()), sb=draw(gen.scalars_pm()))


def _build(K, src, scale=1.0):
    X = H.klein_to_model(K, src)
    if src == "projective":
        X = X * scale
    return hyperbolic.Point(gen.flavoured(X.copy()), model=src)


def dist_tol(KA, KB, d):
    """tolerance on a distance obtained as arccosh of a Minkowski product of
    hyperboloid representatives of Euclidean size |xh|,|yh|: the product carries
    an absolute error delta ~ eps*|xh||yh|, hence d carries min(sqrt(2 delta),
    delta/sinh d)."""
    xa = H.klein_to_hyperboloid(KA)
    xb = H.klein_to_hyperboloid(KB)
    delta = 1e-13 * np.sqrt(np.sum(xa * xa, axis=-1) * np.sum(xb * xb, axis=-1))
    with np.errstate(all="ignore"):
        t = np.minimum(np.sqrt(2 * delta), delta / np.maximum(np.sinh(d), 1e-300))
    return 1e-10 + 4 * t


def body_metric(case, ctx):
    n, shape = case["n"], tuple(case["shape"])
    KA = np.array(case["a"], dtype=float).reshape(shape + (n,))
    KB = np.array(case["b"], dtype=float).reshape(shape + (n,))
    A = _build(KA, case["srcs"][0], case["sa"])
    B = _build(KB, case["srcs"][1], case["sb"])
    d_true = H.dist_klein(KA, KB)
    tol = dist_tol(KA, KB, d_true)
    d_lib = np.array(A.distance(B))
    ctx.label("n=%d" % n, "rank=%d" % len(shape), "kind=%d" % case["kind"])
    if n >= 2 or len(shape) >= 1:
        ctx.label("n>=2-or-composite")
    if KA.size and (np.max(np.abs(KA)) > 0 or np.max(np.abs(KB)) > 0):
        ctx.label("not-origin")
    ctx.check(d_lib.shape == shape, "distance shape", got=d_lib.shape, want=shape)
    ctx.check(np.all(np.isfinite(d_lib)), "distance is finite (never NaN)", d=d_lib,
              a=KA, b=KB)
    ctx.check(np.all(d_lib >= 0), "distance is non-negative", d=d_lib)
    ctx.small("library distance vs closed form on generating Klein coords",
              (d_lib - d_true) / tol, 1.0, d_lib=d_lib, d_true=d_true)
    # the model's own closed-form metric evaluated on the library's coordinates
    for model in MODELS:
        ca = np.array(A.coords(model))
        cb = np.array(B.coords(model))
        if model == "hyperboloid":   # the closed form arccosh(-<a,b>) is for one sheet
            ca, cb = hyp_sign_fix(ca), hyp_sign_fix(cb)
        dm = H.dist_model(ca, cb, model)
        ctx.small("metric of %s on library coordinates vs Point.distance" % model,
                  (dm - d_lib) / (2 * tol + 1e-9 * (1 + d_true)), 1.0, model=model,
                  dm=dm, d_lib=d_lib)
    d_sym = np.array(B.distance(A))
    # symmetric up to the conditioning of arccosh near 1 (the two evaluations differ by
    # one rounding of the Minkowski product; at d ~ 0 that is sqrt(2 ulp) ~ 2e-8)
    ctx.small("symmetry", (d_sym - d_lib) / tol, 1.0, d_sym=d_sym, d_lib=d_lib)
    if case["kind"] == 0:
        # same geometric point through two different models
        ctx.small("d(x,x) is zero", d_lib / (1e-10 + 4 * np.sqrt(2 * 1e-13) *
                  np.sqrt(np.sum(H.klein_to_hyperboloid(KA) ** 2, axis=-1))), 1.0)
        daa = np.array(A.distance(A))
        ctx.check(np.all(np.isfinite(daa)), "d(x,x) is not NaN", d=daa, a=KA,
                  src=case["srcs"][0])
        ctx.small("d(x,x) with the same object is zero", daa, 1e-6)


@st.composite
def broadcast_case(draw):
    n = draw(st.integers(1, 4))
    kind = draw(st.sampled_from(["single-vs-array", "array-vs-single", "col-vs-row",
                                 "size1-axis"]))
    if kind == "single-vs-array":
        sa, sb = [], [draw(st.integers(1, 4))]
    elif kind == "array-vs-single":
        sa, sb = [draw(st.integers(1, 4))], []
    elif kind == "col-vs-row":
        sa, sb = [draw(st.integers(1, 3)), 1], [1, draw(st.integers(1, 4))]
    else:
        k = draw(st.integers(2, 3))
        sa, sb = [1, k], [draw(st.integers(2, 3)), k]
    return dict(n=n, sa=sa, sb=sb, kind=kind,
                a=draw(gen.klein_points(n, gen.prod(sa))), b=draw(gen.klein_points(n, gen.prod(sb))),
                srcs=[draw(st.sampled_from(MODELS)), draw(st.sampled_from(MODELS))])


def body_broadcast(case, ctx):
    """distances between composites whose shapes broadcast (one point against many, a column
    against a row): entry by entry the closed form, in both argument orders"""
    n, sa, sb = case["n"], tuple(case["sa"]), tuple(case["sb"])
    KA = np.array(case["a"], dtype=float).reshape(sa + (n,))
    KB = np.array(case["b"], dtype=float).reshape(sb + (n,))
    A = _build(KA, case["srcs"][0])
    B = _build(KB, case["srcs"][1])
    ctx.label("kind=" + case["kind"], "n=%d" % n, "not-origin", "n>=2-or-composite")
    want_shape = np.broadcast_shapes(sa, sb)
    KAb = np.broadcast_to(KA, want_shape + (n,))
    KBb = np.broadcast_to(KB, want_shape + (n,))
    d_true = H.dist_klein(KAb, KBb)
    tol = dist_tol(KAb, KBb, d_true)
    for (X, Y, tag) in ((A, B, "a.distance(b)"), (B, A, "b.distance(a)")):
        d = np.array(X.distance(Y))
        ctx.check(d.shape == want_shape, tag + ": broadcast shape", got=d.shape,
                  want=want_shape)
        ctx.small(tag + ": entry by entry the closed form", (d - d_true) / tol, 1.0,
                  d=d, d_true=d_true)


@st.composite
def triple_case(draw, max_n=5):
    n = draw(st.integers(1, max_n))
    shape = draw(gen.shapes(max_rank=1))
    cnt = gen.prod(shape)
    pts = [draw(gen.klein_points(n, cnt)) for _ in range(3)]
    if draw(st.integers(0, 4)) == 0 and cnt > 0:   # (nearly) collinear triple
        t = draw(fl(0.0, 1.0))
        pts[2] = [[(1 - t) * x + t * y for x, y in zip(p, q)]
                  for p, q in zip(pts[0], pts[1])]
    return dict(n=n, shape=shape, pts=pts, src=draw(st.sampled_from(MODELS)))


def body_triangle(case, ctx):
    n, shape = case["n"], tuple(case["shape"])
    K = [np.array(p, dtype=float).reshape(shape + (n,)) for p in case["pts"]]
    P = [_build(k, case["src"]) for k in K]
    ctx.label("n=%d" % n, "rank=%d" % len(shape), "n>=2-or-composite" if
              (n >= 2 or len(shape) >= 1) else "", "not-origin")
    d = {}
    for i in range(3):
        for j in range(3):
            d[i, j] = np.array(P[i].distance(P[j]))
            ctx.check(np.all(np.isfinite(d[i, j])) and np.all(d[i, j] >= 0),
                      "finite non-negative", i=i, j=j, d=d[i, j])
    for i in range(3):
        ctx.small("d(x,x)=0", d[i, i], 1e-6)
        for j in range(3):
            tol = dist_tol(K[i], K[j], H.dist_klein(K[i], K[j]))
            ctx.small("symmetric", (d[i, j] - d[j, i]) / tol, 1.0, dij=d[i, j], dji=d[j, i])
    for (i, j, k) in [(0, 1, 2), (1, 2, 0), (2, 0, 1)]:
        slack = d[i, k] + d[k, j] - d[i, j]
        ctx.check(np.all(slack >= -1e-6), "triangle inequality", slack=slack,
                  pts=[x.tolist() for x in K])


# ---------------------------------------------------------------------------
@st.composite
def ideal_case(draw):
    n = draw(st.integers(2, 5))
    shape = draw(gen.shapes(max_rank=2))
    cnt = gen.prod(shape)
    dirs = [draw(gen.ideal_direction(n)) for _ in range(cnt)]
    src = draw(st.sampled_from(["projective", "klein", "poincare", "halfspace"]))
    return dict(n=n, shape=shape, dirs=dirs, src=src, scale=draw(gen.scalars_any()))


def body_ideal(case, ctx):
    n, shape, src = case["n"], tuple(case["shape"]), case["src"]
    U = np.array(case["dirs"], dtype=float).reshape(shape + (n,))
    if src == "projective":
        X = np.concatenate([np.ones(shape + (1,)), U], axis=-1) * case["scale"]
    elif src in ("klein", "poincare"):
        X = U.copy()
    else:
        X = H.poincare_to_halfspace(U)
        X[..., -1] = 0.0
    P = hyperbolic.Point(X.copy(), model=src)
    ctx.label("ideal", "src=" + src, "n=%d" % n, "rank=%d" % len(shape))
    tol = 2e-6
    ctx.close("ideal klein", P.coords("klein"), U, rtol=tol, atol=tol)
    pr = np.array(P.coords("projective"))
    ctx.small("ideal point is lightlike", mink(pr, pr) / np.sum(pr * pr, axis=-1), 1e-6)
    hs_want = H.poincare_to_halfspace(U)
    for tgt in ["projective", "klein", "poincare", "halfspace"]:
        got = np.array(P.coords(tgt))
        if tgt == "halfspace":
            sc = 1 + np.max(np.abs(hs_want), initial=0.0) ** 2
            ctx.close("ideal halfspace coords", got, np.concatenate(
                [hs_want[..., :-1], np.zeros(shape + (1,))], axis=-1), rtol=tol,
                atol=2e-6 * sc)
            # heights of ideal points are 0 up to sqrt-rounding; rebuild with exact 0
        Q = hyperbolic.Point(got.copy(), model=tgt)
        ctx.close("ideal klein after round trip via " + tgt, Q.coords("klein"), U,
                  rtol=1e-5, atol=1e-5 * (1 + (np.max(np.abs(hs_want), initial=0.0) ** 2
                                           if tgt == "halfspace" else 0)))


# ---------------------------------------------------------------------------
@st.composite
def reuse_case(draw):
    n = draw(st.integers(1, 4))
    shape = draw(gen.shapes(max_rank=2))
    cnt = gen.prod(shape)
    return dict(n=n, shape=shape, k1=draw(gen.klein_points(n, cnt)),
                k2=draw(gen.klein_points(n, cnt)), k3=draw(gen.klein_point(n, rmax=0.9)),
                q=draw(gen.klein_point(n, rmax=0.9)), g=draw(gen.klein_point(n, rmax=0.8)),
                srcs=[draw(st.sampled_from(MODELS)) for _ in range(3)],
                warm=draw(st.booleans()))


def _reads_agree(ctx, P, K, Q, KQ, tag):
    """every way of reading the object P describes the points K"""
    ctx.close(tag + ": klein", P.coords("klein"), K, rtol=1e-9, atol=1e-10)
    for m in ("poincare", "halfspace"):
        rad = np.sqrt(np.sum(K * K, axis=-1))
        hs = float(np.max(1.0 / (1 - rad), initial=1.0))
        ctx.close(tag + ": " + m, P.coords(m), H.klein_to_model(K, m), rtol=1e-9 * hs,
                  atol=1e-9 * hs)
    hb = np.array(P.coords("hyperboloid"))
    ctx.close(tag + ": hyperboloid (up to sheet)", hyp_sign_fix(hb), H.klein_to_hyperboloid(K),
              rtol=1e-9, atol=1e-10)
    d = np.array(P.distance(Q))
    KQb = np.broadcast_to(KQ, K.shape)
    dt = H.dist_klein(K, KQb)
    ctx.small(tag + ": distance to a fixed point", (d - dt) / dist_tol(K, KQb, dt), 1.0,
              d=d, d_true=dt)


def body_reuse(case, ctx):
    """one Point object used repeatedly: read, re-set through the coordinate setter of another
    model, assign an item, transform - after every step all reads describe the current points"""
    n, shape = case["n"], tuple(case["shape"])
    K1 = np.array(case["k1"], dtype=float).reshape(shape + (n,))
    K2 = np.array(case["k2"], dtype=float).reshape(shape + (n,))
    K3 = np.array(case["k3"], dtype=float)
    KQ = np.array(case["q"], dtype=float)
    s1, s2, s3 = case["srcs"]
    ctx.label("n=%d" % n, "rank=%d" % len(shape), "not-origin", "set-via=" + s2,
              "n>=2-or-composite" if (n >= 2 or shape) else "")
    Q = hyperbolic.Point(KQ.copy(), model="klein")
    P = _build(K1, s1)
    if case["warm"]:
        ctx.label("read-before-set")
        _reads_agree(ctx, P, K1, Q, KQ, "fresh object")
    # the documented setter: coords(model, data)
    P.coords(s2, H.klein_to_model(K2, s2))
    _reads_agree(ctx, P, K2, Q, KQ, "after coords(%s, data)" % s2)
    Kcur = K2.copy()
    if shape:
        idx = (0,) * len(shape)
        P[idx] = _build(K3, s3)
        Kcur[idx] = K3
        ctx.label("item-assigned")
        _reads_agree(ctx, P, Kcur, Q, KQ, "after item assignment")
    # an isometry moves the object; the image's hyperboloid coordinates belong to the image
    G = hyperbolic.Point(np.array(case["g"], dtype=float), model="klein").origin_to()
    R = G @ P
    kr = np.array(R.coords("klein"))
    ctx.check(np.all(np.sum(kr * kr, axis=-1) < 1), "the image is in the ball")
    ctx.close("image: hyperboloid coordinates are those of the image's Klein coordinates",
              hyp_sign_fix(np.array(R.coords("hyperboloid"))), H.klein_to_hyperboloid(kr),
              rtol=1e-8, atol=1e-9)
    dR = np.array(R.distance(G @ Q))
    KQb = np.broadcast_to(KQ, Kcur.shape)
    dt = H.dist_klein(Kcur, KQb)
    ctx.small("image: distances are preserved", (dR - dt) / (20 * dist_tol(Kcur, KQb, dt)), 1.0)
    _reads_agree(ctx, P, Kcur, Q, KQ, "the original after being transformed")
    # coordinates handed out earlier stay what they were when other models are read later
    Ph = _build(K1, s1)
    h_first = Ph.coords("hyperboloid")
    h_keep = np.array(h_first, copy=True)
    p_first = Ph.coords("projective")
    p_keep = np.array(p_first, copy=True)
    for m_ in ("klein", "poincare", "halfspace"):
        Ph.coords(m_)
    ctx.close("hyperboloid coordinates read before the other models are still unit vectors",
              -np.asarray(h_first)[..., 0] ** 2 + np.sum(np.asarray(h_first)[..., 1:] ** 2,
                                                          axis=-1),
              -np.ones(shape), rtol=0, atol=1e-9 * (1 + np.max(np.abs(h_keep), initial=0)) ** 2)
    ctx.small("projective coordinates read earlier still name the same points",
              np.abs(np.asarray(p_first)[..., 1:] / np.asarray(p_first)[..., :1]
                     - p_keep[..., 1:] / p_keep[..., :1]), 1e-12)
    # the module-level factory: Klein coordinates unless a model is named
    GP = hyperbolic.get_point(K1.copy())
    ctx.close("get_point(coords) reads Klein coordinates", np.array(GP.coords("klein")), K1,
              rtol=0, atol=1e-12)
    GP2 = hyperbolic.get_point(H.klein_to_model(K1, s2), s2)
    ctx.close("get_point(coords, model)", np.array(GP2.coords("klein")), K1, rtol=1e-9,
              atol=1e-10)
    # a point first given by integer-typed data (a lattice point of the projective model, the
    # origin) and then moved with the coordinate setter: it is where it was put
    ip = np.zeros(shape + (n + 1,), dtype=np.int64)
    ip[..., 0] = 2
    ip[..., 1] = 1
    PI = hyperbolic.Point(ip)
    PI.coords("projective", H.klein_to_model(K2, "projective") * 1.5)
    _reads_agree(ctx, PI, K2, Q, KQ, "an integer-typed point after coords('projective', data)")
    PI2 = hyperbolic.Point.get_origin(n, shape, dtype=int) if n >= 1 else None
    PI2.coords("projective", H.klein_to_model(K1, "projective"))
    _reads_agree(ctx, PI2, K1, Q, KQ, "an integer-typed origin after coords('projective', data)")
    # the same coordinates read on an object that holds two of the points (a pair, a segment)
    if shape == () or True:
        A_, B_ = _build(K1, s1), _build(K2, s3)
        for cls_ in (hyperbolic.PointPair, hyperbolic.Segment):
            try:
                pair = cls_(A_, B_)
            except Exception:      # (coincident points make no segment: C14's business)
                continue
            for m_ in ("klein", "poincare", "halfspace"):
                ctx.close("%s.coords(%s) are the coordinates of its two points"
                          % (cls_.__name__, m_), np.array(pair.coords(m_)),
                          np.stack([H.klein_to_model(K1, m_), H.klein_to_model(K2, m_)],
                                   axis=-2), rtol=1e-8, atol=1e-9)
    # the origin handed out by the library is the caller's to re-use as a buffer: whatever is
    # written into it, the next origin asked for is the origin
    O1 = hyperbolic.Point.get_origin(n, shape)
    O1.coords(s2, H.klein_to_model(K2, s2))
    _reads_agree(ctx, O1, K2, Q, KQ, "an origin overwritten through coords(%s, data)" % s2)
    O2 = hyperbolic.Point.get_origin(n, shape)
    ctx.close("get_origin() after an earlier origin was overwritten", np.array(
        O2.coords("klein")), np.zeros(shape + (n,)), rtol=0, atol=0)
    d0 = np.array(O2.distance(Q))
    dq = H.dist_klein(np.zeros(shape + (n,)), np.broadcast_to(KQ, shape + (n,)))
    ctx.small("distance from the origin", (d0 - dq) / (20 * dist_tol(
        np.zeros(shape + (n,)), np.broadcast_to(KQ, shape + (n,)), dq)), 1.0)


@st.composite
def helper_case(draw):
    n = draw(st.integers(1, 4))
    k = draw(st.integers(1, 4))
    stack = draw(st.sampled_from([[], [], [2], [1], [2, 2], [3]]))
    return dict(n=n, k=k, stack=stack, pts=draw(gen.klein_points(n, k * gen.prod(stack))),
                scales=[draw(gen.scalars_pm()) for _ in range(k * gen.prod(stack))],
                r=draw(st.one_of(fl(-6.0, 6.0), st.sampled_from([0.0, -1.0, 1.0, -1e-3]))))


def body_helpers(case, ctx):
    """the module-level helper functions, row and column layouts, stacks of matrices"""
    n, k, stack = case["n"], case["k"], tuple(case["stack"])
    K = np.array(case["pts"], dtype=float).reshape(stack + (k, n))
    S = np.array(case["scales"], dtype=float).reshape(stack + (k, 1))
    X = np.concatenate([np.ones(stack + (k, 1)), K], axis=-1) * S
    ctx.label("n=%d" % n, "stack-rank=%d" % len(stack), "not-origin", "n>=2-or-composite")
    ctx.close("kleinian_coords(rows)", hyperbolic.kleinian_coords(X.copy()), K, rtol=1e-12,
              atol=1e-12)
    Xc = np.ascontiguousarray(np.swapaxes(X, -1, -2))
    got = np.asarray(hyperbolic.kleinian_coords(Xc.copy(), column_vectors=True))
    ctx.check(got.shape == stack + (n, k), "kleinian_coords(columns): shape", got=got.shape,
              want=stack + (n, k))
    ctx.close("kleinian_coords(columns)", got, np.swapaxes(K, -1, -2), rtol=1e-12, atol=1e-12)
    want_h = H.klein_to_hyperboloid(K)
    ctx.close("hyperboloid_coords(rows) up to sheet",
              hyp_sign_fix(hyperbolic.hyperboloid_coords(X.copy())), want_h, rtol=1e-9, atol=1e-10)
    hc = np.asarray(hyperbolic.hyperboloid_coords(Xc.copy(), column_vectors=True))
    ctx.check(hc.shape == stack + (n + 1, k), "hyperboloid_coords(columns): shape", got=hc.shape)
    ctx.close("hyperboloid_coords(columns) up to sheet",
              hyp_sign_fix(np.swapaxes(hc, -1, -2)), want_h, rtol=1e-9, atol=1e-10)
    # signed distance along the first axis <-> Klein coordinate (used by point_along)
    r = float(case["r"])
    a = float(hyperbolic.hyp_to_affine_dist(r))
    ctx.close("hyp_to_affine_dist(r) = tanh r (signed)", a, math.tanh(r), rtol=1e-12, atol=1e-15)
    o = hyperbolic.Point.get_origin(n)
    e = np.zeros(n)
    e[0] = a
    if abs(a) < 1:
        ctx.small("the Klein point (hyp_to_affine_dist(r), 0, ..) is at distance |r| from the "
                  "origin", float(o.distance(hyperbolic.Point(e, model="klein"))) - abs(r),
                  float(dist_tol(np.zeros(n), e, abs(r))) + 1e-9 * math.cosh(r) ** 2 * abs(r))


# ---------------------------------------------------------------------------
# points far from the origin, given in the models in which they are still ordinary numbers
@st.composite
def far_case(draw):
    n = draw(st.integers(2, 4))
    return dict(n=n, r=draw(st.sampled_from([0.9999, 0.99995, 0.9997])),
                d=draw(gen.directions(n)), h=draw(st.sampled_from([7e-5, 3e-5, 2e-4])),
                x=[draw(fl(-3.0, 3.0)) for _ in range(n - 1)],
                ix=[draw(st.sampled_from([500.0, -2000.0, 300.0, 1200.0, 0.0]))
                    for _ in range(n - 1)])


def body_far(case, ctx):
    """a point 8 to 10 away from the origin has Poincare radius 0.9997 .. 0.99995 and
    half-space height 1e-4: perfectly ordinary numbers, read back as they were given (the Klein
    chart in between is within 1e-8 of the sphere there); ideal points of the half-space
    model with boundary coordinates in the hundreds are ideal points like any others"""
    n, r = case["n"], case["r"]
    ctx.label("n=%d" % n, "r=%g" % r, "not-origin", "n>=2-or-composite")
    pc = r * np.array(case["d"], dtype=float)
    P = hyperbolic.Point(pc.copy(), model="poincare")
    ctx.close("far point: Poincare coordinates read back", np.array(P.coords("poincare")), pc,
              rtol=0, atol=1e-9)
    d0 = float(np.asarray(P.distance(hyperbolic.Point.get_origin(n))))
    ctx.close("far point: distance from the origin is 2 artanh r", d0, 2 * math.atanh(r),
              rtol=1e-6, atol=0)
    hp = np.array(case["x"] + [case["h"]], dtype=float)
    Q = hyperbolic.Point(hp.copy(), model="halfspace")
    back = np.array(Q.coords("halfspace"))
    ctx.close("far point: half-space coordinates read back (boundary part)", back[:-1], hp[:-1],
              rtol=0, atol=1e-6 + 1e-15 * ((1.0 + float(hp @ hp)) / hp[-1]) ** 2 * hp[-1])
    # (the library goes through the Klein chart, where this point is at
    # 1 - |k|^2 ~ (h / (1 + |x|^2))^2 from the sphere: the rounding of the chart is amplified
    # by the inverse of that)
    amp_h = ((1.0 + float(hp @ hp)) / hp[-1]) ** 2
    ctx.close("far point: half-space height read back", back[-1], hp[-1],
              rtol=min(0.1, 1e-5 + 2e-14 * amp_h), atol=0)
    kq = np.array(Q.coords("klein"))
    ctx.check(float(kq @ kq) < 1.0, "far point: interior in the Klein model", k=kq)
    if any(case["ix"]):
        ib = np.array(case["ix"] + [0.0], dtype=float)
        Iq = hyperbolic.IdealPoint(ib.copy(), model="halfspace")
        bi = np.array(Iq.coords("halfspace"), dtype=float)
        ctx.check(np.all(np.isfinite(bi)), "ideal point with large boundary coordinates: finite "
                  "half-space coordinates", got=bi, given=ib)
        ctx.close("ideal point with large boundary coordinates: read back", bi[:-1], ib[:-1],
                  rtol=1e-6, atol=1e-6)
        ctx.small("... and of height ~ 0 (sqrt of the rounding of a point on the sphere)",
                  bi[-1] / (1.0 + float(ib @ ib)), 1e-6)


LAWS = [
    Law("far_points_in_their_own_model", far_case(), body_far, lambda l: True, quick=120,
        thorough=600, shards=(1, 2)),
    Law("reused_point_objects", reuse_case(), body_reuse, nt_cloud, quick=200, thorough=2000,
        shards=(1, 4)),
    Law("module_level_helpers", helper_case(), body_helpers, nt_cloud, quick=200, thorough=1500,
        shards=(1, 3)),
    Law("roundtrip_all_pairs", cloud_case(), body_roundtrip, nt_cloud, quick=250,
        thorough=2500, shards=(2, 8)),
    Law("metric_agrees_in_every_model", pair_case(), body_metric, nt_cloud, quick=250,
        thorough=2500, shards=(2, 8)),
    Law("distance_broadcasts", broadcast_case(), body_broadcast, nt_cloud, quick=200,
        thorough=2000, shards=(1, 4)),
    Law("metric_laws_triangle", triple_case(), body_triangle, nt_cloud, quick=200,
        thorough=2000, shards=(1, 4)),
    Law("ideal_roundtrip", ideal_case(), body_ideal, lambda l: True, quick=150,
        thorough=1500, shards=(1, 4)),
]
