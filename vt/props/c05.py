"""C05 - representations are word homomorphisms; derived ones commute with evaluation."""
import itertools
import numpy as np
from hypothesis import strategies as st

from ..core import Law, HarnessError
from .. import gen
from ..gen import fl
from ..oracles import rep as O
from . import c05_gen as G
from .c05_gen import wstr

from geometry_tools.representation import Representation
from geometry_tools import representation as R
from geometry_tools.utils import words as W

RULE = ("cases: dimension n in 1..5, 1-4 generators, matrices real well-conditioned (orthogonal x "
        "diagonal in +-[1/2,2] x unipotent, special: identity, -I, permutation, diagonal), complex, "
        "or unimodular integer (products of <= 5 elementary matrices; given as float64 or int64); "
        "words over generators and inverses: every word of length <= 4 (thorough 6) over two "
        "generators on three fixed representations, random words up to length 30 incl. "
        "u v u^-1, powers, commutators and words with inserted cancelling pairs; multi-character "
        "names through rep[[...]], element(star string, parse_simple=False) and elements() of a "
        "parse_simple=False representation; histories of generator assignments by lower- and "
        "upper-case name.  non-trivial = a word of length >= 3 using >= 2 generators and an "
        "inverse letter with non-commuting images (for the history law: >= 3 assignments with a "
        "re-assignment); distinct = distinct JSON case.")

ASSUMPTIONS = [
    "generator matrices have condition number <= ~1e3; comparisons use a running rounding-error "
    "bound computed in the harness from the norms of the actual prefix products (x16), identities "
    "on integer generators and positive words are compared to 1e-9 absolute",
    "rep['s0*s1'] (character-wise parsing of star strings), the empty star string, parentheses "
    "in star strings, fox_word_derivative on the empty word / list words are not claimed",
    "tensor_product / symmetric_square of representations with multi-character generator names "
    "and gln_adjoint / sln_adjoint of int64-typed representations are excluded (reported "
    "separately as findings, counted under the labels excluded:*)",
    "float64 / complex128 / int64 numpy back end only (Sage not installed)",
]

CLAIM = dict(
    text=("Word evaluation of Representation objects is a homomorphism from the free monoid on "
          "generators and inverse names (left-to-right product, empty word to identity, swapped "
          "case to the inverse, invariant under free reduction), every derived representation "
          "(copy, conjugate, dual, compose, tensor_product, symmetric_square, subgroup, "
          "gln/sln_adjoint, astype, Projective/HyperbolicRepresentation) evaluates a word to the "
          "stated function of the original image without mutating the parent, and the Fox "
          "differential satisfies the fundamental formula."),
    note=("exploration: exhaustive over short words on three fixed representations, randomised "
          "elsewhere; trusted: numpy/LAPACK, the reference models in vt/oracles/rep.py, stated "
          "tolerances and generator bounds"),
    technique="property-based testing (Hypothesis) with reference models, exhaustive enumeration of short words, model-based history testing",
)


# ---------------------------------------------------------------------------
def tol(bound, want, exact=False):
    if exact:
        return 1e-9
    return 16 * bound + 1e-13 * max(1.0, float(np.max(np.abs(want))) if np.size(want) else 1.0)


def as_num(x):
    """library matrices may come back with dtype=object (lie adjoints); make them numeric"""
    x = np.asarray(x)
    if x.dtype == object:
        try:
            return x.astype(float)
        except (TypeError, ValueError):
            return x.astype(complex)
    return x


def cmp_word(ctx, name, got, L, w, case=None, **detail):
    """compare a library value with the reference evaluation of the word w"""
    got = as_num(got)
    want, b = L.eval(w)
    ctx.check(got.shape == want.shape, name + ": shape", got=got.shape, want=want.shape)
    exact = False
    if case is not None and case["kind"] == "int" and all(x == x.lower() for x in w):
        # positive word over integer generators: exact in float64 / int64 while the prefix
        # products stay below 2^53
        ints = {nm: [[int(v) for v in row] for row in m]
                for nm, m in zip(case["names"], case["mats"])}
        P, big = O.int_eval(ints, w, case["n"])
        if big * case["n"] < 2 ** 52:
            want = np.array(P, dtype=float)
            exact = True
            ctx.label("exact-integer-word")
    ctx.close(name, got, want, rtol=0, atol=tol(b, want, exact), word=wstr(w), **detail)
    return want, b


# ---------------------------------------------------------------------------
# 1. word homomorphism
@st.composite
def hom_case(draw):
    c = draw(G.rep_case())
    c["u"] = draw(G.word(c["names"], 30))
    c["v"] = draw(G.word(c["names"], 30 - min(len(c["u"]), 18)))
    return c


def body_word_homomorphism(case, ctx):
    rep, L, mats = G.build(case)
    n, names = case["n"], case["names"]
    u, v = case["u"], case["v"]
    G.base_labels(ctx, case)
    G.word_labels(ctx, u + v, L)
    ctx.check(rep.dim == n, "dim", got=rep.dim)
    ctx.check(list(rep.asym_gens()) == names, "asym_gens lists the assigned generators in order",
              got=list(rep.asym_gens()), want=names)
    ctx.check(rep.num_gens == len(names), "num_gens")
    ctx.check(set(rep.generators) == set(G.letters_of(names)), "generator dict keys",
              got=sorted(rep.generators))
    # letters
    for g, M in zip(names, mats):
        ctx.check(np.array_equal(np.asarray(rep[g]), M), "rho(g) is the assigned matrix", g=g)
        inv = np.asarray(rep[O.swap(g)])
        c = L.nrm[g] * L.nrm[O.swap(g)]
        ctx.close("rho(g^-1) rho(g) = I", inv @ M, np.eye(n), rtol=0, atol=64 * n * O.EPS * c * c
                  + 1e-13, g=g)
        ctx.close("rho(g) rho(g^-1) = I", M @ inv, np.eye(n), rtol=0, atol=64 * n * O.EPS * c * c
                  + 1e-13, g=g)
        ctx.close("rho(g^-1) vs harness inverse", inv, L.mat[O.swap(g)], rtol=0,
                  atol=16 * L.err[O.swap(g)] + 1e-14, g=g)
    # empty word
    e = np.asarray(rep[""])
    ctx.check(e.shape == (n, n) and np.array_equal(e, np.eye(n)), "rho('') is the identity", got=e)
    ctx.check(np.array_equal(np.asarray(rep[[]]), np.eye(n)), "rho([]) is the identity")
    # words
    ru = np.asarray(rep[wstr(u)])
    rv = np.asarray(rep[wstr(v)])
    ruv = np.asarray(rep[wstr(u + v)])
    wu, bu = cmp_word(ctx, "rho(u) vs harness product", ru, L, u, case)
    wv, bv = cmp_word(ctx, "rho(v) vs harness product", rv, L, v, case)
    wuv, buv = cmp_word(ctx, "rho(uv) vs harness product", ruv, L, u + v, case)
    nu, nv = float(np.linalg.norm(wu)), float(np.linalg.norm(wv))
    ctx.close("rho(uv) = rho(u) rho(v)", ruv, ru @ rv, rtol=0,
              atol=16 * (buv + bu * (nv + bv) + bv * nu + 8 * n * O.EPS * nu * nv) + 1e-13,
              u=wstr(u), v=wstr(v))
    # the other entry points evaluate the same product
    ctx.check(np.array_equal(np.asarray(rep.element(wstr(u))), ru), "element(u) == rep[u]")
    ctx.check(np.array_equal(np.asarray(rep[list(u)]), ru), "rep[list of letters] == rep[string]")
    ws = [wstr(u), "", wstr(v), wstr(u + v)]
    el = np.asarray(rep.elements(ws))
    ctx.check(el.shape == (4, n, n), "elements() shape", got=el.shape)
    for i, x in enumerate([ru, e, rv, ruv]):
        ctx.check(np.array_equal(el[i], x), "elements(ws)[i] == rep[ws[i]]", i=i)
    # inverse word
    Wd = O.inverse_word(u)
    rU = np.asarray(rep[wstr(Wd)])
    wU, bU = cmp_word(ctx, "rho(u^-1) vs harness product", rU, L, Wd, case)
    nU = float(np.linalg.norm(wU))
    # rho(u^-1) rho(u) = I up to the conditioning of the two products
    ctx.close("rho(u^-1) rho(u) = I", rU @ ru, np.eye(n), rtol=0,
              atol=16 * (bU * (nu + bu) + bu * nU + 8 * n * O.EPS * nu * nU) + 1e-13, u=wstr(u))


# ---------------------------------------------------------------------------
# 2. every short word on fixed representations
FIXED_REPS = [
    dict(n=2, kind="real", names=["a", "b"], intdtype=False,
         mats=[[[2.0, 1.0], [0.5, 0.75]], [[0.6, -0.8], [0.8, 0.6]]]),
    dict(n=2, kind="complex", names=["a", "b"], intdtype=False,
         mats=[[[[1.0, 0.5], [0.0, 1.0]], [[0.25, 0.0], [1.0, -0.5]]],
               [[[0.0, 1.0], [1.0, 0.0]], [[1.0, 0.0], [0.5, 0.5]]]]),
    dict(n=3, kind="int", names=["a", "b"], intdtype=False,
         mats=[[[1, 1, 0], [0, 1, 0], [2, 0, 1]], [[0, -1, 0], [1, 0, 0], [0, 1, 1]]]),
    dict(n=3, kind="int", names=["a", "b"], intdtype=True,
         mats=[[[1, 1, 0], [0, 1, 0], [2, 0, 1]], [[0, -1, 0], [1, 0, 0], [0, 1, 1]]]),
]


def all_words(alphabet, maxlen):
    for k in range(maxlen + 1):
        for w in itertools.product(alphabet, repeat=k):
            yield "".join(w)


def exhaustive_words(tier):
    Lmax = 4 if tier == "quick" else 6
    ws = list(all_words("abAB", Lmax))
    chunk = 64 if tier == "quick" else 128
    cases = []
    for r in range(len(FIXED_REPS)):
        for i in range(0, len(ws), chunk):
            cases.append(dict(rep=r, words=ws[i:i + chunk]))
    return [("all %d words of length <= %d over {a,b,A,B} on %d fixed representations"
             % (len(ws), Lmax, len(FIXED_REPS)), cases)]


def body_words_exhaustive(case, ctx):
    rc = FIXED_REPS[case["rep"]]
    rep, L, mats = G.build(rc)
    G.base_labels(ctx, rc)
    ctx.label("rep=%d" % case["rep"])
    vals = np.asarray(rep.elements(case["words"]))
    for i, w in enumerate(case["words"]):
        lw = list(w)
        G.word_labels(ctx, lw, L)
        got = np.asarray(rep[w])
        ctx.check(np.array_equal(got, vals[i]), "elements()[i] == rep[w]", w=w)
        cmp_word(ctx, "rho(w) vs harness product", got, L, lw, rc)
        red = O.free_reduce(lw)
        ctx.check(W.simplify_word(w) == wstr(red), "simplify_word vs harness free reduction",
                  w=w, got=W.simplify_word(w), want=wstr(red))
        if red != lw:
            want, b = L.eval(lw)
            cmp_r = np.asarray(rep[wstr(red)])
            ctx.close("rho(w) = rho(free reduction of w)", got, cmp_r, rtol=0,
                      atol=tol(b + L.eval(red)[1], want), w=w)


# ---------------------------------------------------------------------------
# 3. free reduction
@st.composite
def reduction_case(draw):
    c = draw(G.rep_case(max_dim=4))
    r = draw(G.reduced_word(c["names"], 12))
    w = list(r)
    alphabet = G.letters_of(c["names"])
    k = draw(st.integers(0, 8))
    for _ in range(k):
        pos = draw(st.integers(0, len(w)))
        x = draw(st.sampled_from(alphabet))
        w[pos:pos] = [x, O.swap(x)]
    c["r"] = r
    c["w"] = w
    c["u"] = draw(G.word(c["names"], 6))
    c["v"] = draw(G.word(c["names"], 6))
    return c


def body_free_reduction(case, ctx):
    rep, L, mats = G.build(case)
    r, w = case["r"], case["w"]
    G.base_labels(ctx, case)
    G.word_labels(ctx, w, L)
    if O.free_reduce(w) != r:
        raise HarnessError("reference free reduction is not confluent?")
    if len(w) > len(r):
        ctx.label("cancellations=%d" % min((len(w) - len(r)) // 2, 4))
    s = wstr(w)
    ctx.check(W.simplify_word(s) == wstr(r), "simplify_word(string)", got=W.simplify_word(s),
              want=wstr(r), w=s)
    ctx.check(W.simplify_word(list(w), as_string=False) == r, "simplify_word(list, as_string=False)",
              got=W.simplify_word(list(w), as_string=False), want=r)
    ctx.check(W.simplify_word(W.simplify_word(s)) == W.simplify_word(s), "simplify_word idempotent")
    # multi-character names: the same word with names renamed g -> 'x<g>7'
    ren = lambda x: ("x" + x + "7") if x == x.lower() else ("X" + x + "7")
    mw = [ren(x) for x in w]
    ctx.check(W.simplify_word(mw, as_string=False) == [ren(x) for x in r],
              "simplify_word on multi-character names (list form)")
    ctx.check(W.formal_inverse(s) == wstr(O.inverse_word(w)), "formal_inverse(string)",
              got=W.formal_inverse(s), want=wstr(O.inverse_word(w)))
    ctx.check(W.formal_inverse(mw, simple=False) == "*".join(O.swap(x) for x in reversed(mw)),
              "formal_inverse(list, simple=False) is the star-joined inverse word",
              got=W.formal_inverse(mw, simple=False))
    for x in G.letters_of(case["names"]):
        ctx.check(W.invert_gen(x) == O.swap(x) and W.invert_gen(W.invert_gen(x)) == x,
                  "invert_gen is the case swap")
    ctx.check(list(W.asym_gens(G.letters_of(case["names"]))) == list(case["names"]),
              "asym_gens keeps the lower-case names")
    u, v = case["u"], case["v"]
    ctx.check(W.commutator(wstr(u), wstr(v)) ==
              wstr(O.free_reduce(u + v + O.inverse_word(u) + O.inverse_word(v))),
              "commutator(u, v) is the reduced word u v u^-1 v^-1", u=wstr(u), v=wstr(v))
    # images
    rw = np.asarray(rep[s])
    rr = np.asarray(rep[wstr(r)])
    want, bw = cmp_word(ctx, "rho(w) vs harness", rw, L, w, case)
    _, br = cmp_word(ctx, "rho(reduced w) vs harness", rr, L, r, case)
    ctx.close("rho(w) = rho(simplify_word(w))", rw, np.asarray(rep[W.simplify_word(s)]), rtol=0,
              atol=tol(bw + br, want), w=s)
    inv = W.formal_inverse(s)
    full = np.asarray(rep[inv + s])
    _, bf = L.eval(O.inverse_word(w) + w)
    ctx.close("rho(w^-1 w) = I", full, np.eye(case["n"]), rtol=0, atol=tol(bf, np.eye(1)), w=s)



# ---------------------------------------------------------------------------
# 4. derived representations
@st.composite
def derived_case(draw, max_dim=4, nwords=3, wlen=10, **kw):
    c = draw(G.rep_case(max_dim=max_dim, **kw))
    c["words"] = [draw(G.word(c["names"], wlen)) for _ in range(nwords)]
    return c


def cond_of(M):
    M = np.asarray(M)
    return O.norm2(M) * O.norm2(np.linalg.inv(M))


def check_derived(ctx, case, L, drep, f, what, degree=1, extra_cond=1.0,
                  extract=np.asarray, D=None, words=None, evaluate=None):
    """derived_rep[w] == f(rho(w)) for the words of the case"""
    if D is None:
        D = L.derived(f, degree, extra_cond)
    for w in (case["words"] if words is None else words):
        G.word_labels(ctx, w, L)
        val = drep[wstr(w)] if evaluate is None else evaluate(drep, w)
        got = as_num(extract(val))
        P, bp = L.eval(w)
        want = np.asarray(f(P))
        _, bd = D.eval(w)
        nP = max(O.norm2(P), 1e-300)
        own = degree * extra_cond * cond_of(P) * (bp / nP) * max(O.norm2(want), 1.0)
        ctx.check(got.shape == want.shape, what + ": shape", got=got.shape, want=want.shape)
        ctx.close(what, got, want, rtol=0, atol=tol(bd + own, want), word=wstr(w))


def reeval(ctx, rep, case, before, what):
    """the parent evaluates every word exactly as before"""
    for w, b in zip(case["words"], before):
        ctx.check(np.array_equal(np.asarray(rep[wstr(w)]), b),
                  "parent image of a word changed by " + what, word=wstr(w))


def start(case, ctx):
    rep, L, mats = G.build(case)
    G.base_labels(ctx, case)
    guard = G.Guard(rep)
    before = [np.array(rep[wstr(w)], copy=True) for w in case["words"]]
    return rep, L, mats, guard, before


def finish(ctx, rep, case, guard, before, what):
    guard.check(ctx, rep, what)
    reeval(ctx, rep, case, before, what)


# -- copy
def body_copy(case, ctx):
    rep, L, mats, guard, before = start(case, ctx)
    cp = Representation(rep)
    ctx.check(list(cp.generators) == list(rep.generators), "copy has the same generator names")
    ctx.check(cp.dim == rep.dim and cp.parse_simple == rep.parse_simple, "copy dim/parse_simple")
    for w, b in zip(case["words"], before):
        G.word_labels(ctx, w, L)
        ctx.check(np.array_equal(np.asarray(cp[wstr(w)]), b), "copy[w] == rep[w]", word=wstr(w))
    # copying a sub-family of generators (with their inverse names)
    keep = case["names"][:1]
    sub = Representation(rep, generator_names=G.letters_of(keep))
    ctx.check(list(sub.asym_gens()) == keep, "copy with generator_names keeps those generators")
    g = keep[0]
    ctx.check(np.array_equal(np.asarray(sub[g + O.swap(g) + g]), np.asarray(rep[g + O.swap(g) + g])),
              "restricted copy evaluates words alike")
    # assigning in the copy does not reach the parent
    cp[case["names"][0]] = 2.0 * np.eye(case["n"])
    cp["z" if "z" not in case["names"] else "y"] = np.eye(case["n"])
    finish(ctx, rep, case, guard, before, "assignment in a copy")


# -- conjugate
@st.composite
def conj_case(draw):
    c = draw(derived_case(max_dim=5))
    ck = "complex" if (c["kind"] == "complex" and draw(st.booleans())) else "real"
    c["ckind"] = ck
    c["C"] = draw(G.matrix(c["n"], ck, 3.0))
    c["give_inv"] = draw(st.booleans())
    return c


def body_conjugate(case, ctx):
    rep, L, mats, guard, before = start(case, ctx)
    C = G.decode(case["C"], case["ckind"])
    Ci = np.linalg.inv(C)
    ctx.label("C=" + case["ckind"], "give_inv" if case["give_inv"] else "")
    if case["give_inv"]:
        d = rep.conjugate(C.copy(), inv_mat=Ci.copy())
    else:
        d = rep.conjugate(C.copy())
    ctx.check(type(d) is Representation, "conjugate returns a Representation")
    ctx.check(list(d.generators) == list(rep.generators), "conjugate keeps the generator names")
    cc = cond_of(C)
    check_derived(ctx, case, L, d, lambda M: Ci @ M @ C, "conjugate(C)[w] = C^-1 rho(w) C",
                  degree=1, extra_cond=cc * cc)
    finish(ctx, rep, case, guard, before, "conjugate")


# -- dual
def body_dual(case, ctx):
    rep, L, mats, guard, before = start(case, ctx)
    d = rep.dual()
    ctx.check(list(d.generators) == list(rep.generators), "dual keeps the generator names")
    check_derived(ctx, case, L, d, lambda M: np.linalg.inv(M).T, "dual[w] = rho(w)^-T", degree=1)
    # the dual of the dual
    dd = d.dual()
    check_derived(ctx, case, L, dd, lambda M: M, "dual.dual[w] = rho(w)", degree=2)
    finish(ctx, rep, case, guard, before, "dual")


# -- compose
def _block_sum(M):
    n = M.shape[0]
    out = np.zeros((2 * n, 2 * n), dtype=np.result_type(M.dtype, float))
    out[:n, :n] = M
    out[n:, n:] = np.linalg.inv(M).T
    return out


def _block_include(M, d):
    n = M.shape[0]
    out = np.eye(d, dtype=np.result_type(M.dtype, float))
    out[:n, :n] = M
    return out


def sl2_irrep_oracle(A, n):
    """matrix of Sym^(n-1)(A) in the documented monomial basis, from the Veronese map:
    irrep(A) nu(v) = nu(A v) for n vectors v in general position"""
    A = np.asarray(A)
    vs = [np.array([np.cos(np.pi * k / n), np.sin(np.pi * k / n)]) for k in range(n)]
    N = np.array([O.veronese(v, n) for v in vs]).T
    Wm = np.array([O.veronese(A @ v, n) for v in vs]).T
    return Wm @ np.linalg.inv(N)


def hom_menu(n, kind):
    """name -> (library-side hom, reference f, degree)"""
    from geometry_tools.lie import hom as H
    menu = {
        "identity": (lambda M: M, lambda M: M, 1),
        "kron": (lambda M: np.kron(M, M), lambda M: np.kron(M, M), 2),
        "inverse_transpose": (lambda M: np.linalg.inv(M).T, lambda M: np.linalg.inv(M).T, 1),
        "uses_inv_argument": (lambda M, inv=None: inv.T, lambda M: np.linalg.inv(M).T, 1),
        "det": (lambda M: np.array([[np.linalg.det(M)]]), lambda M: np.array([[np.linalg.det(M)]]),
                n),
        "entrywise_conjugate": (lambda M: np.conj(M), lambda M: np.conj(M), 1),
        "block_sum_with_dual": (_block_sum, _block_sum, 1),
        "lie.hom.block_include": (H.block_include(n + 2), lambda M: _block_include(M, n + 2), 1),
        "lie.hom.slc_to_slr": (H.slc_to_slr(), O.real_block_form, 1),
    }
    if n <= 3:
        menu["lie.hom.gln_adjoint"] = (H.gln_adjoint(), O.gln_adjoint, 2)
    if 2 <= n <= 3:
        menu["lie.hom.sln_adjoint"] = (H.sln_adjoint(), O.sln_adjoint, 2)
    if n == 2:
        for m in (2, 3, 4, 5):
            menu["lie.hom.sl2_irrep(%d)" % m] = (H.sl2_irrep(m),
                                                  (lambda M, m=m: sl2_irrep_oracle(M, m)), m - 1)
    return menu


HOM_NAMES = ["identity", "kron", "inverse_transpose", "uses_inv_argument", "det",
             "entrywise_conjugate", "block_sum_with_dual", "lie.hom.block_include",
             "lie.hom.slc_to_slr", "lie.hom.gln_adjoint", "lie.hom.sln_adjoint",
             "lie.hom.sl2_irrep(2)", "lie.hom.sl2_irrep(3)", "lie.hom.sl2_irrep(4)",
             "lie.hom.sl2_irrep(5)"]


@st.composite
def compose_case(draw):
    c = draw(derived_case(max_dim=4, wlen=8, intdtype=False))
    c["hom"] = draw(st.integers(0, 63))
    c["compute_inverses"] = draw(st.booleans())
    return c


def body_compose(case, ctx):
    rep, L, mats, guard, before = start(case, ctx)
    menu = hom_menu(case["n"], case["kind"])
    avail = [h for h in HOM_NAMES if h in menu]
    name = avail[case["hom"] % len(avail)]
    lib, ref, degree = menu[name]
    ctx.label("hom=" + name, "compute_inverses=%s" % case["compute_inverses"])
    kw = {"compute_inverses": True} if case["compute_inverses"] else {}
    d = rep.compose(lib, **kw)
    ctx.check(list(d.asym_gens()) == list(rep.asym_gens()), "compose keeps the generators")
    ctx.check(set(d.generators) == set(rep.generators), "compose keeps the inverse names")
    check_derived(ctx, case, L, d, ref, "compose(hom)[w] = hom(rho(w))", degree=max(degree, 1),
                  extra_cond=L.cond())
    finish(ctx, rep, case, guard, before, "compose")


# -- tensor product
@st.composite
def tensor_case(draw):
    n1 = draw(st.integers(1, 4))
    n2 = draw(st.integers(1, 3 if n1 > 3 else 4 if n1 > 2 else 5))
    k = draw(st.integers(1, 3))
    names = draw(G.names_single(k))
    k1 = draw(st.sampled_from(["real", "complex", "int"]))
    k2 = draw(st.sampled_from(["real", "complex", "int"]))
    c = dict(n=n1, kind=k1, names=names, intdtype=False,
             mats=[draw(G.matrix(n1, k1)) for _ in range(k)])
    c["second"] = dict(n=n2, kind=k2, names=names, intdtype=False,
                       mats=[draw(G.matrix(n2, k2)) for _ in range(k)])
    c["words"] = [draw(G.word(names, 10)) for _ in range(3)]
    c["same"] = draw(st.integers(0, 4)) == 0
    return c


def letters2(L1, L2, f, degree=2):
    D = O.Letters()
    for x in L1.mat:
        FM = np.asarray(f(L1.mat[x], L2.mat[x]))
        D.mat[x] = FM
        D.n = FM.shape[0]
        D.nrm[x] = O.norm2(FM)
        rel = (L1.err[x] / max(L1.nrm[x], 1e-300) + L2.err[x] / max(L2.nrm[x], 1e-300)
               + 16 * D.n * O.EPS)
        D.err[x] = 4 * degree * rel * max(D.nrm[x], 1.0)
    return D


def body_tensor(case, ctx):
    rep, L, mats, guard, before = start(case, ctx)
    if case["same"]:
        rep2, L2 = rep, L
        ctx.label("tensor-with-itself")
    else:
        rep2, L2, _ = G.build(case["second"])
        ctx.label("kinds=%s,%s" % (case["kind"], case["second"]["kind"]),
                  "dims=%dx%d" % (L.n, L2.n))
    g2 = G.Guard(rep2)
    t = rep.tensor_product(rep2)
    ctx.check(t.dim == L.n * L2.n, "tensor product dimension", got=t.dim)
    ctx.check(set(t.generators) == set(rep.generators), "tensor product generator names")
    D = letters2(L, L2, np.kron)
    for w in case["words"]:
        G.word_labels(ctx, w, L)
        got = np.asarray(t[wstr(w)])
        P1, b1 = L.eval(w)
        P2, b2 = L2.eval(w)
        want = np.kron(P1, P2)
        _, bd = D.eval(w)
        own = b1 * O.norm2(P2) + b2 * O.norm2(P1)
        ctx.close("tensor_product[w] = kron(rho1(w), rho2(w))", got, want, rtol=0,
                  atol=tol(bd + own, want), word=wstr(w))
    g2.check(ctx, rep2, "tensor_product (second factor)")
    finish(ctx, rep, case, guard, before, "tensor_product")
    # differing generating sets are refused
    other = Representation()
    other["z" if "z" not in case["names"] else "y"] = np.eye(L2.n)
    try:
        rep.tensor_product(other)
        ctx.fail("tensor_product accepted representations with different generators")
    except ValueError:
        pass


# -- symmetric square
def body_symmetric_square(case, ctx):
    rep, L, mats, guard, before = start(case, ctx)
    n = case["n"]
    s = rep.symmetric_square()
    m = n * (n + 1) // 2
    ctx.check(s.dim == m, "dimension of the symmetric square", got=s.dim, want=m)
    ctx.check(set(s.generators) == set(rep.generators), "symmetric square generator names")
    check_derived(ctx, case, L, s, O.sym2,
                  "symmetric_square[w] = P kron(rho(w), rho(w)) iota (documented bases)", degree=2)
    # intrinsic characterisation: Sym^2(rho)(v.v) = (rho v).(rho v)
    vec = np.array(case["vec"], dtype=float)
    for w in case["words"]:
        P, bp = L.eval(w)
        got = np.asarray(s[wstr(w)])
        lhs = got @ O.sym_square_vector(vec)
        rhs = O.sym_square_vector(P @ vec)
        D = L.derived(O.sym2, 2)
        sc = (D.eval(w)[1] + 2 * bp * O.norm2(P)) * 4 * n * max(1.0, float(vec @ vec))
        ctx.close("symmetric_square[w] (v.v) = (rho(w) v).(rho(w) v)", lhs, rhs, rtol=0,
                  atol=tol(sc, rhs), word=wstr(w))
    finish(ctx, rep, case, guard, before, "symmetric_square")


@st.composite
def sym_case(draw):
    c = draw(derived_case(max_dim=4, wlen=8))
    c["vec"] = [draw(fl(-2.0, 2.0)) for _ in range(c["n"])]
    return c


def exhaustive_sym_bases(tier):
    return [("documented bases of Sym^2(R^n) and R^n (x) R^n, n = 1..%d" % (8 if tier == "quick" else 12),
             [dict(n=n) for n in range(1, 9 if tier == "quick" else 13)])]


def body_sym_bases(case, ctx):
    n = case["n"]
    ctx.label("n=%d" % n)
    order = O.sym_order(n)
    for s, (i, j) in enumerate(order):
        ctx.check(R.sym_index(i, j, n) == s and R.sym_index(j, i, n) == s,
                  "sym_index follows the documented order", i=i, j=j, got=R.sym_index(i, j, n),
                  want=s)
    ctx.check(sorted(R.sym_index(i, j, n) for (i, j) in order) == list(range(n * (n + 1) // 2)),
              "sym_index is a bijection onto 0..n(n+1)/2-1")
    for i in range(n):
        for j in range(n):
            t = R.tensor_index(i, j, n)
            ctx.check(t == i * n + j, "tensor_index is row-major", i=i, j=j, got=t)
            ctx.check(tuple(R.tensor_pos(t, n)) == (i, j), "tensor_pos inverts tensor_index",
                      got=R.tensor_pos(t, n))
    inc = np.asarray(R.symmetric_inclusion(n))
    pro = np.asarray(R.symmetric_projection(n))
    ctx.check(inc.shape == (n * n, n * (n + 1) // 2), "symmetric_inclusion shape", got=inc.shape)
    ctx.check(pro.shape == (n * (n + 1) // 2, n * n), "symmetric_projection shape", got=pro.shape)
    ctx.close("symmetric_inclusion vs documented map", inc, O.sym_inclusion(n), rtol=0, atol=0)
    ctx.close("symmetric_projection vs documented map", pro, O.sym_projection(n), rtol=0, atol=0)
    ctx.close("projection o inclusion = identity", pro @ inc, np.eye(n * (n + 1) // 2), rtol=0,
              atol=1e-15)


# -- subgroup
@st.composite
def subgroup_case(draw):
    c = draw(derived_case(max_dim=4, nwords=0))
    k = draw(st.integers(1, 3))
    c["subwords"] = [draw(G.word(c["names"], 5)) for _ in range(k)]
    c["form"] = draw(st.sampled_from(["list", "dict", "names", "names_noinverse", "list_noinverse"]))
    c["subnames"] = draw(st.lists(st.sampled_from(list("pqrstuvw")), min_size=k, max_size=k,
                                  unique=True))
    snames = list("abc"[:k]) if c["form"].startswith("list") else c["subnames"]
    c["words"] = [draw(G.word(snames, 6)) for _ in range(3)]
    return c


def body_subgroup(case, ctx):
    rep, L, mats = G.build(case)
    G.base_labels(ctx, case)
    guard = G.Guard(rep)
    subwords = case["subwords"]
    k = len(subwords)
    form = case["form"]
    ctx.label("form=" + form, "subgens=%d" % k)
    strs = [wstr(w) for w in subwords]
    if form == "list":
        sub = rep.subgroup(strs)
        snames = list("abc"[:k])
    elif form == "list_noinverse":
        sub = rep.subgroup(strs, compute_inverse=False)
        snames = list("abc"[:k])
    elif form == "dict":
        snames = case["subnames"]
        sub = rep.subgroup(dict(zip(snames, strs)))
    elif form == "names":
        snames = case["subnames"]
        sub = rep.subgroup(strs, generator_names=snames)
    else:
        snames = case["subnames"]
        sub = rep.subgroup(strs, generator_names=snames, compute_inverse=False)
    ctx.check(list(sub.asym_gens()) == snames, "subgroup generator names", got=list(sub.asym_gens()),
              want=snames)
    ctx.check(set(sub.generators) == set(G.letters_of(snames)), "subgroup inverse names")
    # reference letters of the subgroup
    D = O.Letters()
    D.n = L.n
    for s, w in zip(snames, subwords):
        P, b = L.eval(w)
        Pi, bi = L.eval(O.inverse_word(w))
        c = O.norm2(P) * O.norm2(Pi)
        D.mat[s], D.mat[O.swap(s)] = P, Pi
        D.nrm[s], D.nrm[O.swap(s)] = O.norm2(P), O.norm2(Pi)
        D.err[s] = 16 * b + 16 * c * c * L.n * O.EPS * D.nrm[s]
        D.err[O.swap(s)] = 16 * bi + 16 * (b * D.nrm[O.swap(s)] ** 2 + c * L.n * O.EPS *
                                          D.nrm[O.swap(s)])
    subst = {}
    for s, w in zip(snames, subwords):
        subst[s] = list(w)
        subst[O.swap(s)] = O.inverse_word(w)
    for w in case["words"]:
        full = [y for x in w for y in subst[x]]
        G.word_labels(ctx, full, L)
        got = np.asarray(sub[wstr(w)])
        want, b = L.eval(full)
        _, bd = D.eval(w)
        ctx.close("subgroup[w'] = rho(substituted word)", got, want, rtol=0, atol=tol(bd + b, want),
                  word=wstr(w), substituted=wstr(full))
    guard.check(ctx, rep, "subgroup")


# -- adjoints
@st.composite
def adjoint_case(draw, min_dim=1):
    n = draw(st.sampled_from([d for d in [1, 2, 2, 3, 3, 4] if d >= min_dim]))
    c = draw(derived_case(max_dim=n, min_dim=n, wlen=8, max_gens=3))
    return c


def body_adjoint(which):
    ref = O.gln_adjoint if which == "gln" else O.sln_adjoint

    def body(case, ctx):
        if case.get("intdtype"):
            # finding (reported): the adjoint of an int64-typed representation is truncated
            ctx.label("excluded:int64-dtype-adjoint")
            case = dict(case, intdtype=False)
        rep, L, mats, guard, before = start(case, ctx)
        n = case["n"]
        d = rep.gln_adjoint() if which == "gln" else rep.sln_adjoint()
        m = n * n if which == "gln" else n * n - 1
        ctx.check(d.dim == m, "dimension of the adjoint", got=d.dim, want=m)
        ctx.check(list(d.generators) == list(rep.generators), "adjoint keeps the generator names")
        check_derived(ctx, case, L, d, ref,
                      "%s_adjoint[w] = matrix of X -> rho(w) X rho(w)^-1" % which, degree=2)
        # intrinsic: Ad(g) coords(X) = coords(g X g^-1)
        X = np.array(case["X"], dtype=float).reshape(n, n)
        if which == "sln":
            X = X - np.trace(X) / n * np.eye(n)
            X[n - 1, n - 1] = -np.trace(X[:n - 1, :n - 1]) if n > 1 else 0.0
        D = L.derived(ref, 2)
        for w in case["words"]:
            P, bp = L.eval(w)
            Pi = np.linalg.inv(P)
            Y = P @ X @ Pi
            cx = X.reshape(n * n) if which == "gln" else O.sln_coords(X)
            cy = Y.reshape(n * n) if which == "gln" else O.sln_coords(Y)
            got = as_num(d[wstr(w)]) @ cx
            cp = O.norm2(P) * O.norm2(Pi)
            sc = (D.eval(w)[1] + 8 * cp * cp * (bp / max(O.norm2(P), 1e-300) + n * O.EPS)) \
                * max(1.0, O.norm2(X)) * n
            ctx.close("adjoint[w] coords(X) = coords(rho(w) X rho(w)^-1)", got, cy, rtol=0,
                      atol=tol(sc, cy), word=wstr(w))
        finish(ctx, rep, case, guard, before, which + "_adjoint")
    return body


@st.composite
def adjoint_case_x(draw, min_dim=1):
    c = draw(adjoint_case(min_dim))
    c["X"] = [draw(fl(-2.0, 2.0)) for _ in range(c["n"] ** 2)]
    return c


# -- astype
@st.composite
def astype_case(draw):
    c = draw(derived_case(max_dim=4, wlen=8))
    opts = ["complex128", "float64"] if c["kind"] != "complex" else ["complex128"]
    if c["kind"] == "real":
        opts.append("float32")
    if c["kind"] == "complex":
        opts.append("complex64")
    c["dtype"] = draw(st.sampled_from(opts))
    return c


def body_astype(case, ctx):
    rep, L, mats, guard, before = start(case, ctx)
    dt = np.dtype(case["dtype"])
    ctx.label("to=" + case["dtype"])
    d = rep.astype(dt)
    ctx.check(np.dtype(d.dtype) == dt, "astype sets the dtype of the representation",
              got=str(d.dtype))
    ctx.check(list(d.generators) == list(rep.generators), "astype keeps the generator names")
    for g in d.generators:
        ctx.check(d.generators[g].dtype == dt, "astype converts every stored matrix", g=g,
                  got=str(d.generators[g].dtype))
    single = dt in (np.dtype("float32"), np.dtype("complex64"))
    for w in case["words"]:
        G.word_labels(ctx, w, L)
        got = np.asarray(d[wstr(w)])
        want, b = L.eval(w)
        ctx.check(got.dtype == dt, "dtype of an image under astype", got=str(got.dtype),
                  word=wstr(w))
        if single:
            ctx.close("astype(single precision)[w] = rho(w)", got, want, rtol=0,
                      atol=2e-6 * (len(w) + 1) * L.n * L.growth(w) * L.cond(), word=wstr(w))
        else:
            ctx.close("astype[w] = rho(w)", got, want, rtol=0, atol=tol(b, want), word=wstr(w))
    finish(ctx, rep, case, guard, before, "astype")


# -- projective / hyperbolic wrapping
def body_projective(case, ctx):
    from geometry_tools import projective
    rep, L, mats, guard, before = start(case, ctx)
    n = case["n"]
    how = case["how"]
    ctx.label("how=" + how)
    if how == "wrap":
        p = projective.ProjectiveRepresentation(rep)
    else:
        p = projective.ProjectiveRepresentation()
        for g, M in zip(case["names"], mats):
            if how == "assign_column":
                p[g] = projective.Transformation(M.astype(complex if case["kind"] == "complex"
                                                          else float), column_vectors=True)
            else:
                p[g] = projective.Transformation(M.T.astype(complex if case["kind"] == "complex"
                                                            else float).copy())
    ctx.check(list(p.asym_gens()) == case["names"], "wrapped generator names")
    for w in case["words"]:
        T = p[wstr(w)]
        ctx.check(type(T) is projective.Transformation, "images are Transformation objects",
                  got=type(T).__name__)
        ctx.check(T.shape == (), "a word maps to a single transformation", got=T.shape)
    check_derived(ctx, case, L, p, lambda M: M, "column matrix of ProjectiveRepresentation[w] = rho(w)",
                  extract=lambda T: np.asarray(T.matrix).T)
    ws = [wstr(w) for w in case["words"]]
    for comp in (p.elements(ws), p.transformations(ws)):
        ctx.check(type(comp) is projective.Transformation and comp.shape == (len(ws),),
                  "elements() gives a composite Transformation", got=getattr(comp, "shape", None))
        for i, w in enumerate(case["words"]):
            ctx.check(np.array_equal(np.asarray(comp.matrix)[i], np.asarray(p[wstr(w)].matrix)),
                      "composite entry i is the image of word i", i=i)
    # the transformation acts on a point as rho(w) on its column of coordinates
    x = np.array(case["vec"], dtype=float)
    pt = projective.Point(x.copy())
    for w in case["words"]:
        P, bp = L.eval(w)
        img = np.asarray((p[wstr(w)] @ pt).proj_data)
        want = P @ x
        sc = max(np.max(np.abs(want)), 1e-300)
        # projective equality with an error budget of the product's bound
        from ..num import proj_dist
        if np.linalg.norm(want) > 1e-6 * max(1.0, O.norm2(P)) * np.linalg.norm(x):
            ctx.small("rep[w] @ point = rho(w) x (projectively)", proj_dist(img, want),
                      1e-9 + 64 * (bp + 8 * n * O.EPS * O.norm2(P)) * np.linalg.norm(x)
                      / np.linalg.norm(want), word=wstr(w))
    # derived representations of a wrapped representation stay wrapped and agree
    C = np.eye(n) + np.triu(np.ones((n, n)), 1)
    pc = p.conjugate(projective.Transformation(C, column_vectors=True))
    ctx.check(type(pc) is projective.ProjectiveRepresentation, "conjugate keeps the class")
    Ci = np.linalg.inv(C)
    check_derived(ctx, case, L, pc, lambda M: Ci @ M @ C,
                  "wrapped conjugate(Transformation C)[w] = C^-1 rho(w) C",
                  extra_cond=cond_of(C) ** 2, extract=lambda T: np.asarray(T.matrix).T)
    finish(ctx, rep, case, guard, before, "ProjectiveRepresentation(rep)")


@st.composite
def projective_case(draw):
    c = draw(derived_case(max_dim=5, min_dim=2, wlen=10, intdtype=False))
    c["how"] = draw(st.sampled_from(["wrap", "wrap", "assign_column", "assign_row"]))
    c["vec"] = [draw(fl(-2.0, 2.0)) for _ in range(c["n"] - 1)] + [draw(st.sampled_from([1.0, -1.5]))]
    return c


@st.composite
def lorentz(draw, m):
    """matrix in O(m-1, 1) for the form diag(-1, 1, ..., 1): a few boosts and rotations,
    maybe a reflection"""
    M = np.eye(m)
    for _ in range(draw(st.integers(0, 3))):
        E = np.eye(m)
        if m == 2 or draw(st.booleans()):
            i = draw(st.integers(1, m - 1))
            t = draw(fl(-1.2, 1.2))
            E[0, 0] = E[i, i] = np.cosh(t)
            E[0, i] = E[i, 0] = np.sinh(t)
        else:
            i = draw(st.integers(1, m - 2))
            j = draw(st.integers(i + 1, m - 1))
            t = draw(st.one_of(fl(-np.pi, np.pi), st.sampled_from([np.pi / 2, np.pi])))
            E[i, i] = E[j, j] = np.cos(t)
            E[i, j] = -np.sin(t)
            E[j, i] = np.sin(t)
        M = M @ E
    if draw(st.integers(0, 3)) == 0:
        M[:, draw(st.integers(1, m - 1))] *= -1.0
    return [[float(x) for x in row] for row in M]


@st.composite
def hyperbolic_case(draw):
    m = draw(st.integers(2, 5))
    k = draw(st.integers(1, 3))
    names = draw(G.names_single(k))
    c = dict(n=m, kind="real", names=names, intdtype=False,
             mats=[draw(lorentz(m)) for _ in range(k)])
    c["words"] = [draw(G.word(names, 10)) for _ in range(3)]
    c["how"] = draw(st.sampled_from(["wrap", "assign"]))
    return c


def body_hyperbolic(case, ctx):
    from geometry_tools import hyperbolic, projective
    rep, L, mats, guard, before = start(case, ctx)
    n = case["n"]
    ctx.label("how=" + case["how"])
    if case["how"] == "wrap":
        h = hyperbolic.HyperbolicRepresentation(rep)
    else:
        h = hyperbolic.HyperbolicRepresentation()
        for g, M in zip(case["names"], mats):
            h[g] = hyperbolic.Isometry(M.copy(), column_vectors=True)
    for w in case["words"]:
        T = h[wstr(w)]
        ctx.check(type(T) is hyperbolic.Isometry and T.shape == (), "images are single Isometry objects",
                  got=type(T).__name__)
    ext = lambda T: np.asarray(T.matrix).T
    check_derived(ctx, case, L, h, lambda M: M, "column matrix of HyperbolicRepresentation[w] = rho(w)",
                  extract=ext)
    ws = [wstr(w) for w in case["words"]]
    comp = h.isometries(ws)
    ctx.check(type(comp) is hyperbolic.Isometry and comp.shape == (len(ws),),
              "isometries() gives a composite Isometry")
    for i, w in enumerate(case["words"]):
        ctx.check(np.array_equal(np.asarray(comp.matrix)[i], np.asarray(h[wstr(w)].matrix)),
                  "composite entry i is the image of word i", i=i)
    # compose / gln_adjoint of a hyperbolic representation are projective representations
    hc = h.compose(lambda M: np.linalg.inv(M).T)
    ctx.check(type(hc) is projective.ProjectiveRepresentation,
              "HyperbolicRepresentation.compose gives a ProjectiveRepresentation",
              got=type(hc).__name__)
    check_derived(ctx, case, L, hc, lambda M: np.linalg.inv(M).T,
                  "HyperbolicRepresentation.compose(hom)[w] = hom(rho(w))", extract=ext)
    if n <= 3:
        ha = h.gln_adjoint()
        ctx.check(type(ha) is projective.ProjectiveRepresentation,
                  "HyperbolicRepresentation.gln_adjoint gives a ProjectiveRepresentation",
                  got=type(ha).__name__)
        check_derived(ctx, case, L, ha, O.gln_adjoint,
                      "HyperbolicRepresentation.gln_adjoint[w] = Ad(rho(w))", degree=2, extract=ext)
    finish(ctx, rep, case, guard, before, "HyperbolicRepresentation(rep)")


LAWS = [
    Law("word_homomorphism", hom_case(), body_word_homomorphism, G.nontrivial, quick=150,
        thorough=1500, shards=(2, 8)),
    Law("words_exhaustive", None, body_words_exhaustive, G.nontrivial, exhaustive=exhaustive_words),
    Law("free_reduction_invariant", reduction_case(), body_free_reduction, G.nontrivial, quick=150,
        thorough=1500, shards=(1, 4)),
    Law("derived_copy", derived_case(max_dim=5), body_copy, G.nontrivial, quick=60, thorough=600,
        shards=(1, 2)),
    Law("derived_conjugate", conj_case(), body_conjugate, G.nontrivial, quick=80, thorough=800,
        shards=(1, 4)),
    Law("derived_dual", derived_case(max_dim=5), body_dual, G.nontrivial, quick=80, thorough=800,
        shards=(1, 4)),
    Law("derived_compose", compose_case(), body_compose, G.nontrivial, quick=120, thorough=1200,
        shards=(1, 4)),
    Law("derived_tensor_product", tensor_case(), body_tensor, G.nontrivial, quick=80, thorough=800,
        shards=(1, 4)),
    Law("derived_symmetric_square", sym_case(), body_symmetric_square, G.nontrivial, quick=80,
        thorough=800, shards=(1, 4)),
    Law("symmetric_square_bases", None, body_sym_bases, lambda l: True,
        exhaustive=exhaustive_sym_bases),
    Law("derived_subgroup", subgroup_case(), body_subgroup, G.nontrivial, quick=100, thorough=1000,
        shards=(1, 4)),
    Law("derived_gln_adjoint", adjoint_case_x(1), body_adjoint("gln"), G.nontrivial, quick=60,
        thorough=600, shards=(1, 4)),
    Law("derived_sln_adjoint", adjoint_case_x(2), body_adjoint("sln"), G.nontrivial, quick=60,
        thorough=600, shards=(1, 4)),
    Law("derived_astype", astype_case(), body_astype, G.nontrivial, quick=80, thorough=800,
        shards=(1, 2)),
    Law("derived_projective", projective_case(), body_projective, G.nontrivial, quick=80,
        thorough=800, shards=(1, 4)),
    Law("derived_hyperbolic", hyperbolic_case(), body_hyperbolic, G.nontrivial, quick=80,
        thorough=800, shards=(1, 4)),
]
