"""C05 - representations are word homomorphisms; derived ones commute with evaluation."""
import itertools
import numpy as np
from hypothesis import strategies as st

from ..core import Law, HarnessError
from .. import gen
from ..gen import fl
from ..oracles import rep as O
from . import c05_gen as G
from .c05_gen import wstr

from geometry_tools.representation import Representation
from geometry_tools import representation as R
from geometry_tools.utils import words as W

RULE = ("cases: dimension n in 1..5, 1-4 generators, matrices real well-conditioned (orthogonal x "
        "diagonal in +-[1/2,2] x unipotent, special: identity, -I, permutation, diagonal), complex, "
        "or unimodular integer (products of <= 5 elementary matrices; given as float64 or int64); "
        "words over generators and inverses: every word of length <= 4 (thorough 7) over two "
        "generators on three fixed representations, random words up to length 30 incl. "
        "u v u^-1, powers, commutators and words with inserted cancelling pairs; multi-character "
        "names through rep[[...]], element(star string, parse_simple=False) and elements() of a "
        "parse_simple=False representation; histories of generator assignments by lower- and "
        "upper-case name.  non-trivial = a word of length >= 3 using >= 2 generators and an "
        "inverse letter with non-commuting images (for the history law: >= 3 assignments with a "
        "re-assignment); distinct = distinct JSON case.")

ASSUMPTIONS = [
    "generator matrices have condition number <= ~1e3; comparisons use a running rounding-error "
    "bound computed in the harness from the norms of the actual prefix products (x16), identities "
    "on integer generators and positive words are compared to 1e-9 absolute",
    "rep['s0*s1'] (character-wise parsing of star strings), the empty star string, parentheses "
    "in star strings, fox_word_derivative on the empty word / list words are not claimed",
    "tensor_product / symmetric_square of representations with multi-character generator names "
    "and gln_adjoint / sln_adjoint of int64-typed representations are excluded (reported "
    "separately as findings, counted under the labels excluded:*)",
    "float64 / complex128 / int64 numpy back end only (Sage not installed)",
]

CLAIM = dict(
    text=("Word evaluation of Representation objects is a homomorphism from the free monoid on "
          "generators and inverse names (left-to-right product, empty word to identity, swapped "
          "case to the inverse, invariant under free reduction), every derived representation "
          "(copy, conjugate, dual, compose, tensor_product, symmetric_square, subgroup, "
          "gln/sln_adjoint, astype, Projective/HyperbolicRepresentation) evaluates a word to the "
          "stated function of the original image without mutating the parent, and the Fox "
          "differential satisfies the fundamental formula."),
    note=("exploration: exhaustive over short words on three fixed representations, randomised "
          "elsewhere; trusted: numpy/LAPACK, the reference models in vt/oracles/rep.py, stated "
          "tolerances and generator bounds"),
    technique="property-based testing (Hypothesis) with reference models, exhaustive enumeration of short words, model-based history testing",
)


# ---------------------------------------------------------------------------
def tol(bound, want, exact=False):
    if exact:
        return 1e-9
    return 16 * bound + 1e-13 * max(1.0, float(np.max(np.abs(want))) if np.size(want) else 1.0)


def as_num(x):
    """library matrices may come back with dtype=object (lie adjoints); make them numeric"""
    x = np.asarray(x)
    if x.dtype == object:
        try:
            return x.astype(float)
        except (TypeError, ValueError):
            return x.astype(complex)
    return x


def cmp_word(ctx, name, got, L, w, case=None, **detail):
    """compare a library value with the reference evaluation of the word w"""
    got = as_num(got)
    want, b = L.eval(w)
    ctx.check(got.shape == want.shape, name + ": shape", got=got.shape, want=want.shape)
    exact = False
    if case is not None and case["kind"] == "int" and all(x == x.lower() for x in w):
        # positive word over integer generators: exact in float64 / int64 while the prefix
        # products stay below 2^53
        ints = {nm: [[int(v) for v in row] for row in m]
                for nm, m in zip(case["names"], case["mats"])}
        P, big = O.int_eval(ints, w, case["n"])
        raw = np.asarray(got)
        if case.get("intdtype") and raw.dtype.kind in "iu" and big * case["n"] < 2 ** 62:
            # int64 generators, positive word: integer arithmetic all the way, exact also
            # beyond 2^53 (where float64 products of the same matrices are not)
            ctx.check(all(int(raw[i][j]) == int(P[i][j]) for i in range(case["n"])
                          for j in range(case["n"])),
                      name + ": exact integer image of a positive word over int64 generators",
                      word=wstr(w), got=raw.tolist(), want=P)
            if big >= 2 ** 53:
                ctx.label("integer-image-beyond-2^53")
        elif case.get("intdtype") and name.startswith("rho("):
            ctx.check(raw.dtype.kind in "iu", name + ": the image of a positive word over "
                      "int64 generators is integer-typed", dtype=str(raw.dtype))
        if big * case["n"] < 2 ** 52:
            want = np.array(P, dtype=float)
            exact = True
            ctx.label("exact-integer-word")
    ctx.close(name, got, want, rtol=0, atol=tol(b, want, exact), word=wstr(w), **detail)
    return want, b


# ---------------------------------------------------------------------------
# 1. word homomorphism
@st.composite
def hom_case(draw):
    c = draw(G.rep_case())
    c["u"] = draw(G.word(c["names"], 30))
    c["v"] = draw(G.word(c["names"], 30 - min(len(c["u"]), 18)))
    return c


def body_word_homomorphism(case, ctx):
    rep, L, mats = G.build(case)
    n, names = case["n"], case["names"]
    u, v = case["u"], case["v"]
    G.base_labels(ctx, case)
    G.word_labels(ctx, u + v, L)
    ctx.check(rep.dim == n, "dim", got=rep.dim)
    ctx.check(list(rep.asym_gens()) == names, "asym_gens lists the assigned generators in order",
              got=list(rep.asym_gens()), want=names)
    ctx.check(rep.num_gens == len(names), "num_gens")
    ctx.check(set(rep.generators) == set(G.letters_of(names)), "generator dict keys",
              got=sorted(rep.generators))
    # letters
    for g, M in zip(names, mats):
        ctx.check(np.array_equal(np.asarray(rep[g]), M), "rho(g) is the assigned matrix", g=g)
        inv = np.asarray(rep[O.swap(g)])
        c = L.nrm[g] * L.nrm[O.swap(g)]
        ctx.close("rho(g^-1) rho(g) = I", inv @ M, np.eye(n), rtol=0, atol=64 * n * O.EPS * c * c
                  + 1e-13, g=g)
        ctx.close("rho(g) rho(g^-1) = I", M @ inv, np.eye(n), rtol=0, atol=64 * n * O.EPS * c * c
                  + 1e-13, g=g)
        ctx.close("rho(g^-1) vs harness inverse", inv, L.mat[O.swap(g)], rtol=0,
                  atol=16 * L.err[O.swap(g)] + 1e-14, g=g)
    # empty word
    e = np.asarray(rep[""])
    ctx.check(e.shape == (n, n) and np.array_equal(e, np.eye(n)), "rho('') is the identity", got=e)
    ctx.check(np.array_equal(np.asarray(rep[[]]), np.eye(n)), "rho([]) is the identity")
    # words
    ru = np.asarray(rep[wstr(u)])
    rv = np.asarray(rep[wstr(v)])
    ruv = np.asarray(rep[wstr(u + v)])
    wu, bu = cmp_word(ctx, "rho(u) vs harness product", ru, L, u, case)
    wv, bv = cmp_word(ctx, "rho(v) vs harness product", rv, L, v, case)
    wuv, buv = cmp_word(ctx, "rho(uv) vs harness product", ruv, L, u + v, case)
    nu, nv = float(np.linalg.norm(wu)), float(np.linalg.norm(wv))
    ctx.close("rho(uv) = rho(u) rho(v)", ruv, ru @ rv, rtol=0,
              atol=16 * (buv + bu * (nv + bv) + bv * nu + 8 * n * O.EPS * nu * nv) + 1e-13,
              u=wstr(u), v=wstr(v))
    # the other entry points evaluate the same product
    ctx.check(np.array_equal(np.asarray(rep.element(wstr(u))), ru), "element(u) == rep[u]")
    ctx.check(np.array_equal(np.asarray(rep[list(u)]), ru), "rep[list of letters] == rep[string]")
    ws = [wstr(u), "", wstr(v), wstr(u + v)]
    el = np.asarray(rep.elements(ws))
    ctx.check(el.shape == (4, n, n), "elements() shape", got=el.shape)
    for i, x in enumerate([ru, e, rv, ruv]):
        ctx.check(np.array_equal(el[i], x), "elements(ws)[i] == rep[ws[i]]", i=i)
    # inverse word
    Wd = O.inverse_word(u)
    rU = np.asarray(rep[wstr(Wd)])
    wU, bU = cmp_word(ctx, "rho(u^-1) vs harness product", rU, L, Wd, case)
    nU = float(np.linalg.norm(wU))
    # rho(u^-1) rho(u) = I up to the conditioning of the two products
    ctx.close("rho(u^-1) rho(u) = I", rU @ ru, np.eye(n), rtol=0,
              atol=16 * (bU * (nu + bu) + bu * nU + 8 * n * O.EPS * nu * nU) + 1e-13, u=wstr(u))


# ---------------------------------------------------------------------------
# 2. every short word on fixed representations
FIXED_REPS = [
    dict(n=2, kind="real", names=["a", "b"], intdtype=False,
         mats=[[[2.0, 1.0], [0.5, 0.75]], [[0.6, -0.8], [0.8, 0.6]]]),
    dict(n=2, kind="complex", names=["a", "b"], intdtype=False,
         mats=[[[[1.0, 0.5], [0.0, 1.0]], [[0.25, 0.0], [1.0, -0.5]]],
               [[[0.0, 1.0], [1.0, 0.0]], [[1.0, 0.0], [0.5, 0.5]]]]),
    dict(n=3, kind="int", names=["a", "b"], intdtype=False,
         mats=[[[1, 1, 0], [0, 1, 0], [2, 0, 1]], [[0, -1, 0], [1, 0, 0], [0, 1, 1]]]),
    dict(n=3, kind="int", names=["a", "b"], intdtype=True,
         mats=[[[1, 1, 0], [0, 1, 0], [2, 0, 1]], [[0, -1, 0], [1, 0, 0], [0, 1, 1]]]),
]


def all_words(alphabet, maxlen):
    for k in range(maxlen + 1):
        for w in itertools.product(alphabet, repeat=k):
            yield "".join(w)


def exhaustive_words(tier):
    Lmax = 4 if tier == "quick" else 7
    ws = list(all_words("abAB", Lmax))
    chunk = 64 if tier == "quick" else 256
    cases = []
    for r in range(len(FIXED_REPS)):
        for i in range(0, len(ws), chunk):
            cases.append(dict(rep=r, words=ws[i:i + chunk]))
    return [("all %d words of length <= %d over {a,b,A,B} on %d fixed representations"
             % (len(ws), Lmax, len(FIXED_REPS)), cases)]


def body_words_exhaustive(case, ctx):
    rc = FIXED_REPS[case["rep"]]
    rep, L, mats = G.build(rc)
    G.base_labels(ctx, rc)
    ctx.label("rep=%d" % case["rep"])
    vals = np.asarray(rep.elements(case["words"]))
    for i, w in enumerate(case["words"]):
        lw = list(w)
        G.word_labels(ctx, lw, L)
        got = np.asarray(rep[w])
        ctx.check(np.array_equal(got, vals[i]), "elements()[i] == rep[w]", w=w)
        cmp_word(ctx, "rho(w) vs harness product", got, L, lw, rc)
        red = O.free_reduce(lw)
        ctx.check(W.simplify_word(w) == wstr(red), "simplify_word vs harness free reduction",
                  w=w, got=W.simplify_word(w), want=wstr(red))
        if red != lw:
            want, b = L.eval(lw)
            cmp_r = np.asarray(rep[wstr(red)])
            ctx.close("rho(w) = rho(free reduction of w)", got, cmp_r, rtol=0,
                      atol=tol(b + L.eval(red)[1], want), w=w)


# ---------------------------------------------------------------------------
# 3. free reduction
@st.composite
def reduction_case(draw):
    c = draw(G.rep_case(max_dim=4))
    r = draw(G.reduced_word(c["names"], 12))
    w = list(r)
    alphabet = G.letters_of(c["names"])
    k = draw(st.integers(0, 8))
    for _ in range(k):
        pos = draw(st.integers(0, len(w)))
        x = draw(st.sampled_from(alphabet))
        w[pos:pos] = [x, O.swap(x)]
    c["r"] = r
    c["w"] = w
    c["u"] = draw(G.word(c["names"], 6))
    c["v"] = draw(G.word(c["names"], 6))
    return c


def body_free_reduction(case, ctx):
    rep, L, mats = G.build(case)
    r, w = case["r"], case["w"]
    G.base_labels(ctx, case)
    G.word_labels(ctx, w, L)
    if O.free_reduce(w) != r:
        raise HarnessError("reference free reduction is not confluent?")
    if len(w) > len(r):
        ctx.label("cancellations=%d" % min((len(w) - len(r)) // 2, 4))
    s = wstr(w)
    ctx.check(W.simplify_word(s) == wstr(r), "simplify_word(string)", got=W.simplify_word(s),
              want=wstr(r), w=s)
    ctx.check(W.simplify_word(list(w), as_string=False) == r, "simplify_word(list, as_string=False)",
              got=W.simplify_word(list(w), as_string=False), want=r)
    ctx.check(W.simplify_word(W.simplify_word(s)) == W.simplify_word(s), "simplify_word idempotent")
    # multi-character names: the same word with names renamed g -> 'x<g>7'
    ren = lambda x: ("x" + x + "7") if x == x.lower() else ("X" + x + "7")
    mw = [ren(x) for x in w]
    ctx.check(W.simplify_word(mw, as_string=False) == [ren(x) for x in r],
              "simplify_word on multi-character names (list form)")
    ctx.check(W.formal_inverse(s) == wstr(O.inverse_word(w)), "formal_inverse(string)",
              got=W.formal_inverse(s), want=wstr(O.inverse_word(w)))
    ctx.check(W.formal_inverse(mw, simple=False) == "*".join(O.swap(x) for x in reversed(mw)),
              "formal_inverse(list, simple=False) is the star-joined inverse word",
              got=W.formal_inverse(mw, simple=False))
    for x in G.letters_of(case["names"]):
        ctx.check(W.invert_gen(x) == O.swap(x) and W.invert_gen(W.invert_gen(x)) == x,
                  "invert_gen is the case swap")
    ctx.check(list(W.asym_gens(G.letters_of(case["names"]))) == list(case["names"]),
              "asym_gens keeps the lower-case names")
    u, v = case["u"], case["v"]
    ctx.check(W.commutator(wstr(u), wstr(v)) ==
              wstr(O.free_reduce(u + v + O.inverse_word(u) + O.inverse_word(v))),
              "commutator(u, v) is the reduced word u v u^-1 v^-1", u=wstr(u), v=wstr(v))
    # images
    rw = np.asarray(rep[s])
    rr = np.asarray(rep[wstr(r)])
    want, bw = cmp_word(ctx, "rho(w) vs harness", rw, L, w, case)
    _, br = cmp_word(ctx, "rho(reduced w) vs harness", rr, L, r, case)
    ctx.close("rho(w) = rho(simplify_word(w))", rw, np.asarray(rep[W.simplify_word(s)]), rtol=0,
              atol=tol(bw + br, want), w=s)
    inv = W.formal_inverse(s)
    full = np.asarray(rep[inv + s])
    _, bf = L.eval(O.inverse_word(w) + w)
    ctx.close("rho(w^-1 w) = I", full, np.eye(case["n"]), rtol=0, atol=tol(bf, np.eye(1)), w=s)



# ---------------------------------------------------------------------------
# 4. derived representations
@st.composite
def derived_case(draw, max_dim=4, nwords=3, wlen=10, **kw):
    c = draw(G.rep_case(max_dim=max_dim, **kw))
    c["words"] = [draw(G.word(c["names"], wlen)) for _ in range(nwords)]
    return c


def cond_of(M):
    M = np.asarray(M)
    # (from the singular values: the product of a long word over integer generators can be
    # so ill-conditioned that an LU-based inverse meets an exactly zero pivot)
    sv = np.linalg.svd(np.asarray(M, dtype=complex if np.iscomplexobj(M) else float),
                       compute_uv=False)
    return float(sv[0] / max(sv[-1], 1e-300))


def check_derived(ctx, case, L, drep, f, what, degree=1, extra_cond=1.0,
                  extract=np.asarray, D=None, words=None, evaluate=None):
    """derived_rep[w] == f(rho(w)) for the words of the case"""
    if D is None:
        D = L.derived(f, degree, extra_cond)
    for w in (case["words"] if words is None else words):
        G.word_labels(ctx, w, L)
        val = drep[wstr(w)] if evaluate is None else evaluate(drep, w)
        got = as_num(extract(val))
        P, bp = L.eval(w)
        kP = cond_of(P)
        if kP > 1e10:
            # the image of this word is too ill-conditioned for f to be applied to it as a
            # whole (inverses inside f): the reference is the product of the images of the
            # letters under f, with its own error bound
            ctx.label("ill-conditioned-word:reference-letter-by-letter")
            want, bd = D.eval(w)
            want = np.asarray(want)
            own = 0.0
        else:
            want = np.asarray(f(P))
            _, bd = D.eval(w)
            nP = max(O.norm2(P), 1e-300)
            own = degree * extra_cond * kP * (bp / nP) * max(O.norm2(want), 1.0)
        ctx.check(got.shape == want.shape, what + ": shape", got=got.shape, want=want.shape)
        ctx.close(what, got, want, rtol=0, atol=tol(bd + own, want), word=wstr(w))


def reeval(ctx, rep, case, before, what):
    """the parent evaluates every word exactly as before"""
    for w, b in zip(case["words"], before):
        ctx.check(np.array_equal(np.asarray(rep[wstr(w)]), b),
                  "parent image of a word changed by " + what, word=wstr(w))


def start(case, ctx):
    rep, L, mats = G.build(case)
    G.base_labels(ctx, case)
    guard = G.Guard(rep)
    before = [np.array(rep[wstr(w)], copy=True) for w in case["words"]]
    return rep, L, mats, guard, before


def finish(ctx, rep, case, guard, before, what):
    guard.check(ctx, rep, what)
    reeval(ctx, rep, case, before, what)


# -- copy
def body_copy(case, ctx):
    rep, L, mats, guard, before = start(case, ctx)
    cp = Representation(rep)
    ctx.check(list(cp.generators) == list(rep.generators), "copy has the same generator names")
    ctx.check(cp.dim == rep.dim and cp.parse_simple == rep.parse_simple, "copy dim/parse_simple")
    for w, b in zip(case["words"], before):
        G.word_labels(ctx, w, L)
        ctx.check(np.array_equal(np.asarray(cp[wstr(w)]), b), "copy[w] == rep[w]", word=wstr(w))
    # copying a sub-family of generators (with their inverse names)
    keep = case["names"][:1]
    sub = Representation(rep, generator_names=G.letters_of(keep))
    ctx.check(list(sub.asym_gens()) == keep, "copy with generator_names keeps those generators")
    g = keep[0]
    ctx.check(np.array_equal(np.asarray(sub[g + O.swap(g) + g]), np.asarray(rep[g + O.swap(g) + g])),
              "restricted copy evaluates words alike")
    # assigning in the copy does not reach the parent
    cp[case["names"][0]] = 2.0 * np.eye(case["n"])
    cp["z" if "z" not in case["names"] else "y"] = np.eye(case["n"])
    finish(ctx, rep, case, guard, before, "assignment in a copy")


# -- conjugate
@st.composite
def conj_case(draw):
    c = draw(derived_case(max_dim=5))
    ck = "complex" if (c["kind"] == "complex" and draw(st.booleans())) else "real"
    c["ckind"] = ck
    c["C"] = draw(G.matrix(c["n"], ck, 3.0))
    c["give_inv"] = draw(st.booleans())
    return c


def body_conjugate(case, ctx):
    rep, L, mats, guard, before = start(case, ctx)
    C = G.decode(case["C"], case["ckind"])
    Ci = np.linalg.inv(C)
    ctx.label("C=" + case["ckind"], "give_inv" if case["give_inv"] else "")
    if case["give_inv"]:
        d = rep.conjugate(C.copy(), inv_mat=Ci.copy())
    else:
        d = rep.conjugate(C.copy())
    ctx.check(type(d) is Representation, "conjugate returns a Representation")
    ctx.check(list(d.generators) == list(rep.generators), "conjugate keeps the generator names")
    cc = cond_of(C)
    check_derived(ctx, case, L, d, lambda M: Ci @ M @ C, "conjugate(C)[w] = C^-1 rho(w) C",
                  degree=1, extra_cond=cc * cc)
    # a change of basis with whole-number entries given as an integer-typed array (and whose
    # inverse is not integral)
    n = case["n"]
    Cz = np.eye(n, dtype=np.int64)
    Cz[0, 0] = 2
    if n >= 2:
        Cz[0, 1] = 1
    dz = rep.conjugate(Cz.copy())
    Czi = np.linalg.inv(Cz.astype(float))
    check_derived(ctx, case, L, dz, lambda M: Czi @ M @ Cz,
                  "conjugate(integer-typed C)[w] = C^-1 rho(w) C", degree=1, extra_cond=9.0)
    finish(ctx, rep, case, guard, before, "conjugate")


# -- dual
def body_dual(case, ctx):
    rep, L, mats, guard, before = start(case, ctx)
    d = rep.dual()
    ctx.check(list(d.generators) == list(rep.generators), "dual keeps the generator names")
    check_derived(ctx, case, L, d, lambda M: np.linalg.inv(M).T, "dual[w] = rho(w)^-T", degree=1)
    # the dual of the dual
    dd = d.dual()
    check_derived(ctx, case, L, dd, lambda M: M, "dual.dual[w] = rho(w)", degree=2)
    finish(ctx, rep, case, guard, before, "dual")


# -- compose
def _block_sum(M):
    n = M.shape[0]
    out = np.zeros((2 * n, 2 * n), dtype=np.result_type(M.dtype, float))
    out[:n, :n] = M
    out[n:, n:] = np.linalg.inv(M).T
    return out


def _block_include(M, d):
    n = M.shape[0]
    out = np.eye(d, dtype=np.result_type(M.dtype, float))
    out[:n, :n] = M
    return out


def sl2_irrep_oracle(A, n):
    """matrix of Sym^(n-1)(A) in the documented monomial basis, from the Veronese map:
    irrep(A) nu(v) = nu(A v) for n vectors v in general position"""
    A = np.asarray(A)
    vs = [np.array([np.cos(np.pi * k / n), np.sin(np.pi * k / n)]) for k in range(n)]
    N = np.array([O.veronese(v, n) for v in vs]).T
    Wm = np.array([O.veronese(A @ v, n) for v in vs]).T
    return Wm @ np.linalg.inv(N)


def hom_menu(n, kind):
    """name -> (library-side hom, reference f, degree)"""
    from geometry_tools.lie import hom as H
    menu = {
        "identity": (lambda M: M, lambda M: M, 1),
        "kron": (lambda M: np.kron(M, M), lambda M: np.kron(M, M), 2),
        "inverse_transpose": (lambda M: np.linalg.inv(M).T, lambda M: np.linalg.inv(M).T, 1),
        "uses_inv_argument": (lambda M, inv=None: inv.T, lambda M: np.linalg.inv(M).T, 1),
        "det": (lambda M: np.array([[np.linalg.det(M)]]), lambda M: np.array([[np.linalg.det(M)]]),
                n),
        # a map with an optional second parameter that is not the inverse (as lie.o_to_pgl has
        # its bilinear form there): the representation leaves it at its default
        "second_parameter_not_inv": (
            lambda M, basis=None: np.kron(M, M) if basis is None else
            np.kron(M, M) @ np.kron(basis, basis), lambda M: np.kron(M, M), 2),
        "entrywise_conjugate": (lambda M: np.conj(M), lambda M: np.conj(M), 1),
        "block_sum_with_dual": (_block_sum, _block_sum, 1),
        "lie.hom.block_include": (H.block_include(n + 2), lambda M: _block_include(M, n + 2), 1),
        "lie.hom.slc_to_slr": (H.slc_to_slr(), O.real_block_form, 1),
    }
    dt = np.dtype(complex if kind == "complex" else float)
    if n <= 3:
        menu["lie.hom.gln_adjoint"] = (H.gln_adjoint(), O.gln_adjoint, 2)
        menu["lie.hom.gln_adjoint(dtype)"] = (H.gln_adjoint(dtype=dt), O.gln_adjoint, 2)
    if 2 <= n <= 3:
        menu["lie.hom.sln_adjoint"] = (H.sln_adjoint(), O.sln_adjoint, 2)
        menu["lie.hom.sln_adjoint(dtype)"] = (H.sln_adjoint(dtype=dt), O.sln_adjoint, 2)
    if n == 2:
        for m in (2, 3, 4, 5):
            menu["lie.hom.sl2_irrep(%d)" % m] = (H.sl2_irrep(m),
                                                  (lambda M, m=m: sl2_irrep_oracle(M, m)), m - 1)
    return menu


HOM_NAMES = ["identity", "kron", "inverse_transpose", "uses_inv_argument", "det",
             "second_parameter_not_inv",
             "entrywise_conjugate", "block_sum_with_dual", "lie.hom.block_include",
             "lie.hom.slc_to_slr", "lie.hom.gln_adjoint", "lie.hom.sln_adjoint",
             "lie.hom.gln_adjoint(dtype)", "lie.hom.sln_adjoint(dtype)",
             "lie.hom.sl2_irrep(2)", "lie.hom.sl2_irrep(3)", "lie.hom.sl2_irrep(4)",
             "lie.hom.sl2_irrep(5)"]


@st.composite
def compose_case(draw):
    c = draw(derived_case(max_dim=4, wlen=8, intdtype=False))
    # (sampled_from, not integers: integers() is biased towards 0 = the identity hom)
    c["hom"] = draw(st.sampled_from(list(range(len(HOM_NAMES) * 3))))
    if draw(st.integers(0, 9)) == 0:
        c["hom"] = HOM_NAMES.index("second_parameter_not_inv")
    if c["n"] == 2 and draw(st.integers(0, 2)) == 0:
        c["hom"] = HOM_NAMES.index("lie.hom.sl2_irrep(%d)" % draw(st.integers(2, 5)))
    if c["kind"] == "complex" and draw(st.integers(0, 3)) == 0:
        # the realification is the identity-like block map on real input: only genuinely
        # complex generators exercise its imaginary blocks
        c["hom"] = HOM_NAMES.index("lie.hom.slc_to_slr")
    c["compute_inverses"] = draw(st.booleans())
    if c["n"] == 2 and c["kind"] != "int" and draw(st.integers(0, 2)) == 0:
        # 2x2 generators with an entry that is exactly 0 (quarter turn, shears through it):
        # the polynomial maps (sl2_irrep and what is built on it) see 0**k terms there
        z = draw(st.sampled_from([[[0.0, -1.0], [1.0, 0.0]], [[2.0, 1.0], [-1.0, 0.0]],
                                  [[0.0, 1.0], [-1.0, 3.0]], [[1.0, 0.0], [2.0, 1.0]]]))
        c["mats"][0] = z if c["kind"] == "real" else [[[x, 0.0] for x in row] for row in z]
    return c


def body_compose(case, ctx):
    rep, L, mats, guard, before = start(case, ctx)
    menu = hom_menu(case["n"], case["kind"])
    avail = [h for h in HOM_NAMES if h in menu]
    name = avail[case["hom"] % len(avail)]
    lib, ref, degree = menu[name]
    ctx.label("hom=" + name, "compute_inverses=%s" % case["compute_inverses"])
    kw = {"compute_inverses": True} if case["compute_inverses"] else {}
    d = rep.compose(lib, **kw)
    ctx.check(list(d.asym_gens()) == list(rep.asym_gens()), "compose keeps the generators")
    ctx.check(set(d.generators) == set(rep.generators), "compose keeps the inverse names")
    check_derived(ctx, case, L, d, ref, "compose(hom)[w] = hom(rho(w))", degree=max(degree, 1),
                  extra_cond=L.cond())
    finish(ctx, rep, case, guard, before, "compose")


# -- tensor product
@st.composite
def tensor_case(draw):
    n1 = draw(st.integers(1, 4))
    n2 = draw(st.integers(1, 3 if n1 > 3 else 4 if n1 > 2 else 5))
    k = draw(st.integers(1, 3))
    names = draw(G.names_single(k))
    k1 = draw(st.sampled_from(["real", "complex", "int"]))
    k2 = draw(st.sampled_from(["real", "complex", "int"]))
    c = dict(n=n1, kind=k1, names=names, intdtype=False,
             mats=[draw(G.matrix(n1, k1)) for _ in range(k)])
    # the second factor is a representation of the same group whose generators may have
    # been assigned in another order (generators are matched by NAME)
    perm = draw(st.permutations(list(range(k))))
    mats2 = [draw(G.matrix(n2, k2)) for _ in range(k)]
    c["second"] = dict(n=n2, kind=k2, names=[names[i] for i in perm], intdtype=False,
                       mats=[mats2[i] for i in perm])
    c["words"] = [draw(G.word(names, 10)) for _ in range(3)]
    c["same"] = draw(st.integers(0, 4)) == 0
    return c


def letters2(L1, L2, f, degree=2):
    D = O.Letters()
    for x in L1.mat:
        FM = np.asarray(f(L1.mat[x], L2.mat[x]))
        D.mat[x] = FM
        D.n = FM.shape[0]
        D.nrm[x] = O.norm2(FM)
        rel = (L1.err[x] / max(L1.nrm[x], 1e-300) + L2.err[x] / max(L2.nrm[x], 1e-300)
               + 16 * D.n * O.EPS)
        D.err[x] = 4 * degree * rel * max(D.nrm[x], 1.0)
    return D


def body_tensor(case, ctx):
    rep, L, mats, guard, before = start(case, ctx)
    if case["same"]:
        rep2, L2 = rep, L
        ctx.label("tensor-with-itself")
    else:
        rep2, L2, _ = G.build(case["second"])
        ctx.label("kinds=%s,%s" % (case["kind"], case["second"]["kind"]),
                  "dims=%dx%d" % (L.n, L2.n))
    g2 = G.Guard(rep2)
    t = rep.tensor_product(rep2)
    ctx.check(t.dim == L.n * L2.n, "tensor product dimension", got=t.dim)
    ctx.check(set(t.generators) == set(rep.generators), "tensor product generator names")
    D = letters2(L, L2, np.kron)
    for w in case["words"]:
        G.word_labels(ctx, w, L)
        got = np.asarray(t[wstr(w)])
        P1, b1 = L.eval(w)
        P2, b2 = L2.eval(w)
        want = np.kron(P1, P2)
        _, bd = D.eval(w)
        own = b1 * O.norm2(P2) + b2 * O.norm2(P1)
        ctx.close("tensor_product[w] = kron(rho1(w), rho2(w))", got, want, rtol=0,
                  atol=tol(bd + own, want), word=wstr(w))
    g2.check(ctx, rep2, "tensor_product (second factor)")
    finish(ctx, rep, case, guard, before, "tensor_product")
    # differing generating sets are refused
    other = Representation()
    other["z" if "z" not in case["names"] else "y"] = np.eye(L2.n)
    try:
        rep.tensor_product(other)
        ctx.fail("tensor_product accepted representations with different generators")
    except ValueError:
        pass


# -- symmetric square
def body_symmetric_square(case, ctx):
    rep, L, mats, guard, before = start(case, ctx)
    n = case["n"]
    s = rep.symmetric_square()
    m = n * (n + 1) // 2
    ctx.check(s.dim == m, "dimension of the symmetric square", got=s.dim, want=m)
    ctx.check(set(s.generators) == set(rep.generators), "symmetric square generator names")
    check_derived(ctx, case, L, s, O.sym2,
                  "symmetric_square[w] = P kron(rho(w), rho(w)) iota (documented bases)", degree=2)
    # intrinsic characterisation: Sym^2(rho)(v.v) = (rho v).(rho v)
    vec = np.array(case["vec"], dtype=float)
    for w in case["words"]:
        P, bp = L.eval(w)
        got = np.asarray(s[wstr(w)])
        lhs = got @ O.sym_square_vector(vec)
        rhs = O.sym_square_vector(P @ vec)
        D = L.derived(O.sym2, 2)
        sc = (D.eval(w)[1] + 2 * bp * O.norm2(P)) * 4 * n * max(1.0, float(vec @ vec))
        ctx.close("symmetric_square[w] (v.v) = (rho(w) v).(rho(w) v)", lhs, rhs, rtol=0,
                  atol=tol(sc, rhs), word=wstr(w))
    finish(ctx, rep, case, guard, before, "symmetric_square")


@st.composite
def sym_case(draw):
    c = draw(derived_case(max_dim=4, wlen=8))
    c["vec"] = [draw(fl(-2.0, 2.0)) for _ in range(c["n"])]
    return c


def exhaustive_sym_bases(tier):
    return [("documented bases of Sym^2(R^n) and R^n (x) R^n, n = 1..%d" % (8 if tier == "quick" else 12),
             [dict(n=n) for n in range(1, 9 if tier == "quick" else 13)])]


def body_sym_bases(case, ctx):
    n = case["n"]
    ctx.label("n=%d" % n)
    order = O.sym_order(n)
    for s, (i, j) in enumerate(order):
        ctx.check(R.sym_index(i, j, n) == s and R.sym_index(j, i, n) == s,
                  "sym_index follows the documented order", i=i, j=j, got=R.sym_index(i, j, n),
                  want=s)
    ctx.check(sorted(R.sym_index(i, j, n) for (i, j) in order) == list(range(n * (n + 1) // 2)),
              "sym_index is a bijection onto 0..n(n+1)/2-1")
    for i in range(n):
        for j in range(n):
            t = R.tensor_index(i, j, n)
            ctx.check(t == i * n + j, "tensor_index is row-major", i=i, j=j, got=t)
            ctx.check(tuple(R.tensor_pos(t, n)) == (i, j), "tensor_pos inverts tensor_index",
                      got=R.tensor_pos(t, n))
    inc = np.asarray(R.symmetric_inclusion(n))
    pro = np.asarray(R.symmetric_projection(n))
    ctx.check(inc.shape == (n * n, n * (n + 1) // 2), "symmetric_inclusion shape", got=inc.shape)
    ctx.check(pro.shape == (n * (n + 1) // 2, n * n), "symmetric_projection shape", got=pro.shape)
    ctx.close("symmetric_inclusion vs documented map", inc, O.sym_inclusion(n), rtol=0, atol=0)
    ctx.close("symmetric_projection vs documented map", pro, O.sym_projection(n), rtol=0, atol=0)
    ctx.close("projection o inclusion = identity", pro @ inc, np.eye(n * (n + 1) // 2), rtol=0,
              atol=1e-15)


# -- subgroup
@st.composite
def subgroup_case(draw):
    c = draw(derived_case(max_dim=4, nwords=0))
    k = draw(st.integers(1, 3))
    c["subwords"] = [draw(G.word(c["names"], 5)) for _ in range(k)]
    c["form"] = draw(st.sampled_from(["list", "dict", "names", "names_noinverse", "list_noinverse"]))
    c["subnames"] = draw(st.lists(st.sampled_from(list("pqrstuvw")), min_size=k, max_size=k,
                                  unique=True))
    snames = list("abc"[:k]) if c["form"].startswith("list") else c["subnames"]
    c["words"] = [draw(G.word(snames, 6)) for _ in range(3)]
    return c


def body_subgroup(case, ctx):
    rep, L, mats = G.build(case)
    G.base_labels(ctx, case)
    guard = G.Guard(rep)
    subwords = case["subwords"]
    k = len(subwords)
    form = case["form"]
    ctx.label("form=" + form, "subgens=%d" % k)
    strs = [wstr(w) for w in subwords]
    if form == "list":
        sub = rep.subgroup(strs)
        snames = list("abc"[:k])
    elif form == "list_noinverse":
        sub = rep.subgroup(strs, compute_inverse=False)
        snames = list("abc"[:k])
    elif form == "dict":
        snames = case["subnames"]
        sub = rep.subgroup(dict(zip(snames, strs)))
    elif form == "names":
        snames = case["subnames"]
        sub = rep.subgroup(strs, generator_names=snames)
    else:
        snames = case["subnames"]
        sub = rep.subgroup(strs, generator_names=snames, compute_inverse=False)
    ctx.check(list(sub.asym_gens()) == snames, "subgroup generator names", got=list(sub.asym_gens()),
              want=snames)
    ctx.check(set(sub.generators) == set(G.letters_of(snames)), "subgroup inverse names")
    # reference letters of the subgroup
    D = O.Letters()
    D.n = L.n
    for s, w in zip(snames, subwords):
        P, b = L.eval(w)
        Pi, bi = L.eval(O.inverse_word(w))
        c = O.norm2(P) * O.norm2(Pi)
        D.mat[s], D.mat[O.swap(s)] = P, Pi
        D.nrm[s], D.nrm[O.swap(s)] = O.norm2(P), O.norm2(Pi)
        D.err[s] = 16 * b + 16 * c * c * L.n * O.EPS * D.nrm[s]
        D.err[O.swap(s)] = 16 * bi + 16 * (b * D.nrm[O.swap(s)] ** 2 + c * L.n * O.EPS *
                                          D.nrm[O.swap(s)])
    subst = {}
    for s, w in zip(snames, subwords):
        subst[s] = list(w)
        subst[O.swap(s)] = O.inverse_word(w)
    for w in case["words"]:
        full = [y for x in w for y in subst[x]]
        G.word_labels(ctx, full, L)
        got = np.asarray(sub[wstr(w)])
        want, b = L.eval(full)
        _, bd = D.eval(w)
        ctx.close("subgroup[w'] = rho(substituted word)", got, want, rtol=0, atol=tol(bd + b, want),
                  word=wstr(w), substituted=wstr(full))
    guard.check(ctx, rep, "subgroup")


# -- adjoints
@st.composite
def adjoint_case(draw, min_dim=1):
    n = draw(st.sampled_from([d for d in [1, 2, 2, 3, 3, 4] if d >= min_dim]))
    c = draw(derived_case(max_dim=n, min_dim=n, wlen=8, max_gens=3))
    if c["kind"] == "int" and draw(st.integers(0, 3)) > 0:
        # integer generators whose inverse is NOT an integer matrix (det +-2, +-3): the
        # adjoint then has genuinely fractional entries (an integer-typed result would be
        # truncated) - held in int64 arrays in two cases out of three
        if not c.get("intlast"):
            c["intdtype"] = draw(st.integers(0, 2)) > 0
        for k_, m in enumerate(c["mats"]):
            if k_ == 0 or draw(st.booleans()):
                r = draw(st.integers(0, n - 1))
                f = draw(st.sampled_from([2, 3]))
                m[r] = [f * x for x in m[r]]
        c["words"] = [w[:5] for w in c["words"]]
    return c


def body_adjoint(which):
    ref = O.gln_adjoint if which == "gln" else O.sln_adjoint

    def body(case, ctx):
        if case.get("intdtype"):
            # (the adjoint of an int64-typed representation used to be truncated: repaired)
            ctx.label("int64-dtype-adjoint")
        rep, L, mats, guard, before = start(case, ctx)
        n = case["n"]
        d = rep.gln_adjoint() if which == "gln" else rep.sln_adjoint()
        m = n * n if which == "gln" else n * n - 1
        ctx.check(d.dim == m, "dimension of the adjoint", got=d.dim, want=m)
        ctx.check(list(d.generators) == list(rep.generators), "adjoint keeps the generator names")
        check_derived(ctx, case, L, d, ref,
                      "%s_adjoint[w] = matrix of X -> rho(w) X rho(w)^-1" % which, degree=2)
        # intrinsic: Ad(g) coords(X) = coords(g X g^-1)
        X = np.array(case["X"], dtype=float).reshape(n, n)
        if which == "sln":
            X = X - np.trace(X) / n * np.eye(n)
            X[n - 1, n - 1] = -np.trace(X[:n - 1, :n - 1]) if n > 1 else 0.0
        D = L.derived(ref, 2)
        for w in case["words"]:
            P, bp = L.eval(w)
            Pi = np.linalg.inv(P)
            Y = P @ X @ Pi
            cx = X.reshape(n * n) if which == "gln" else O.sln_coords(X)
            cy = Y.reshape(n * n) if which == "gln" else O.sln_coords(Y)
            got = as_num(d[wstr(w)]) @ cx
            cp = O.norm2(P) * O.norm2(Pi)
            sc = (D.eval(w)[1] + 8 * cp * cp * (bp / max(O.norm2(P), 1e-300) + n * O.EPS)) \
                * max(1.0, O.norm2(X)) * n
            ctx.close("adjoint[w] coords(X) = coords(rho(w) X rho(w)^-1)", got, cy, rtol=0,
                      atol=tol(sc, cy), word=wstr(w))
        finish(ctx, rep, case, guard, before, which + "_adjoint")
    return body


@st.composite
def adjoint_case_x(draw, min_dim=1):
    c = draw(adjoint_case(min_dim))
    c["X"] = [draw(fl(-2.0, 2.0)) for _ in range(c["n"] ** 2)]
    return c


# -- astype
@st.composite
def astype_case(draw):
    c = draw(derived_case(max_dim=4, wlen=8))
    # (generators at the unit scale: eight letters of determinant 1e-15 leave the range of
    # single precision, which is the caller's choice of dtype and nothing the library does)
    c.pop("gscale", None)
    opts = ["complex128", "float64"] if c["kind"] != "complex" else ["complex128"]
    if c["kind"] == "real":
        opts.append("float32")
    if c["kind"] == "complex":
        opts.append("complex64")
    c["dtype"] = draw(st.sampled_from(opts))
    return c


def body_astype(case, ctx):
    rep, L, mats, guard, before = start(case, ctx)
    dt = np.dtype(case["dtype"])
    ctx.label("to=" + case["dtype"])
    d = rep.astype(dt)
    ctx.check(np.dtype(d.dtype) == dt, "astype sets the dtype of the representation",
              got=str(d.dtype))
    ctx.check(list(d.generators) == list(rep.generators), "astype keeps the generator names")
    for g in d.generators:
        ctx.check(d.generators[g].dtype == dt, "astype converts every stored matrix", g=g,
                  got=str(d.generators[g].dtype))
    single = dt in (np.dtype("float32"), np.dtype("complex64"))
    for w in case["words"]:
        G.word_labels(ctx, w, L)
        got = np.asarray(d[wstr(w)])
        want, b = L.eval(w)
        ctx.check(got.dtype == dt, "dtype of an image under astype", got=str(got.dtype),
                  word=wstr(w))
        if single:
            ctx.close("astype(single precision)[w] = rho(w)", got, want, rtol=0,
                      atol=2e-6 * (len(w) + 1) * L.n * L.growth(w) * L.cond(), word=wstr(w))
        else:
            ctx.close("astype[w] = rho(w)", got, want, rtol=0, atol=tol(b, want), word=wstr(w))
    # a conversion to the dtype the representation already reports: still a new
    # representation (assigning to it leaves the parent alone), with every generator in
    # that dtype
    same = rep.astype(rep.dtype)
    for g in same.generators:
        ctx.check(np.dtype(same.generators[g].dtype) == np.dtype(rep.dtype),
                  "astype(rep.dtype) converts every stored matrix", g=g,
                  got=str(same.generators[g].dtype))
    same[case["names"][0]] = 2.0 * np.eye(case["n"])
    finish(ctx, rep, case, guard, before, "astype")


# -- projective / hyperbolic wrapping
def body_projective(case, ctx):
    from geometry_tools import projective
    rep, L, mats, guard, before = start(case, ctx)
    n = case["n"]
    how = case["how"]
    ctx.label("how=" + how)
    if how == "wrap":
        p = projective.ProjectiveRepresentation(rep)
    else:
        p = projective.ProjectiveRepresentation()
        for g, M in zip(case["names"], mats):
            if how == "assign_column":
                p[g] = projective.Transformation(M.astype(complex if case["kind"] == "complex"
                                                          else float), column_vectors=True)
            else:
                p[g] = projective.Transformation(M.T.astype(complex if case["kind"] == "complex"
                                                            else float).copy())
    ctx.check(list(p.asym_gens()) == case["names"], "wrapped generator names")
    for w in case["words"]:
        T = p[wstr(w)]
        ctx.check(type(T) is projective.Transformation, "images are Transformation objects",
                  got=type(T).__name__)
        ctx.check(T.shape == (), "a word maps to a single transformation", got=T.shape)
    check_derived(ctx, case, L, p, lambda M: M, "column matrix of ProjectiveRepresentation[w] = rho(w)",
                  extract=lambda T: np.asarray(T.matrix).T)
    ws = [wstr(w) for w in case["words"]]
    for comp in (p.elements(ws), p.transformations(ws)):
        ctx.check(type(comp) is projective.Transformation and comp.shape == (len(ws),),
                  "elements() gives a composite Transformation", got=getattr(comp, "shape", None))
        for i, w in enumerate(case["words"]):
            ctx.check(np.array_equal(np.asarray(comp.matrix)[i], np.asarray(p[wstr(w)].matrix)),
                      "composite entry i is the image of word i", i=i)
    # the transformation acts on a point as rho(w) on its column of coordinates
    x = np.array(case["vec"], dtype=float)
    pt = projective.Point(x.copy())
    for w in case["words"]:
        P, bp = L.eval(w)
        img = np.asarray((p[wstr(w)] @ pt).proj_data)
        want = P @ x
        sc = max(np.max(np.abs(want)), 1e-300)
        # projective equality with an error budget of the product's bound
        from ..num import proj_dist
        if np.linalg.norm(want) > 1e-6 * max(1.0, O.norm2(P)) * np.linalg.norm(x):
            ctx.small("rep[w] @ point = rho(w) x (projectively)", proj_dist(img, want),
                      1e-9 + 64 * (bp + 8 * n * O.EPS * O.norm2(P)) * np.linalg.norm(x)
                      / np.linalg.norm(want), word=wstr(w))
    # derived representations of a wrapped representation stay wrapped and agree
    C = np.eye(n) + np.triu(np.ones((n, n)), 1)
    Ci = np.linalg.inv(C)
    TC = projective.Transformation(C, column_vectors=True)
    if len(case["words"]) % 2:
        # the inverse handed over by the caller, as the pair diagonalize(return_inv=True)
        # gives it: a Transformation like the conjugating map itself
        ctx.label("conjugate-with-inv_mat-object")
        pc = p.conjugate(TC, inv_mat=projective.Transformation(Ci, column_vectors=True))
    else:
        pc = p.conjugate(TC)
    ctx.check(type(pc) is projective.ProjectiveRepresentation, "conjugate keeps the class")
    check_derived(ctx, case, L, pc, lambda M: Ci @ M @ C,
                  "wrapped conjugate(Transformation C)[w] = C^-1 rho(w) C",
                  extra_cond=cond_of(C) ** 2, extract=lambda T: np.asarray(T.matrix).T)
    finish(ctx, rep, case, guard, before, "ProjectiveRepresentation(rep)")


@st.composite
def projective_case(draw):
    c = draw(derived_case(max_dim=5, min_dim=2, wlen=10, intdtype=False))
    c["how"] = draw(st.sampled_from(["wrap", "wrap", "assign_column", "assign_row"]))
    c["vec"] = [draw(fl(-2.0, 2.0)) for _ in range(c["n"] - 1)] + [draw(st.sampled_from([1.0, -1.5]))]
    return c


@st.composite
def lorentz(draw, m):
    """matrix in O(m-1, 1) for the form diag(-1, 1, ..., 1): a few boosts and rotations,
    maybe a reflection"""
    M = np.eye(m)
    for _ in range(draw(st.integers(0, 3))):
        E = np.eye(m)
        if m == 2 or draw(st.booleans()):
            i = draw(st.integers(1, m - 1))
            t = draw(fl(-1.2, 1.2))
            E[0, 0] = E[i, i] = np.cosh(t)
            E[0, i] = E[i, 0] = np.sinh(t)
        else:
            i = draw(st.integers(1, m - 2))
            j = draw(st.integers(i + 1, m - 1))
            t = draw(st.one_of(fl(-np.pi, np.pi), st.sampled_from([np.pi / 2, np.pi])))
            E[i, i] = E[j, j] = np.cos(t)
            E[i, j] = -np.sin(t)
            E[j, i] = np.sin(t)
        M = M @ E
    if draw(st.integers(0, 3)) == 0:
        M[:, draw(st.integers(1, m - 1))] *= -1.0
    return [[float(x) for x in row] for row in M]


@st.composite
def hyperbolic_case(draw):
    m = draw(st.integers(2, 5))
    k = draw(st.integers(1, 3))
    names = draw(G.names_single(k))
    c = dict(n=m, kind="real", names=names, intdtype=False,
             mats=[draw(lorentz(m)) for _ in range(k)])
    c["words"] = [draw(G.word(names, 10)) for _ in range(3)]
    c["how"] = draw(st.sampled_from(["wrap", "assign"]))
    return c


def body_hyperbolic(case, ctx):
    from geometry_tools import hyperbolic, projective
    rep, L, mats, guard, before = start(case, ctx)
    n = case["n"]
    ctx.label("how=" + case["how"])
    if case["how"] == "wrap":
        h = hyperbolic.HyperbolicRepresentation(rep)
    else:
        h = hyperbolic.HyperbolicRepresentation()
        for g, M in zip(case["names"], mats):
            h[g] = hyperbolic.Isometry(M.copy(), column_vectors=True)
    for w in case["words"]:
        T = h[wstr(w)]
        ctx.check(type(T) is hyperbolic.Isometry and T.shape == (), "images are single Isometry objects",
                  got=type(T).__name__)
    ext = lambda T: np.asarray(T.matrix).T
    check_derived(ctx, case, L, h, lambda M: M, "column matrix of HyperbolicRepresentation[w] = rho(w)",
                  extract=ext)
    ws = [wstr(w) for w in case["words"]]
    comp = h.isometries(ws)
    ctx.check(type(comp) is hyperbolic.Isometry and comp.shape == (len(ws),),
              "isometries() gives a composite Isometry")
    for i, w in enumerate(case["words"]):
        ctx.check(np.array_equal(np.asarray(comp.matrix)[i], np.asarray(h[wstr(w)].matrix)),
                  "composite entry i is the image of word i", i=i)
    # the adjoint action on the Lie algebra of a form that is not diagonal: the plain
    # representation conjugated by C preserves F = C^T J C; composing it with
    # lie.hom.form_adjoint(F) generator by generator gives, for every word, what the same
    # map gives on the image of the word (the basis of the algebra is the library's)
    if 3 <= n <= 4:
        from geometry_tools import lie as _lie
        Cf = np.eye(n) + 0.3 * np.triu(np.ones((n, n)), 1) + 0.2 * np.tril(np.ones((n, n)), -1)
        Jn = np.diag([-1.0] + [1.0] * (n - 1))
        Ff = Cf.T @ Jn @ Cf
        rc = rep.conjugate(Cf.copy())
        hf = _lie.hom.form_adjoint(Ff.copy())
        ad = rc.compose(hf)
        ctx.label("form_adjoint-of-a-general-form")
        for w in case["words"][:2]:
            if len(w) > 6:
                continue
            img = np.asarray(rc[wstr(w)], dtype=float)
            if cond_of(img) > 1e3:
                # (the rounded image of a long word of large boosts preserves F only up to
                # eps * cond^2, which form_adjoint's own validity check refuses: the map is
                # asked about images that are isometries of F to working accuracy)
                ctx.label("form_adjoint:ill-conditioned-word-skipped")
                continue
            sc_ = max(1.0, O.norm2(img)) ** 2 * cond_of(img) * cond_of(Cf) ** 2
            ctx.close("compose(form_adjoint(F))[w] = form_adjoint(F)(rho(w))",
                      np.asarray(ad[wstr(w)], dtype=float), np.asarray(hf(img), dtype=float),
                      rtol=0, atol=1e-9 * sc_, word=wstr(w))
    # compose / gln_adjoint of a hyperbolic representation are projective representations
    hc = h.compose(lambda M: np.linalg.inv(M).T)
    ctx.check(type(hc) is projective.ProjectiveRepresentation,
              "HyperbolicRepresentation.compose gives a ProjectiveRepresentation",
              got=type(hc).__name__)
    check_derived(ctx, case, L, hc, lambda M: np.linalg.inv(M).T,
                  "HyperbolicRepresentation.compose(hom)[w] = hom(rho(w))", extract=ext)
    if n <= 3:
        ha = h.gln_adjoint()
        ctx.check(type(ha) is projective.ProjectiveRepresentation,
                  "HyperbolicRepresentation.gln_adjoint gives a ProjectiveRepresentation",
                  got=type(ha).__name__)
        check_derived(ctx, case, L, ha, O.gln_adjoint,
                      "HyperbolicRepresentation.gln_adjoint[w] = Ad(rho(w))", degree=2, extract=ext)
    finish(ctx, rep, case, guard, before, "HyperbolicRepresentation(rep)")



# ---------------------------------------------------------------------------
# 5. a chain of derivations leaves the parent alone
DERIVATIONS = ["copy", "conjugate", "dual", "compose", "tensor", "symmetric_square", "subgroup",
               "gln_adjoint", "sln_adjoint", "astype", "projective", "differential", "elements"]


@st.composite
def chain_case(draw):
    c = draw(derived_case(max_dim=3, wlen=8, intdtype=False))
    c["chain"] = draw(st.lists(st.integers(0, len(DERIVATIONS) - 1), min_size=2, max_size=8))
    c["mutate_child"] = draw(st.booleans())
    return c


def body_parent_not_mutated(case, ctx):
    from geometry_tools import projective
    rep, L, mats, guard, before = start(case, ctx)
    n = case["n"]
    for w in case["words"]:
        G.word_labels(ctx, w, L)
    C = np.eye(n) + np.tril(np.ones((n, n)), -1)
    for idx in case["chain"]:
        what = DERIVATIONS[idx]
        ctx.label("op=" + what)
        child = None
        if what == "copy":
            child = Representation(rep)
        elif what == "conjugate":
            child = rep.conjugate(C)
        elif what == "dual":
            child = rep.dual()
        elif what == "compose":
            child = rep.compose(lambda M: M @ M)      # not a homomorphism; irrelevant here
        elif what == "tensor":
            child = rep.tensor_product(rep)
        elif what == "symmetric_square":
            child = rep.symmetric_square()
        elif what == "subgroup":
            child = rep.subgroup([wstr(case["words"][0]), case["names"][0]])
        elif what == "gln_adjoint":
            child = rep.gln_adjoint()
        elif what == "sln_adjoint":
            if n >= 2:
                child = rep.sln_adjoint()
        elif what == "astype":
            child = rep.astype(np.dtype(complex))
        elif what == "projective":
            child = projective.ProjectiveRepresentation(rep)
        elif what == "differential":
            rep.differential(case["names"][0] + wstr(case["words"][0]))
            rep.coboundary_matrix()
        elif what == "elements":
            rep.elements([wstr(w) for w in case["words"]])
        if child is not None and case["mutate_child"]:
            g = list(child.asym_gens())[0]
            if what == "projective":
                child[g] = projective.Transformation(np.eye(child.dim) * 3.0)
            else:
                child[g] = 3.0 * np.eye(child.dim)
            ctx.label("child-mutated")
        finish(ctx, rep, case, guard, before, what)


# ---------------------------------------------------------------------------
# 6. Fox calculus
def fox_matrix(L, w, g):
    """(D_g(w) evaluated under rho, error bound)"""
    n = L.n
    Dm = np.zeros((n, n), dtype=complex if any(np.iscomplexobj(m) for m in L.mat.values())
                  else float)
    b = 0.0
    for c, pre in O.fox_terms(w, g):
        P, bp = L.eval(pre)
        _, br = L.eval(O.free_reduce(pre))
        Dm = Dm + c * P
        b += bp + br
    return Dm, b + 1e-300


@st.composite
def fox_case(draw):
    c = draw(G.rep_case(max_dim=4))
    c["words"] = [draw(G.word(c["names"], 14, min_len=1)) for _ in range(2)]
    c["words"] = [w if len(w) else [c["names"][0]] for w in c["words"]]
    return c


def body_fox(case, ctx):
    rep, L, mats = G.build(case)
    G.base_labels(ctx, case)
    n, names = case["n"], case["names"]
    k = len(names)
    cob = np.asarray(rep.coboundary_matrix())
    ctx.check(cob.shape == (n * k, n), "coboundary_matrix shape", got=cob.shape)
    for i, g in enumerate(names):
        ctx.close("coboundary block = I - rho(g)", cob[i * n:(i + 1) * n], np.eye(n) - L.mat[g],
                  rtol=0, atol=1e-14 * max(1.0, L.nrm[g]), g=g)
    rows = []
    for w in case["words"]:
        G.word_labels(ctx, w, L)
        s = wstr(w)
        d = as_num(rep.differential(s))
        rows.append(d)
        ctx.check(d.shape == (n, n * k), "differential shape", got=d.shape)
        total = 0.0
        for i, g in enumerate(names):
            Dg, bg = fox_matrix(L, w, g)
            blk = d[:, i * n:(i + 1) * n]
            ctx.close("differential block = Fox derivative under rho", blk, Dg, rtol=0,
                      atol=tol(bg, Dg), word=s, g=g)
            single = as_num(rep.differential(s, generator=g))
            ctx.check(np.array_equal(single, blk), "differential(w, generator=g) is the g block",
                      word=s, g=g)
            total += bg * (1.0 + L.nrm[g]) + O.norm2(Dg) * 4 * n * O.EPS * (1.0 + L.nrm[g])
            # the formal derivative itself
            fd = {k_: v for k_, v in W.fox_word_derivative(g, s).items() if v != 0}
            want = {wstr(k_): v for k_, v in O.fox_reduced_dict(w, g).items()}
            ctx.check(fd == want, "fox_word_derivative as an element of Z[F]", word=s, g=g, got=fd,
                      want=want)
        P, bp = L.eval(w)
        ctx.close("fundamental formula: differential(w) @ coboundary = I - rho(w)", d @ cob,
                  np.eye(n) - P, rtol=0, atol=tol(total + bp, P), word=s)
    both = as_num(rep.differentials([wstr(w) for w in case["words"]]))
    ctx.check(np.array_equal(both, np.concatenate(rows, axis=0)),
              "differentials(words) stacks the differentials")


def _diag_conj(C, d):
    return C @ np.diag(d) @ np.linalg.inv(C)


@st.composite
def relator_case(draw):
    fam = draw(st.sampled_from(["abelian", "dihedral", "cyclic", "free"]))
    if fam == "abelian":
        n = draw(st.integers(1, 4))
        k = draw(st.integers(2, 3))
        C = np.array(draw(gen.wellcond_matrix(n, maxfactor=2.0)))
        mats = [_diag_conj(C, [draw(st.sampled_from([-2.0, -1.0, 0.5, 1.0, 1.5, 2.0, 3.0]))
                               for _ in range(n)]) for _ in range(k)]
        names = list("abc"[:k])
        rels = []
        for _ in range(draw(st.integers(1, 3))):
            u = draw(G.word(names, 4, min_len=1)) or ["a"]
            v = draw(G.word(names, 4, min_len=1)) or ["b"]
            x = draw(G.word(names, 3))
            rels.append(x + u + v + O.inverse_word(u) + O.inverse_word(v) + O.inverse_word(x))
    elif fam == "dihedral":
        n, m = 2, draw(st.integers(2, 7))
        th = np.pi / m
        mats = [np.array([[1.0, 0.0], [0.0, -1.0]]),
                np.array([[np.cos(2 * th), np.sin(2 * th)], [np.sin(2 * th), -np.cos(2 * th)]])]
        names = ["a", "b"]
        rels = [["a", "a"], ["b", "b"], ["a", "b"] * m]
        if draw(st.booleans()):
            rels.append(["b", "A"] * m)
    elif fam == "cyclic":
        n, m = 2, draw(st.integers(1, 9))
        th = 2 * np.pi * draw(st.integers(1, m)) / m
        mats = [np.array([[np.cos(th), -np.sin(th)], [np.sin(th), np.cos(th)]]),
                np.array(draw(gen.wellcond_matrix(2, maxfactor=2.0)))]
        names = ["a", "b"]
        rels = [["a"] * m, ["b"] + ["A"] * m + ["B"]]
    else:
        c0 = draw(G.rep_case(max_dim=3, kinds=("real", "complex"), min_gens=1, max_gens=3))
        names = c0["names"]
        rels = []
        for _ in range(draw(st.integers(1, 3))):
            u = draw(G.word(names, 5, min_len=1)) or [names[0]]
            rels.append(u + O.inverse_word(u))
        c0.update(rels=rels, family=fam)
        return c0
    return dict(n=n, kind="real", names=names, intdtype=False, family=fam,
                mats=[[[float(x) for x in row] for row in M] for M in mats], rels=rels)


def body_cocycle(case, ctx):
    n, names = case["n"], case["names"]
    k = len(names)
    rels = [wstr(r) for r in case["rels"]]
    rep = Representation(relations=rels)
    L = O.Letters()
    for g, m in zip(names, case["mats"]):
        M = G.decode(m, case["kind"])
        rep[g] = M.copy()
        L.assign(g, M)
    G.base_labels(ctx, case)
    ctx.label("family=" + case["family"], "relators=%d" % len(rels))
    ctx.check(list(rep.relations) == rels, "relations are stored")
    coc = as_num(rep.cocycle_matrix())
    cob = np.asarray(rep.coboundary_matrix())
    ctx.check(coc.shape == (n * len(rels), n * k), "cocycle_matrix shape", got=coc.shape)
    prod = coc @ cob
    for j, r in enumerate(case["rels"]):
        G.word_labels(ctx, r, L)
        P, bp = L.eval(r)
        total = bp
        for g in names:
            Dg, bg = fox_matrix(L, r, g)
            total += bg * (1.0 + L.nrm[g]) + O.norm2(Dg) * 4 * n * O.EPS * (1.0 + L.nrm[g])
        defect = float(np.max(np.abs(np.eye(n) - P)))
        if defect > 16 * bp + 1e-12:
            raise HarnessError("generated relator is not satisfied: %r defect %g" % (wstr(r), defect))
        ctx.small("cocycle_matrix @ coboundary_matrix = 0 on satisfied relators",
                  prod[j * n:(j + 1) * n], tol(total, np.eye(n)), relator=wstr(r))
    # a copy keeps the relations, so its cocycle matrix is the same
    cp = Representation(rep)
    ctx.check(list(cp.relations) == rels, "copy keeps the relations")
    ctx.check(np.array_equal(as_num(cp.cocycle_matrix()), coc), "copy has the same cocycle matrix")


# ---------------------------------------------------------------------------
# 7. histories of assignments
@st.composite
def history_case(draw):
    n = draw(st.integers(1, 4))
    kind = draw(st.sampled_from(["real", "int", "complex"]))
    pool = [draw(G.matrix(n, kind)) for _ in range(draw(st.integers(2, 4)))]
    steps = []
    for _ in range(draw(st.integers(1, 10))):
        op = draw(st.sampled_from(["set", "set", "set", "set_upper", "set_upper", "set_method",
                                   "set_noinv", "bad_dim", "bad_name"]))
        steps.append(dict(op=op, name=draw(st.integers(0, 2)), mat=draw(st.integers(0, 7)),
                          probe=draw(st.lists(st.integers(0, 11), min_size=0, max_size=8))))
    return dict(n=n, kind=kind, pool=pool, steps=steps)


def body_history(case, ctx):
    n, kind = case["n"], case["kind"]
    pool = [G.decode(m, kind) for m in case["pool"]]
    rep = Representation()
    model = {}            # name -> (matrix, exact?)
    ctx.label("kind=" + kind, "n=%d" % n)
    assigned = 0
    seen = set()
    for step in case["steps"]:
        op = step["op"]
        name = "abc"[step["name"] % 3]
        M = pool[step["mat"] % len(pool)]
        ctx.label("op=" + op)
        if op in ("set", "set_method"):
            if op == "set":
                rep[name] = M.copy()
            else:
                rep.set_generator(name, M.copy())
            model[name] = (M, True)
            model[O.swap(name)] = (np.linalg.inv(M), False)
        elif op == "set_upper":
            rep[name.upper()] = M.copy()
            model[name.upper()] = (M, True)
            model[name] = (np.linalg.inv(M), False)
        elif op == "set_noinv":
            rep.set_generator(name, M.copy(), compute_inverse=False)
            model[name] = (M, True)
        elif op == "bad_dim":
            if not model:
                continue
            try:
                rep[name] = np.eye(n + 1)
                ctx.fail("a matrix of another dimension was accepted")
            except ValueError:
                pass
        elif op == "bad_name":
            bad = ["aB", "a*b", "(a)", "12", ""][step["mat"] % 5]
            try:
                rep[bad] = M.copy()
                ctx.fail("an invalid generator name was accepted", name=bad)
            except ValueError:
                pass
        if op in ("set", "set_method", "set_upper", "set_noinv"):
            assigned += 1
            if name in seen:
                ctx.label("reassign")
            seen.add(name)
        # compare the whole state with the model
        ctx.check(list(rep.generators) == list(model), "generator names (in assignment order)",
                  got=list(rep.generators), want=list(model))
        for g, (X, exact) in model.items():
            got = np.asarray(rep.generators[g])
            if exact:
                ctx.check(np.array_equal(got, X), "stored matrix is the assigned one", g=g)
            else:
                c = cond_of(X)
                ctx.close("stored inverse", got, X, rtol=0,
                          atol=64 * n * O.EPS * c * O.norm2(X) + 1e-14, g=g)
        if model:
            ctx.check(rep.dim == n, "dim")
            ctx.check(list(rep.asym_gens()) == [g for g in model if g == g.lower()], "asym_gens")
            keys = list(model)
            w = [keys[i % len(keys)] for i in step["probe"]]
            P = np.eye(n, dtype=complex if kind == "complex" else float)
            growth = 1.0
            for x in w:
                P = P @ model[x][0]
                growth *= max(1.0, O.norm2(model[x][0]))
            cmax = max(cond_of(X) for X, _ in model.values())
            ctx.close("probe word after the step", np.asarray(rep[wstr(w)]), P, rtol=0,
                      atol=64 * (len(w) + 1) * n * O.EPS * growth * cmax + 1e-13, word=wstr(w))
            if len(w) >= 3:
                ctx.label("probe-len>=3")
            # every letter and every two-letter word, after every step: a word in which a
            # generator occurs only through its inverse letter is asked before and after that
            # generator is assigned again
            for x in keys:
                ctx.close("single letter after the step", np.asarray(rep[x]), model[x][0],
                          rtol=0, atol=64 * n * O.EPS * cmax * max(1.0, O.norm2(model[x][0]))
                          + 1e-13, letter=x)
                # (what the representation hands out is the caller's to scribble on)
                scratch = rep[x]
                if isinstance(scratch, np.ndarray) and scratch.flags.writeable:
                    scratch *= 0
                for y in keys[:4]:
                    ctx.close("two-letter word after the step", np.asarray(rep[x + y]),
                              model[x][0] @ model[y][0], rtol=0,
                              atol=256 * n * O.EPS * cmax * max(1.0, O.norm2(model[x][0])) *
                              max(1.0, O.norm2(model[y][0])) + 1e-13, word=x + y)
    if assigned >= 3:
        ctx.label("assignments>=3")


def nt_history(labels):
    return {"assignments>=3", "reassign"} <= set(labels)


# ---------------------------------------------------------------------------
# 8. multi-character generator names
NAME_POOL = ["s0", "s1", "s2", "ab", "ba", "a", "x1", "x10", "g_1", "t12"]


@st.composite
def multichar_case(draw):
    k = draw(st.integers(1, 3))
    names = draw(st.lists(st.sampled_from(NAME_POOL), min_size=k, max_size=k, unique=True))
    n = draw(st.integers(1, 4))
    kind = draw(st.sampled_from(["real", "complex", "int"]))
    c = dict(n=n, kind=kind, names=names, intdtype=False,
             mats=[draw(G.matrix(n, kind)) for _ in range(k)])
    c["words"] = [draw(G.word(names, 10)) for _ in range(3)]
    c["parse_simple_false"] = draw(st.booleans())
    c["C"] = draw(G.matrix(n, "real", 3.0))
    return c


def body_multichar(case, ctx):
    from geometry_tools import projective
    names, n = case["names"], case["n"]
    psf = case["parse_simple_false"]
    kw = {"parse_simple": False} if psf else {}
    rep, L, mats = G.build(case, **kw)
    G.base_labels(ctx, case)
    ctx.label("parse_simple=False" if psf else "parse_simple=default")
    if any(len(x) > 1 for x in names):
        ctx.label("multichar")
    if set("ab") & set(names) and ("ab" in names or "ba" in names):
        ctx.label("name-is-concatenation-of-names")
    guard = G.Guard(rep)
    ctx.check(list(rep.asym_gens()) == names, "asym_gens", got=list(rep.asym_gens()))
    ctx.check(set(rep.generators) == set(G.letters_of(names)), "inverse names are case-swapped",
              got=sorted(rep.generators))
    stars = []
    for w in case["words"]:
        G.word_labels(ctx, w, L)
        got = np.asarray(rep[list(w)])
        want, b = cmp_word(ctx, "rep[[names...]] vs harness product", got, L, w, case)
        ctx.check(np.array_equal(np.asarray(rep.element(list(w))), got), "element(list) == rep[list]")
        if len(w):
            star = "*".join(w)
            stars.append((star, got))
            ctx.check(np.array_equal(np.asarray(rep.element(star, parse_simple=False)), got),
                      "element(star string, parse_simple=False) == rep[list]", word=star)
    if not psf:
        el = np.asarray(rep.elements([list(w) for w in case["words"]]))
        for i, w in enumerate(case["words"]):
            ctx.check(np.array_equal(el[i], np.asarray(rep[list(w)])), "elements(list words)[i]",
                      i=i)
    if psf and stars:
        el = np.asarray(rep.elements([s for s, _ in stars]))
        for i, (s, got) in enumerate(stars):
            ctx.check(np.array_equal(el[i], got),
                      "elements(star strings)[i] on a parse_simple=False representation", word=s)
    # derived representations built generator by generator keep names, flag and images
    C = G.decode(case["C"], "real")
    Ci = np.linalg.inv(C)
    ev = lambda d, w: d[list(w)]
    for what, d, f, deg, xc in [
            ("copy", Representation(rep), lambda M: M, 1, 1.0),
            ("dual", rep.dual(), lambda M: np.linalg.inv(M).T, 1, 1.0),
            ("conjugate", rep.conjugate(C.copy()), lambda M: Ci @ M @ C, 1, cond_of(C) ** 2),
            ("astype", rep.astype(np.dtype(complex)), lambda M: M.astype(complex), 1, 1.0),
            ("compose", rep.compose(lambda M: np.kron(M, M)), lambda M: np.kron(M, M), 2, 1.0)] + (
            [("gln_adjoint", rep.gln_adjoint(), O.gln_adjoint, 2, 1.0)] if n <= 2 else []):
        ctx.check(list(d.generators) == list(rep.generators), what + " keeps multi-character names")
        ctx.check(d.parse_simple == rep.parse_simple, what + " keeps parse_simple",
                  got=d.parse_simple)
        check_derived(ctx, case, L, d, f, what + "[[names...]] = f(rho(w))", degree=deg,
                      extra_cond=xc, evaluate=ev)
        if psf and stars:
            s0 = stars[0][0]
            ctx.check(np.array_equal(as_num(d.elements([s0]))[0], as_num(d[s0.split("*")])),
                      what + ": elements(star string) on the derived representation")
    p = projective.ProjectiveRepresentation(rep)
    check_derived(ctx, case, L, p, lambda M: M, "ProjectiveRepresentation[[names...]]",
                  extract=lambda T: np.asarray(T.matrix).T, evaluate=ev)
    # subgroup: words are lists (default) or star strings (parse_simple=False)
    # (subgroup generators are inverted by the library: only words whose image is
    # numerically invertible - long words over integer generators reach cond 1e20)
    sw = [w for w in case["words"] if len(w) and cond_of(L.eval(w)[0]) < 1e8] or [[names[0]]]
    if psf:
        sub = rep.subgroup(["*".join(w) for w in sw])
    else:
        sub = rep.subgroup([list(w) for w in sw])
    for i, w in enumerate(sw):
        want, b = L.eval(w)
        g = "abc"[i]
        got = np.asarray(sub[[g]])
        ctx.close("subgroup generator = rho(word)", got, want, rtol=0, atol=tol(b, want))
    # tensor_product / symmetric_square / subgroup(compute_inverse=False) used to evaluate
    # names character by character and failed on multi-character names (repaired)
    if any(len(x) > 1 for x in names):
        ctx.label("multichar-tensor-product")
    t = rep.tensor_product(rep)
    sq = rep.symmetric_square()
    n_ = case["n"]
    Pm = R.symmetric_projection(n_)
    Im = R.symmetric_inclusion(n_)
    for w in case["words"]:
        P, b = L.eval(w)
        KP = np.kron(P, P)
        at = tol(4 * b * O.norm2(P) + 1e-13 * L.growth(w) ** 2, KP)
        ctx.close("tensor_product with these generator names", np.asarray(t[list(w)]), KP,
                  rtol=0, atol=at)
        ctx.close("symmetric_square with these generator names", np.asarray(sq[list(w)]),
                  Pm @ KP @ Im, rtol=0, atol=at * 4)
    sub2 = rep.subgroup([list(w) for w in sw] if not psf else ["*".join(w) for w in sw],
                        compute_inverse=False)
    for i, w in enumerate(sw):
        want, b = L.eval(w)
        G_ = "ABC"[i]
        got = np.asarray(sub2[[G_]])
        winv = np.linalg.inv(want)
        ctx.close("subgroup(compute_inverse=False): inverse generator = rho(word)^-1",
                  got @ want, np.eye(len(want)), rtol=0,
                  atol=1e-9 * max(1.0, O.norm2(want) * O.norm2(winv)) ** 2)
    guard.check(ctx, rep, "derivations with multi-character names")


def nt_multichar(labels):
    return "multichar" in labels and G.nontrivial(labels)


LAWS = [
    Law("word_homomorphism", hom_case(), body_word_homomorphism, G.nontrivial, quick=210,
        thorough=900, shards=(2, 8)),
    Law("words_exhaustive", None, body_words_exhaustive, G.nontrivial, exhaustive=exhaustive_words),
    Law("free_reduction_invariant", reduction_case(), body_free_reduction, G.nontrivial, quick=210,
        thorough=900, shards=(1, 4)),
    Law("derived_copy", derived_case(max_dim=5), body_copy, G.nontrivial, quick=84, thorough=360,
        shards=(1, 2)),
    Law("derived_conjugate", conj_case(), body_conjugate, G.nontrivial, quick=112, thorough=480,
        shards=(1, 4)),
    Law("derived_dual", derived_case(max_dim=5), body_dual, G.nontrivial, quick=112, thorough=480,
        shards=(1, 4)),
    Law("derived_compose", compose_case(), body_compose, G.nontrivial, quick=168, thorough=720,
        shards=(1, 4)),
    Law("derived_tensor_product", tensor_case(), body_tensor, G.nontrivial, quick=112, thorough=480,
        shards=(1, 4)),
    Law("derived_symmetric_square", sym_case(), body_symmetric_square, G.nontrivial, quick=112,
        thorough=480, shards=(1, 4)),
    Law("symmetric_square_bases", None, body_sym_bases, lambda l: True,
        exhaustive=exhaustive_sym_bases),
    Law("derived_subgroup", subgroup_case(), body_subgroup, G.nontrivial, quick=140, thorough=600,
        shards=(1, 4)),
    Law("derived_gln_adjoint", adjoint_case_x(1), body_adjoint("gln"), G.nontrivial, quick=84,
        thorough=360, shards=(1, 4)),
    Law("derived_sln_adjoint", adjoint_case_x(2), body_adjoint("sln"), G.nontrivial, quick=140,
        thorough=360, shards=(1, 4)),
    Law("derived_astype", astype_case(), body_astype, G.nontrivial, quick=112, thorough=480,
        shards=(1, 2)),
    Law("derived_projective", projective_case(), body_projective, G.nontrivial, quick=112,
        thorough=480, shards=(1, 4)),
    Law("derived_hyperbolic", hyperbolic_case(), body_hyperbolic, G.nontrivial, quick=112,
        thorough=480, shards=(1, 4)),
    Law("parent_not_mutated", chain_case(), body_parent_not_mutated, G.nontrivial, quick=84,
        thorough=360, shards=(1, 4)),
    Law("fox_fundamental_formula", fox_case(), body_fox, G.nontrivial, quick=140, thorough=600,
        shards=(1, 4)),
    Law("cocycle_annihilates_coboundary", relator_case(), body_cocycle, lambda l: "len>=3" in l,
        quick=112, thorough=480, shards=(1, 4)),
    Law("assignment_history", history_case(), body_history, nt_history, quick=210, thorough=900,
        shards=(1, 4)),
    Law("multichar_names", multichar_case(), body_multichar, nt_multichar, quick=112, thorough=480,
        shards=(1, 4)),
]
