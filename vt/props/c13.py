"""C13 - constructed isometries, tangent vectors and regular polygons hit their targets."""
import math
import numpy as np
from hypothesis import strategies as st

from ..core import Law
from .. import gen
from ..gen import fl
from ..num import mink
from ..oracles import isom as I
from .c02 import (SHAPES, sdir, kpoints, _tv_fields, build_tv, _fo_kwargs, _normals,
                  nparts, _normal_array)

from geometry_tools import hyperbolic
from geometry_tools.hyperbolic import Point, TangentVector, Polygon

# findings reported to the coordinator and not yet in known_findings.json: kept out of the
# search (counted under `excluded`) until repaired or listed as open
PENDING_FINDINGS = set()


def pending(fid):
    """True while `fid` is a reported-but-unlisted finding; VERIF_PENDING=0 switches the
    exclusion off (to replay the saved case of the finding and see it fail)"""
    import os
    return fid in PENDING_FINDINGS and os.environ.get("VERIF_PENDING", "1") != "0"


RULE = ("dimension n in 2..5 (n = 1 is also generated for origin_to / timelike_to / "
        "spacelike_to and counted trivial), composite shapes of rank 0..2; basepoints = Klein "
        "points (direction x radius, simple rational points mixed in) given to the library as "
        "projective representatives with factors in +-[0.2,5] (positive factors only under "
        "tangent vectors, where the sign of the representative is part of the datum); tangent "
        "vectors = harness-built unit tangent (boost of a unit direction, lattice directions "
        "mixed in) x length in [0.1,10] plus a multiple of the basepoint that the library must "
        "project away; t in [-6,6] incl. 0, +-1e-9, +-6; point pairs q = exp_p(s u) with s "
        "log-uniform in [1e-3,8] (representatives of either sign); triangles by vertex angle "
        "theta in [0.05, pi-0.05] or exactly 0 / pi and side lengths in [0.05,4]; regular n-gons n in 3..40 by interior angle in (0,(n-2)pi/n) "
        "with 2% margin or by radius in [0.05,6], dimension 2..4.  All distances and angles "
        "on the checking side are harness closed forms on the hyperboloid.  non-trivial = "
        "n >= 3, or composite, or t < 0, or polygon with >= 5 vertices, or force_oriented "
        "False (per law, see nontrivial labels); distinct = distinct JSON case.")

ASSUMPTIONS = [
    "basepoints within 2.5 (point_along), 2 (tangent_towards, law of cosines) or 3.8 "
    "(origin_to) of the origin; tolerances scale with the Euclidean size cosh(d) of the "
    "hyperboloid representatives involved",
    "triangles have vertex angle in [0.05, pi-0.05] or exactly 0 / pi (degenerate; the angle is "
    "then an arccos at +-1 and is compared with the tolerance sqrt(2 delta) that conditioning "
    "allows)",
    "TangentVector.get_base_tangent(n, shape) with a non-empty shape raises (same family as "
    "regular_polygon with an array of radii, which DESIGN lists as not claimed): the single "
    "base tangent is used and broadcast",
    "regular_polygon is called with scalar radius/angle only",
    "tangent-vector laws run in dimension >= 2 as the statement says: in H^1 the frame of a "
    "backward-pointing tangent vector is orientation reversing, and origin_to(force_oriented="
    "True) - the default, also used by point_along - then reverses the direction",
    "float64 only",
]

CLAIM = dict(
    text=("Generated-input search: origin_to / TangentVector.origin_to / isometry_to / "
          "timelike_to / spacelike_to are applied to the model origin / base tangent and the "
          "image is compared with the requested target (point by harness distance, direction "
          "as a positive Minkowski multiple); point_along, unit_tangent_towards and angle are "
          "compared with the exponential map, distance and law of cosines written in the "
          "harness on the hyperboloid; regular polygons are measured vertex by vertex "
          "(radius, all chords, interior angles from Minkowski products) and the radius/angle "
          "formulas are compared with cosh r = cot(pi/n) cot(a/2). Refutes, never proves."),
    note="TangentVector.angle of exactly parallel/antiparallel vectors (NaN before 4a46d2f) is "
         "part of the search and pinned as a regression.",
    technique="property-based testing (Hypothesis) against closed-form hyperbolic trigonometry",
)


# --------------------------------------------------------------------------- helpers
def build_tv_std(f, n, shape):
    """tangent vectors on positive representatives of the basepoint: a pair (x, v) read on
    the representative -x is the tangent vector -v, so the sign of the representative is
    part of the datum, not a rescaling; C12 owns rescaling"""
    f = dict(f)
    f["scales"] = [abs(s) for s in f["scales"]]
    return build_tv(f, n, shape)


def geometric(vec, point):
    """a library tangent vector read on the upper-sheet representative of its basepoint"""
    vec = np.asarray(vec, dtype=float)
    sgn = np.where(np.asarray(point, dtype=float)[..., 0] < 0, -1.0, 1.0)
    return vec * sgn[..., None]


def C_of(x_h):
    """Euclidean size ~ cosh(distance from the origin) of unit hyperboloid vectors"""
    return np.maximum(np.abs(np.asarray(x_h)[..., 0]), 1.0)


def same_point(ctx, name, got_proj, want_h, growth=1.0, **detail):
    """the projective point got is the hyperboloid point want_h: harness distance below
    1e-9 * cosh(d(o, want)) * growth"""
    got_proj = np.asarray(got_proj, dtype=float)
    ctx.check(got_proj.shape == np.shape(want_h), name + ": shape", got=got_proj.shape,
              want=np.shape(want_h))
    ctx.check(np.all(np.isfinite(got_proj)), name + ": finite", got=got_proj)
    q = mink(got_proj, got_proj)
    ctx.check(np.all(q < 0), name + ": image is an interior point", q=q, got=got_proj)
    d = I.dist_h(I.to_hyperboloid(got_proj), want_h)
    ctx.small(name, d / (1e-9 * C_of(want_h) * growth), 1.0, got=got_proj, want=want_h,
              **detail)


def same_direction(ctx, name, w, u, C, growth=1.0):
    """w is a positive multiple of the spacelike vector u (both tangent at a point of size C)"""
    w = np.asarray(w, dtype=float)
    ctx.check(np.all(np.isfinite(w)), name + ": finite", w=w)
    c, rel = I.direction_defect(w, u)
    ctx.check(np.all(c > 0), name + ": positive multiple", c=c, w=w, u=u)
    # Euclidean sizes of tangent vectors at a far point grow like C; the defect is
    # measured relative to |w|, so the rounding is eps * C
    ctx.small(name + ": parallel", rel / (1e-9 * C * growth), 1.0, w=w, u=u, c=c)
    return c


def is_isometry(ctx, name, T, C):
    """"the isometry built from ...": the stored (row) matrix M satisfies M J M^T = J, with
    the rounding of a matrix of size C = cosh(distance moved)"""
    M = np.asarray(T.matrix, dtype=float)
    m = M.shape[-1]
    Jm = np.diag([-1.0] + [1.0] * (m - 1))
    Cm = np.max(np.asarray(C, dtype=float)) if np.size(C) else 1.0
    ctx.small(name + " preserves the Minkowski form",
              (M @ Jm @ np.swapaxes(M, -1, -2) - Jm) / (1e-9 * Cm * Cm), 1.0)


def proj_points(K, scales, shape, n):
    K = np.array(K, dtype=float).reshape(tuple(shape) + (n,))
    S = np.array(scales, dtype=float).reshape(tuple(shape))
    X = np.concatenate([np.ones(K.shape[:-1] + (1,)), K], axis=-1) * S[..., None]
    return K, X


def dims(draw, lo=1, hi=5):
    return draw(st.sampled_from([n for n in [1, 2, 2, 3, 3, 4, 5] if lo <= n <= hi]))


def base_labels(ctx, n, shape):
    ctx.label("n=%d" % n, "rank=%d" % len(shape))
    if n >= 2:
        ctx.label("n>=2")
    if n >= 3:
        ctx.label("n>=3")
    if len(shape):
        ctx.label("composite")


# --------------------------------------------------------------- 1. origin_to
@st.composite
def origin_case(draw):
    n = dims(draw)
    shape = draw(st.sampled_from(SHAPES))
    cnt = gen.prod(shape)
    return dict(n=n, shape=shape, pts=draw(kpoints(n, cnt, 0.999)),
                scales=[draw(st.one_of(st.just(1.0), gen.scalars_pm(0.2, 5.0)))
                        for _ in range(cnt)],
                fo=draw(st.sampled_from([True, False, None])),
                origin_shape=draw(st.booleans()))


def body_origin(case, ctx):
    n, shape = case["n"], tuple(case["shape"])
    K, X = proj_points(case["pts"], case["scales"], shape, n)
    want = I.hyperboloid_from_klein(K)
    base_labels(ctx, n, shape)
    ctx.label("fo=%s" % case["fo"])
    if np.any(K != 0):
        ctx.label("not-origin")
    if min(case["scales"], default=1.0) < 0:
        ctx.label("negative-representative")
    T = handed_point(X).origin_to(**_fo_kwargs(case["fo"]))
    origin = Point.get_origin(n, shape) if case["origin_shape"] else Point.get_origin(n)
    img = T @ origin
    ctx.check(isinstance(img, Point), "image is a Point", got=type(img).__name__)
    same_point(ctx, "origin_to() @ origin = p", img.proj_data, want)
    ctx.close("Klein coordinates of the image", img.coords("klein"), K, rtol=1e-9, atol=1e-10)
    # the first row of the stored (row) matrix is the image of e0
    M = np.asarray(T.matrix, dtype=float)
    same_point(ctx, "first row of the matrix is p", M[..., 0, :], want)
    is_isometry(ctx, "Point.origin_to()", T, C_of(want))


def nt_origin(labels):
    return "not-origin" in labels and "n>=2" in labels and (
        "n>=3" in labels or "composite" in labels or "fo=False" in labels)


# ------------------------------------------------------- 2./3. tangent vector frames
@st.composite
def tv_case(draw, two=False):
    n = dims(draw, lo=2)
    shape = draw(st.sampled_from(SHAPES))
    d = dict(n=n, shape=shape, fo=draw(st.sampled_from([True, False, None])),
             tv=draw(_tv_fields(n, shape, 3.0)))
    if two:
        d["tv2"] = draw(_tv_fields(n, shape, 3.0))
    return d


def body_tv_origin(case, ctx):
    n, shape = case["n"], tuple(case["shape"])
    tv, P, U, V = build_tv_std(case["tv"], n, shape)
    base_labels(ctx, n, shape)
    ctx.label("fo=%s" % case["fo"])
    if any(c != 0.0 for c in case["tv"]["ncomp"]):
        ctx.label("non-tangential-input")
    T = tv.origin_to(**_fo_kwargs(case["fo"]))
    is_isometry(ctx, "TangentVector.origin_to()", T, C_of(P))
    base = TangentVector.get_base_tangent(n)
    img = T @ base
    ctx.check(isinstance(img, TangentVector), "image is a TangentVector",
              got=type(img).__name__)
    ctx.check(img.shape == shape, "image shape", got=img.shape, want=shape)
    same_point(ctx, "basepoint of origin_to() @ base", img.point, P)
    same_direction(ctx, "vector of origin_to() @ base vs tv.vector",
                   geometric(img.vector, img.point), U, C_of(P))
    # the library's own projected vector is the tangential part of what was given
    same_direction(ctx, "tv.vector is the tangential part of the input", tv.vector, U,
                   C_of(P) * (1.0 + np.abs(np.array(case["tv"]["ncomp"]).reshape(shape)) /
                              np.array(case["tv"]["lens"]).reshape(shape)))
    # (relative to the size of the stored vector itself, which queries may rescale)
    ctx.small("tv.vector is Minkowski-orthogonal to the basepoint",
              mink(np.asarray(tv.vector, dtype=float), P) /
              (1e-9 * C_of(P) ** 2 * np.linalg.norm(np.asarray(tv.vector, dtype=float),
                                                    axis=-1)), 1.0)


def handed_point(X):
    """a Point built from the caller's own array, which the caller overwrites afterwards"""
    h = gen.Handed()
    pt = Point(h.give(X))
    h.scribble()
    return pt


def body_isometry_to(case, ctx):
    n, shape = case["n"], tuple(case["shape"])
    tv1, P1, U1, _ = build_tv_std(case["tv"], n, shape)
    tv2, P2, U2, _ = build_tv_std(case["tv2"], n, shape)
    base_labels(ctx, n, shape)
    ctx.label("fo=%s" % case["fo"])
    T = tv1.isometry_to(tv2, **_fo_kwargs(case["fo"]))
    img = T @ tv1
    g = C_of(P1) * C_of(P2)          # the map is a product of two frames
    is_isometry(ctx, "isometry_to()", T, g)
    same_point(ctx, "isometry_to: basepoint carried", img.point, P2, growth=g / C_of(P2))
    same_direction(ctx, "isometry_to: direction carried", geometric(img.vector, img.point),
                   U2, g)
    # the image is a tangent vector in its own right: its own frame and its own geodesic (not
    # those of the vector it was carried from, which has just been asked for its frame)
    same_point(ctx, "origin_to() of the carried vector sends the origin to the new basepoint",
               (img.origin_to() @ Point.get_origin(n, shape)).proj_data, P2, growth=g)
    far = I.exp_map(P2, U2, 0.7)
    same_point(ctx, "the carried vector walks the new geodesic: point_along(0.7)",
               img.normalized().point_along(0.7).proj_data, far, growth=g * 2.0)
    # and the other way round with the inverse
    back = T.inv() @ tv2
    same_point(ctx, "isometry_to.inv(): basepoint carried back", back.point, P1,
               growth=g / C_of(P1))
    same_direction(ctx, "isometry_to.inv(): direction carried back",
                   geometric(back.vector, back.point), U1, g)
    if case["fo"] in (True, None):
        det = np.linalg.det(np.asarray(T.matrix, dtype=float))
        ctx.check(np.all(det > 0), "isometry_to is orientation preserving", det=det)


def nt_tv(labels):
    return "n>=2" in labels and ("n>=3" in labels or "composite" in labels or
                                 "fo=False" in labels)


# ---------------------------------------------------------------- 4. point_along
# (0.05 .. 0.13: short walks, where a series expansion of the distance would still be off
# by 1e-4 relative)
T_SPECIAL = [0.0, 1e-9, -1e-9, 6.0, -6.0, 1.0, -1.0, 1e-4, -1e-4, 0.1, -0.12, 0.05, 0.13, -0.08]


@st.composite
def along_case(draw):
    n = dims(draw, lo=2)
    shape = draw(st.sampled_from(SHAPES))
    cnt = gen.prod(shape)
    ts = [draw(st.one_of(fl(-6.0, 6.0), st.sampled_from(T_SPECIAL))) for _ in range(cnt)]
    # the distance as whole numbers in integer packagings (Python int, NumPy integer scalar,
    # integer ndarray): "distance t" is a real parameter, 1 and 1.0 are the same distance
    tpack = draw(st.sampled_from(["float", "float", "float", "pyint", "npint", "ndint"]))
    if tpack != "float":
        ts = [float(draw(st.integers(-5, 5))) for _ in range(cnt)]
    return dict(n=n, shape=shape, tv=draw(_tv_fields(n, shape, 2.5)), t=ts,
                unit_by=draw(st.sampled_from(["normalized", "harness"])),
                scalar_t=bool(draw(st.booleans())), tpack=tpack)


def body_along(case, ctx):
    n, shape = case["n"], tuple(case["shape"])
    tv, P, U, V = build_tv_std(case["tv"], n, shape)
    base_labels(ctx, n, shape)
    if case["unit_by"] == "normalized":
        utv = tv.normalized()
        # normalized(): same basepoint, unit vector in the same direction
        w = np.asarray(utv.vector, dtype=float)
        same_direction(ctx, "normalized().vector direction", w, U, C_of(P) * (
            1.0 + np.abs(np.array(case["tv"]["ncomp"]).reshape(shape)) /
            np.array(case["tv"]["lens"]).reshape(shape)))
        ctx.close("normalized().vector has Minkowski norm 1", mink(w, w), np.ones(shape),
                  rtol=0, atol=1e-9 * float(np.max(C_of(P))) ** 2)
    else:
        S = np.abs(np.array(case["tv"]["scales"], dtype=float).reshape(shape))
        utv = TangentVector(Point((P * S[..., None]).copy()), U.copy())
    ctx.label("unit_by=" + case["unit_by"])
    t = np.array(case["t"], dtype=float).reshape(shape)
    if case["scalar_t"] or not shape:
        t = np.full(shape, float(case["t"][0])) if case["t"] else t
        arg = float(case["t"][0]) if case["t"] else 0.0
        ctx.label("scalar-t")
    else:
        arg = t.copy()
    tpack = case.get("tpack", "float")
    if tpack != "float":
        ctx.label("t-packaging=" + tpack)
        if np.ndim(arg) == 0:
            arg = {"pyint": int(arg), "npint": np.int64(int(arg)),
                   "ndint": np.array(int(arg))}[tpack]
        else:
            arg = arg.astype(np.int32 if tpack == "npint" else np.int64)
    if np.any(t < 0):
        ctx.label("t<0")
    if np.any(np.abs(t) > 3):
        ctx.label("|t|>3")
    if np.any(t == 0):
        ctx.label("t=0")
    q = utv.point_along(arg)
    ctx.check(isinstance(q, Point), "point_along returns a Point", got=type(q).__name__)
    ctx.check(q.shape == shape, "point_along shape", got=q.shape, want=shape)
    Q = np.asarray(q.proj_data, dtype=float)
    ctx.check(np.all(np.isfinite(Q)) and np.all(mink(Q, Q) < 0),
              "point_along gives interior points", Q=Q)
    Qh = I.to_hyperboloid(Q)
    want = I.exp_map(P, U, t)
    Cq = C_of(want)
    # (a) distance |t| from the basepoint, harness metric
    d = I.dist_h(P, Qh)
    tol = I.dist_tol(P, want, np.abs(t), eps=1e-12) + 1e-10 * Cq
    ctx.small("d(p, point_along(t)) = |t|", (d - np.abs(t)) / tol, 1.0, d=d, t=t)
    # the same through the library's own distance (what a user would measure)
    dl = np.asarray(Point(P.copy()).distance(q), dtype=float)
    ctx.small("p.distance(point_along(t)) = |t|", (dl - np.abs(t)) / (tol + 1e-9 * Cq * Cq), 1.0,
              d=dl, t=t)
    # (b) on the side of the geodesic given by the sign of t: <q, u> = sinh t
    side = mink(Qh, U)
    ctx.small("<q,u> = sinh t (side of the basepoint)",
              (side - np.sinh(t)) / (1e-9 * Cq * C_of(P)), 1.0, side=side, t=t)
    big = np.abs(t) > 1e-6
    ctx.check(np.all(np.sign(side[big]) == np.sign(t[big])) if np.ndim(side) else
              (not big or np.sign(side) == np.sign(t)), "sign of t gives the side", side=side,
              t=t)
    # (c) on the geodesic through p with direction u: the exponential map
    same_point(ctx, "point_along(t) = cosh(t) p + sinh(t) u", Q, want, growth=C_of(P))


def nt_along(labels):
    return "n>=2" in labels and ("n>=3" in labels or "t<0" in labels or "composite" in labels)


# ------------------------------------------------------- 5. unit_tangent_towards
@st.composite
def towards_case(draw):
    n = dims(draw, lo=2)
    shape = draw(st.sampled_from(SHAPES))
    cnt = gen.prod(shape)
    seps = [math.exp(draw(fl(math.log(1e-3), math.log(8.0)))) for _ in range(cnt)]
    return dict(n=n, shape=shape, pts=draw(kpoints(n, cnt, math.tanh(2.0))),
                dirs=[draw(sdir(n)) for _ in range(cnt)], seps=seps,
                sp=[draw(st.one_of(st.just(1.0), gen.scalars_pm(0.2, 5.0))) for _ in range(cnt)],
                sq=[draw(st.one_of(st.just(1.0), gen.scalars_pm(0.2, 5.0))) for _ in range(cnt)])


def _pq(case):
    n, shape = case["n"], tuple(case["shape"])
    cnt = gen.prod(shape)
    P, U = [], []
    for i in range(cnt):
        p = I.hyperboloid_from_klein(case["pts"][i])
        u = np.concatenate([[0.0], np.array(case["dirs"][i], dtype=float)]) @ I.boost(
            case["pts"][i])
        P.append(p)
        U.append(u)
    P = np.array(P).reshape(shape + (n + 1,))
    U = np.array(U).reshape(shape + (n + 1,))
    return P, U


def body_towards(case, ctx):
    n, shape = case["n"], tuple(case["shape"])
    P, U = _pq(case)
    s = np.array(case["seps"], dtype=float).reshape(shape)
    Qh = I.exp_map(P, U, s)
    sp = np.array(case["sp"], dtype=float).reshape(shape)
    sq = np.array(case["sq"], dtype=float).reshape(shape)
    base_labels(ctx, n, shape)
    if np.any(sp * sq < 0):
        ctx.label("opposite-sign-representatives")
    if np.any(s < 0.01):
        ctx.label("close-pair")
    if np.any(s > 4):
        ctx.label("far-pair")
    p = handed_point(P * sp[..., None])
    q = handed_point(Qh * sq[..., None])
    tv = p.unit_tangent_towards(q)
    ctx.check(isinstance(tv, TangentVector) and tv.shape == shape,
              "unit_tangent_towards returns a TangentVector of the same shape",
              got=(type(tv).__name__, tv.shape))
    same_point(ctx, "tangent is based at p", tv.point, P)
    w = geometric(tv.vector, tv.point)
    # the direction is found from q - p: conditioning 1/separation
    g = C_of(P) * C_of(Qh) / np.minimum(s, 1.0)
    same_direction(ctx, "tangent points towards q", w, U, g)
    ctx.close("tangent is a unit vector", mink(w, w), np.ones(shape), rtol=0,
              atol=1e-9 * float(np.max(g * C_of(P))))
    d = I.dist_h(P, Qh)                       # harness distance (= s up to rounding)
    r = tv.point_along(d.copy() if shape else float(d))
    same_point(ctx, "unit_tangent_towards(q).point_along(d(p,q)) = q", r.proj_data, Qh,
               growth=g)


def nt_towards(labels):
    return "n>=2" in labels and ("n>=3" in labels or "composite" in labels or
                                 "opposite-sign-representatives" in labels)


# ------------------------------------------------------------- 6. law of cosines
@st.composite
def cosine_case(draw):
    n = dims(draw, lo=2)
    shape = draw(st.sampled_from(SHAPES))
    cnt = gen.prod(shape)
    kind = draw(st.integers(0, 19))
    th = []
    for _ in range(cnt):
        if kind == 0:
            th.append(draw(st.sampled_from([0.0, math.pi])))       # degenerate triangle
        else:
            th.append(draw(st.one_of(fl(0.05, math.pi - 0.05),
                                     st.sampled_from([math.pi / 2, math.pi / 3, 0.05]))))
    return dict(n=n, shape=shape, pts=draw(kpoints(n, cnt, math.tanh(2.0))),
                dirs=[draw(sdir(n)) for _ in range(cnt)],
                perp=[draw(gen.directions(n - 1)) for _ in range(cnt)], theta=th,
                b=[draw(fl(0.05, 4.0)) for _ in range(cnt)],
                c=[draw(fl(0.05, 4.0)) for _ in range(cnt)],
                l1=[draw(fl(0.1, 10.0)) for _ in range(cnt)],
                l2=[draw(fl(0.1, 10.0)) for _ in range(cnt)],
                nc=[draw(fl(-2.0, 2.0)) for _ in range(cnt)])


def _perp_unit(d, w):
    """unit vector of R^n orthogonal to the unit vector d, built from w in R^(n-1) through
    the Householder reflection taking e1 to d"""
    d = np.asarray(d, dtype=float)
    n = len(d)
    e = np.zeros(n)
    e[0] = 1.0
    x = np.concatenate([[0.0], np.asarray(w, dtype=float)])
    # Householder vector chosen WITHOUT cancellation (d + sign(d_0) e1 maps e1 to -+d; the
    # image of x, which is orthogonal to e1, is orthogonal to d).  h = e1 - d cancels
    # catastrophically for d close to e1 and made this oracle wrong by 8e-9 once.
    sg = 1.0 if d[0] >= 0 else -1.0
    h = d + sg * e
    nh = float(h @ h)
    return x - 2.0 * h * float(h @ x) / nh


def body_cosine(case, ctx):
    n, shape = case["n"], tuple(case["shape"])
    cnt = gen.prod(shape)
    base_labels(ctx, n, shape)
    th = np.array(case["theta"], dtype=float).reshape(shape)
    degenerate = bool(np.any((th == 0.0) | (th == math.pi)))
    if degenerate:
        ctx.label("degenerate-angle")
        fid = "C13-angle-nan-for-parallel-vectors"
        if pending(fid) or ctx.known(fid):
            ctx.exclude(fid)
            return
    P, U1, U2 = [], [], []
    for i in range(cnt):
        k = case["pts"][i]
        B = I.boost(k)
        d1 = np.array(case["dirs"][i], dtype=float)
        d2 = math.cos(case["theta"][i]) * d1 + math.sin(case["theta"][i]) * _perp_unit(
            d1, case["perp"][i])
        P.append(I.hyperboloid_from_klein(k))
        U1.append(np.concatenate([[0.0], d1]) @ B)
        U2.append(np.concatenate([[0.0], d2]) @ B)
    P = np.array(P).reshape(shape + (n + 1,))
    U1 = np.array(U1).reshape(shape + (n + 1,))
    U2 = np.array(U2).reshape(shape + (n + 1,))
    b = np.array(case["b"], dtype=float).reshape(shape)
    c = np.array(case["c"], dtype=float).reshape(shape)
    Q = I.exp_map(P, U1, b)
    R = I.exp_map(P, U2, c)
    p, q, r = handed_point(P), handed_point(Q), handed_point(R)
    tq = p.unit_tangent_towards(q)
    tr = p.unit_tangent_towards(r)
    ang = np.asarray(tq.angle(tr), dtype=float)
    ctx.check(ang.shape == shape, "angle shape", got=ang.shape, want=shape)
    ctx.check(np.all(np.isfinite(ang)), "angle is finite", ang=ang, theta=th)
    CP = C_of(P)
    g = CP ** 2 * np.maximum(C_of(Q), C_of(R)) / np.minimum(np.minimum(b, c), 1.0)
    sin_th = np.sin(th)

    def ang_tol(growth):
        # the cosine carries delta ~ 1e-10 * growth; the angle min(sqrt(2 delta), delta/sin)
        delta = 1e-10 * growth
        return 1e-10 + 4 * np.minimum(np.sqrt(2 * delta), delta / np.maximum(sin_th, 1e-300))

    ctx.small("angle at p equals the constructed angle",
              (ang - th) / ang_tol(g), 1.0, ang=ang, theta=th)
    # hyperbolic law of cosines with harness distances
    a = I.dist_h(Q, R)
    bb = I.dist_h(P, Q)
    cc = I.dist_h(P, R)
    lhs = np.cosh(a)
    rhs = np.cosh(bb) * np.cosh(cc) - np.sinh(bb) * np.sinh(cc) * np.cos(ang)
    ctx.small("cosh a = cosh b cosh c - sinh b sinh c cos(angle)",
              (lhs - rhs) / (1e-9 * g * np.cosh(bb) * np.cosh(cc)), 1.0, side_a=a, side_b=bb,
              side_c=cc, ang=ang)
    ang2 = np.asarray(tr.angle(tq), dtype=float)
    ctx.small("angle is symmetric", (ang2 - ang) / ang_tol(g), 1.0)
    # raw (non-unit, non-tangential) tangent vectors at p: angle() normalises and projects
    l1 = np.array(case["l1"], dtype=float).reshape(shape)
    l2 = np.array(case["l2"], dtype=float).reshape(shape)
    nc = np.array(case["nc"], dtype=float).reshape(shape)
    t1 = TangentVector(Point(P.copy()), (l1[..., None] * U1 + nc[..., None] * P).copy())
    t2 = TangentVector(Point(P.copy()), (l2[..., None] * U2 - nc[..., None] * P).copy())
    ang3 = np.asarray(t1.angle(t2), dtype=float)
    gr = CP ** 2 * (1.0 + np.abs(nc) / np.minimum(l1, l2))
    ctx.small("angle of raw tangent vectors equals the constructed angle",
              (ang3 - th) / ang_tol(gr), 1.0, ang=ang3, theta=th)


def nt_cosine(labels):
    return "n>=3" in labels or "composite" in labels


# ------------------------------------------------------------ 7. regular polygons
@st.composite
def polygon_case(draw):
    n = draw(st.one_of(st.integers(3, 40), st.sampled_from([3, 4, 5, 6, 8, 12])))
    dim = draw(st.sampled_from([2, 2, 3, 4]))
    amax = (n - 2) * math.pi / n
    if draw(st.booleans()):
        a = draw(st.one_of(fl(0.02 * amax, 0.98 * amax),
                           st.sampled_from([x for x in [math.pi / 2, math.pi / 3, math.pi / 4,
                                                        math.pi / 6, 2 * math.pi / 3]
                                            if 0.02 * amax <= x <= 0.98 * amax] or
                                           [0.5 * amax])))
        pack = draw(st.sampled_from(["float", "float", "pyint", "npint", "arr0dint"]))
        if pack != "float":
            a = 1.0 if n < 7 or draw(st.booleans()) else 2.0     # 1 < pi/3, 2 < 5 pi / 7
        return dict(n=n, dim=dim, angle=a, radius=None, pack=pack,
                    default_dim=bool(dim == 2 and draw(st.booleans())))
    pack = draw(st.sampled_from(["float", "float", "pyint", "npint", "arr0dint"]))
    return dict(n=n, dim=dim, angle=None, pack=pack,
                radius=draw(st.one_of(fl(0.05, 6.0), st.sampled_from([1.0, 0.5, 2.0])))
                if pack == "float" else float(draw(st.integers(1, 5))),
                default_dim=bool(dim == 2 and draw(st.booleans())),
                positional=draw(st.booleans()))


def body_polygon(case, ctx):
    n, dim = case["n"], case["dim"]
    kw = {} if case["default_dim"] else {"dimension": dim}
    pack = case.get("pack", "float")
    wrap = {"float": float, "pyint": lambda x: int(x), "npint": lambda x: np.int64(int(x)),
            "arr0dint": lambda x: np.array(int(x))}[pack]
    if pack != "float":
        ctx.label("parameter-packaging=" + pack)
    if case["angle"] is not None:
        a = float(case["angle"])
        r = I.ngon_radius_from_angle(n, a)
        poly = Polygon.regular_polygon(n, angle=wrap(a), **kw)
        ctx.label("by-angle")
    else:
        r = float(case["radius"])
        a = I.ngon_angle_from_radius(n, r)
        if bool(case.get("positional", False)):
            poly = Polygon.regular_polygon(n, wrap(r), **kw)
        else:
            poly = Polygon.regular_polygon(n, radius=wrap(r), **kw)
        ctx.label("by-radius")
    ctx.label("dim=%d" % dim, "n=%d" % n if n <= 6 else "n>6")
    if n >= 5:
        ctx.label("n>=5")
    if r > 3:
        ctx.label("r>3")
    ctx.check(isinstance(poly, Polygon), "regular_polygon returns a Polygon",
              got=type(poly).__name__)
    ctx.check(poly.shape == (), "a single polygon", got=poly.shape)
    verts = poly.get_vertices()
    V = np.asarray(verts.proj_data, dtype=float)
    ctx.check(V.shape == (n, dim + 1), "n vertices in H^dim", got=V.shape, want=(n, dim + 1))
    ctx.check(np.all(np.isfinite(V)) and np.all(mink(V, V) < 0), "vertices are interior", V=V)
    Vh = I.to_hyperboloid(V)
    C = math.cosh(r)
    o = np.zeros(dim + 1)
    o[0] = 1.0
    # equal distance r from the origin
    rad = I.dist_h(Vh, o)
    tol_r = 1e-9 * C * C / max(math.sinh(r), 1e-2)
    ctx.small("vertices at distance r from the origin", (rad - r) / tol_r, 1.0, rad=rad, r=r)
    # every chord d(v_i, v_{i+k}) is the chord of the central angle 2 pi k / n: equal sides
    # (k = 1, closing side included), vertices evenly spaced and in cyclic order
    for k in range(1, n // 2 + 1):
        want = I.chord(r, 2 * math.pi * k / n)
        got = I.dist_h(Vh, np.roll(Vh, -k, axis=0))
        tol = 1e-11 * C ** 4 / max(math.sinh(want), 1e-3) + 1e-12
        ctx.small("chord d(v_i, v_i+k)" if k > 1 else "side length d(v_i, v_i+1)",
                  (got - want) / tol, 1.0, k=k, got=got, want=want)
    # interior angle at every vertex from Minkowski products of the neighbours
    ang = I.angle_between(Vh, np.roll(Vh, 1, axis=0), np.roll(Vh, -1, axis=0))
    s = I.chord(r, 2 * math.pi / n)
    tol_a = 1e-11 * C ** 4 / (min(math.sinh(s), 1.0) ** 2 * max(math.sin(a), 1e-2)) + 1e-12
    ctx.small("interior angle at every vertex", (ang - a) / tol_a, 1.0, ang=ang, angle=a)
    if tol_a > 1e-3:
        ctx.label("angle-check-loose")
    # planar: the polygon lies in the plane of the first two spatial axes (rotation orbit)
    if dim > 2:
        ctx.small("polygon lies in the x1-x2 plane", V[:, 3:] / (1e-9 * C), 1.0)


def nt_polygon(labels):
    return "n>=5" in labels or "dim=3" in labels or "dim=4" in labels


# ----------------------------------------------------- 8. radius / angle formulas
@st.composite
def formula_case(draw):
    n = draw(st.integers(3, 60))
    amax = (n - 2) * math.pi / n
    return dict(n=n, angle=draw(fl(0.02 * amax, 0.98 * amax)),
                # (a circumradius of 15 .. 19 is an interior angle of 1e-6 .. 1e-8: small, and
                # as well determined as any other)
                radius=draw(st.one_of(fl(0.05, 6.0), fl(0.05, 6.0), fl(0.05, 6.0),
                                      st.sampled_from([12.0, 15.0, 17.0, 19.0]))),
                g=draw(st.integers(2, 30)),
                t=draw(st.one_of(fl(-6.0, 6.0), st.sampled_from(T_SPECIAL))))


def body_formula(case, ctx):
    n, a, r = case["n"], float(case["angle"]), float(case["radius"])
    ctx.label("n>=5" if n >= 5 else "n<5")
    r_lib = float(hyperbolic.regular_polygon_radius(n, a))
    r_true = I.ngon_radius_from_angle(n, a)
    C = math.cosh(r_true)
    ctx.small("regular_polygon_radius vs cosh r = cot(pi/n) cot(a/2)",
              (r_lib - r_true) / (1e-9 * C / max(math.sinh(r_true), 1e-2)), 1.0, r_lib=r_lib,
              r_true=r_true)
    a_lib = float(hyperbolic.polygon_interior_angle(n, r))
    a_true = I.ngon_angle_from_radius(n, r)
    ctx.small("polygon_interior_angle vs closed form", (a_lib - a_true) / 1e-9, 1.0,
              a_lib=a_lib, a_true=a_true)
    ctx.small("polygon_interior_angle vs closed form, relative to the angle",
              (a_lib - a_true) / (1e-9 * a_true), 1.0, a_lib=a_lib, a_true=a_true, r=r)
    back_a = float(hyperbolic.polygon_interior_angle(n, hyperbolic.regular_polygon_radius(n, a)))
    ctx.small("interior_angle(radius(a)) = a", (back_a - a) / (1e-9 * C), 1.0, back=back_a, angle=a)
    back_r = float(hyperbolic.regular_polygon_radius(n, hyperbolic.polygon_interior_angle(n, r)))
    ctx.small("radius(interior_angle(r)) = r",
              (back_r - r) / (1e-9 * math.cosh(r) ** 2 / max(math.sinh(r), 1e-2)), 1.0,
              back=back_r, r=r)
    # tables of angles / radii (ndarrays, 0-d arrays): same values entry by entry, and the
    # caller's table is left as it was
    for arr in (np.array([a, 0.5 * a, a]), np.array(a)):
        keep = arr.copy()
        rr = np.asarray(hyperbolic.regular_polygon_radius(n, arr), dtype=float)
        ctx.check(np.array_equal(arr, keep), "regular_polygon_radius leaves the caller's angle "
                  "array untouched", before=keep, after=arr)
        ctx.close("regular_polygon_radius on an array = entry by entry", rr.reshape(-1)[0], r_lib,
                  rtol=1e-12, atol=0)
        back = np.asarray(hyperbolic.polygon_interior_angle(n, rr), dtype=float)
        ctx.small("interior_angle(radius(angles)) = angles for a table of angles",
                  (back - keep) / (1e-9 * C), 1.0)
    for arr in (np.array([r, 0.5 * r + 0.05]), np.array(r)):
        keep = arr.copy()
        aa = np.asarray(hyperbolic.polygon_interior_angle(n, arr), dtype=float)
        ctx.check(np.array_equal(arr, keep), "polygon_interior_angle leaves the caller's radius "
                  "array untouched", before=keep, after=arr)
        ctx.close("polygon_interior_angle on an array = entry by entry", aa.reshape(-1)[0], a_lib,
                  rtol=1e-12, atol=0)
    t = float(case["t"])
    ctx.small("hyp_to_affine_dist(t) = tanh t", (float(hyperbolic.hyp_to_affine_dist(t)) -
                                                  math.tanh(t)) / 1e-12, 1.0, t=t)
    g = case["g"]
    rg = float(hyperbolic.genus_g_surface_radius(g))
    want = math.acosh(1.0 / math.tan(math.pi / (4 * g)) ** 2)
    ctx.small("genus_g_surface_radius: 4g-gon with angle 2 pi / 4g", (rg - want) / 1e-9, 1.0,
              got=rg, want=want)
    # the regular polygon built on that radius: the fundamental 4g-gon of a genus-g surface
    # (angle sum 2 pi), through the constructor that goes with the formula
    if g <= 6:
        poly = Polygon.regular_surface_polygon(g)
        V = np.asarray(poly.get_vertices().proj_data, dtype=float)
        ctx.check(V.shape == (4 * g, 3), "regular_surface_polygon(g) has 4g vertices in H^2",
                  got=V.shape)
        Vh = I.to_hyperboloid(V)
        o = np.array([1.0, 0.0, 0.0])
        Cg = math.cosh(want)
        ctx.small("regular_surface_polygon: vertices at the genus-g radius",
                  (I.dist_h(Vh, o) - want) / (1e-9 * Cg * Cg / math.sinh(want)), 1.0)
        ang = I.angle_between(Vh, np.roll(Vh, 1, axis=0), np.roll(Vh, -1, axis=0))
        ctx.small("regular_surface_polygon: interior angles 2 pi / 4g (angle sum 2 pi)",
                  (ang - math.pi / (2 * g)) / (1e-8 * Cg ** 4), 1.0, ang=ang)
        # the same polygon asked for in H^d, d = 3..5: the same vertices in the plane of the
        # first two coordinates
        dd = 3 + g % 3
        Vd = np.asarray(Polygon.regular_surface_polygon(g, dimension=dd).get_vertices()
                        .proj_data, dtype=float)
        ctx.check(Vd.shape == (4 * g, dd + 1), "regular_surface_polygon(g, dimension=d) has "
                  "4g vertices in H^d", got=Vd.shape, want=(4 * g, dd + 1))
        ctx.close("regular_surface_polygon(g, dimension=d): the planar polygon, padded",
                  Vd / Vd[:, :1], np.concatenate([V / V[:, :1], np.zeros((4 * g, dd - 2))],
                                                 axis=1), rtol=0, atol=1e-12 * Cg)


# ------------------------------------------ 9. timelike_to / spacelike_to (docstrings)
@st.composite
def tlsl_case(draw):
    n = dims(draw)
    shape = draw(st.sampled_from(SHAPES))
    cnt = gen.prod(shape)
    return dict(n=n, shape=shape, pts=draw(kpoints(n, cnt, 0.999)),
                scales=[draw(gen.scalars_any()) for _ in range(cnt)],
                normals=draw(_normals(n, cnt, 1.8)),
                fo=draw(st.sampled_from([True, False, None])))


def body_tlsl(case, ctx):
    n, shape = case["n"], tuple(case["shape"])
    base_labels(ctx, n, shape)
    ctx.label("fo=%s" % case["fo"])
    K, X = proj_points(case["pts"], case["scales"], shape, n)
    want = I.hyperboloid_from_klein(K)
    Xin = X[..., None, :] if shape else X
    T = hyperbolic.timelike_to(Xin.copy(), **_fo_kwargs(case["fo"]))
    img = T @ Point.get_origin(n)
    same_point(ctx, "timelike_to(v) @ origin = v", img.proj_data, want)
    Vn = _normal_array(case["normals"], n, shape)
    S = hyperbolic.spacelike_to(Vn.copy(), **_fo_kwargs(case["fo"]))
    M = np.asarray(S.matrix, dtype=float)
    ctx.check(M.shape == shape + (n + 1, n + 1), "spacelike_to shape", got=M.shape)
    V = _normal_array(case["normals"], n, shape, composite_layout=False)
    e1img = M[..., 1, :]                 # image of the second standard basis vector
    c, rel = I.direction_defect(e1img, V)
    amax = max(abs(nparts(e)[1]) for e in case["normals"]) if case["normals"] else 0.0
    ctx.small("spacelike_to(v) takes e1 to a multiple of v", rel / (1e-9 * math.cosh(amax) ** 2),
              1.0, img=e1img, v=V)
    ctx.check(np.all(np.abs(c) > 0), "non-zero multiple", c=c)


LAWS = [
    Law("origin_to_hits_target", origin_case(), body_origin, nt_origin, quick=200,
        thorough=2000, shards=(1, 4)),
    Law("tv_origin_to_base", tv_case(), body_tv_origin, nt_tv, quick=200, thorough=2000,
        shards=(1, 4)),
    Law("isometry_to_carries", tv_case(two=True), body_isometry_to, nt_tv, quick=200,
        thorough=2000, shards=(1, 4)),
    Law("point_along_distance_and_side", along_case(), body_along, nt_along, quick=250,
        thorough=2500, shards=(1, 4)),
    Law("tangent_towards_reaches", towards_case(), body_towards, nt_towards, quick=200,
        thorough=2000, shards=(1, 4)),
    Law("law_of_cosines", cosine_case(), body_cosine, nt_cosine, quick=200, thorough=2000,
        shards=(1, 4)),
    Law("regular_polygon", polygon_case(), body_polygon, nt_polygon, quick=150, thorough=1500,
        shards=(1, 4)),
    Law("radius_angle_inverse", formula_case(), body_formula, lambda l: "n>=5" in l,
        quick=200, thorough=2000, shards=(1, 2)),
    Law("timelike_spacelike_to_hit_target", tlsl_case(), body_tlsl, nt_tv, quick=150,
        thorough=1500, shards=(1, 4)),
]
