"""C17 - the Lie-group maps are homomorphisms onto the groups they name."""
import math
import numpy as np
from hypothesis import strategies as st

from ..core import Law, HarnessError
from .. import gen
from ..gen import fl
from ..oracles import rep as O
from . import c05_gen as G
from .c05 import sl2_irrep_oracle, as_num, cond_of

from geometry_tools import lie
from geometry_tools.lie import hom as LH

RULE = ("cases: pairs (A, B) of 2x2 real matrices (rotation x diag(e^t, +-e^-t) x unipotent, general "
        "well-conditioned, unimodular integer of determinant +-1, special: I, -I, rotations by "
        "pi/2 and pi, unipotents, diagonal, antidiagonal/reflections), 2x2 complex matrices of "
        "determinant 1 (normalised well-conditioned, Gaussian-integer unimodular, special), n x n "
        "real/complex/integer/Gaussian-integer invertible matrices (n <= 4) for adjoints, "
        "realification and block inclusion; target dimensions 2..6; array shapes of rank 0..2 with "
        "sides 1..3.  non-trivial = non-commuting pair, or target dimension >= 3, or array rank "
        ">= 1; distinct = distinct JSON case.")

ASSUMPTIONS = [
    "float inputs have condition number <= ~1e3 and are compared to 1e-9 relative to the product of "
    "the sizes of the two images (adjoints: additionally x cond); identities of the polynomial maps "
    "on exact integer / Gaussian-integer inputs are compared to 1e-9 absolute",
    "o_to_pgl takes square roots of matrix entries: compared to 1e-6 x |A|^2 up to a global sign",
    "the dtype of the results is not claimed (gln_adjoint / sln_adjoint return dtype=object arrays "
    "unless a dtype is passed; reported as a finding): values are compared after conversion",
    "gln_adjoint, sln_adjoint, sl2c_to_so31 and o_to_pgl are written for a single matrix: on arrays "
    "a clean exception or the unit loop (a squeezed size-1 axis is tolerated) is accepted",
    "sl2_irrep on integer-typed input (int8, int16, int64) is compared with the float-typed copy",
]

CLAIM = dict(
    text=("sl2_irrep (n = 2..6), sl2_to_so21, gln_adjoint, sln_adjoint, slc_to_slr, sl2c_to_so31 and "
          "block_include send products to products and the identity to the identity on single "
          "matrices, agree with the unit loop on arrays where they are array-aware, preserve "
          "det 1 / diag(-1,1,1) / diag(-1,1,1,1) / the Killing form, agree with their lie.hom "
          "wrappers and with Representation.compose, and o_to_pgl inverts sl2_to_so21 up to sign "
          "and is a homomorphism up to sign (also through Isometry.to_sl2)."),
    note=("exploration: randomised identity testing on float and exact integer inputs; trusted: "
          "numpy/LAPACK, the reference models in vt/oracles/rep.py, stated tolerances"),
    technique="property-based testing (Hypothesis): randomised polynomial identity testing on exact integer points, reference models from the documented bases, unit-loop comparison for arrays",
)

J3 = np.diag([-1.0, 1.0, 1.0])
J4 = np.diag([-1.0, 1.0, 1.0, 1.0])


# ---------------------------------------------------------------------------
# strategies
SPECIAL_REAL2 = [
    [[1, 0], [0, 1]], [[-1, 0], [0, -1]], [[0, -1], [1, 0]], [[0, 1], [-1, 0]],
    [[1, 1], [0, 1]], [[1, 0], [1, 1]], [[1, -3], [0, 1]], [[2, 0], [0, 0.5]], [[-2, 0], [0, -0.5]],
    [[0, 1], [1, 0]], [[1, 0], [0, -1]], [[0, 2], [0.5, 0]], [[0, -2], [0.5, 0]], [[2, 0], [0, -0.5]],
    [[1, 1], [1, 0]], [[0, 1], [-1, 3]], [[3, 1], [-1, 0]],
]


def _rot(t):
    return np.array([[math.cos(t), -math.sin(t)], [math.sin(t), math.cos(t)]])


@st.composite
def real2(draw, allow_gl=False, allow_neg=True):
    """2x2 real matrix, determinant +-1 unless kind == 'gl2'"""
    kinds = ["float", "float", "int", "special"] + (["gl2"] if allow_gl else [])
    kind = draw(st.sampled_from(kinds))
    if kind == "float":
        th = draw(st.one_of(fl(-math.pi, math.pi), st.sampled_from([0.0, math.pi / 2, math.pi])))
        t = draw(fl(-1.5, 1.5))
        s = draw(st.one_of(fl(-2.0, 2.0), st.just(0.0)))
        sg = draw(st.sampled_from([1.0, 1.0, -1.0])) if allow_neg else 1.0
        M = _rot(th) @ np.diag([math.exp(t), sg * math.exp(-t)]) @ np.array([[1.0, s], [0.0, 1.0]])
        if draw(st.booleans()):
            M = M @ _rot(draw(fl(-math.pi, math.pi)))
        m = [[float(x) for x in row] for row in M]
    elif kind == "int":
        m = draw(gen.unimodular_int_matrix(2, steps=4, maxabs=3))
        if not allow_neg and m[0][0] * m[1][1] - m[0][1] * m[1][0] < 0:
            m = [m[0], [-x for x in m[1]]]
    elif kind == "special":
        m = draw(st.sampled_from(SPECIAL_REAL2))
        if not allow_neg and m[0][0] * m[1][1] - m[0][1] * m[1][0] < 0:
            m = [m[0], [-x for x in m[1]]]
    else:
        m = draw(gen.wellcond_matrix(2, maxfactor=3.0))
    return dict(kind=kind, m=m)


def dec_real(c):
    return np.array(c["m"], dtype=float)


def is_exact(*cs):
    return all(c["kind"] in ("int", "gauss") or
               (c["kind"] == "special" and all(float(x).is_integer() for r in c["m"] for x in
                                               (r if not isinstance(r[0], list) else sum(r, []))))
               for c in cs)


SPECIAL_CPLX2 = [
    [[[1, 0], [0, 0]], [[0, 0], [1, 0]]], [[[-1, 0], [0, 0]], [[0, 0], [-1, 0]]],
    [[[0, 1], [0, 0]], [[0, 0], [0, -1]]], [[[0, 0], [1, 0]], [[-1, 0], [0, 0]]],
    [[[0, 0], [0, 1]], [[0, 1], [0, 0]]], [[[1, 0], [0, 1]], [[0, 0], [1, 0]]],
    [[[1, 0], [0, 0]], [[2, -1], [1, 0]]],
]


@st.composite
def gauss_unimodular(draw, n, steps=4, maxabs=2):
    """Gaussian-integer matrix of determinant +-1 or +-i... restricted here to det 1 for n=2 when
    `steps` elementary operations are used: products of elementary matrices I + z E_ij"""
    M = [[complex(1 if i == j else 0) for j in range(n)] for i in range(n)]
    if n >= 2:
        for _ in range(draw(st.integers(0, steps))):
            i = draw(st.integers(0, n - 1))
            j = draw(st.integers(0, n - 2))
            if j >= i:
                j += 1
            z = complex(draw(st.integers(-maxabs, maxabs)), draw(st.integers(-maxabs, maxabs)))
            M[i] = [a + z * b for a, b in zip(M[i], M[j])]
    return [[[int(z.real), int(z.imag)] for z in row] for row in M]


@st.composite
def cplx2(draw):
    """2x2 complex matrix of determinant 1 (after normalisation in `dec_cplx2`)"""
    kind = draw(st.sampled_from(["float", "float", "gauss", "special", "realfloat"]))
    if kind == "float":
        m = draw(gen.wellcond_matrix(2, complex_=True, maxfactor=3.0))
    elif kind == "realfloat":
        r = draw(real2(allow_neg=False))
        m = [[[float(x), 0.0] for x in row] for row in r["m"]]
    elif kind == "gauss":
        m = draw(gauss_unimodular(2))
        if draw(st.booleans()):     # times diag(i, -i), determinant 1
            m = [[[-m[0][0][1], m[0][0][0]], [-m[0][1][1], m[0][1][0]]],
                 [[m[1][0][1], -m[1][0][0]], [m[1][1][1], -m[1][1][0]]]]
    else:
        m = draw(st.sampled_from(SPECIAL_CPLX2))
    return dict(kind=kind, m=m)


def dec_cplx2(c):
    A = gen.cmat(c["m"]).astype(complex)
    if c["kind"] in ("float", "realfloat"):
        A = A / np.sqrt(np.linalg.det(A))
    return A


@st.composite
def square(draw, n, field):
    """n x n invertible: field in real / complex / int / gauss"""
    if field == "real":
        return dict(kind="float", m=draw(G.matrix(n, "real", 3.0)))
    if field == "complex":
        return dict(kind="float", m=draw(G.matrix(n, "complex", 3.0)))
    if field == "int":
        return dict(kind="int", m=draw(gen.unimodular_int_matrix(n, steps=4, maxabs=2)))
    if field == "intdet":
        # integer entries, determinant +-2, +-3: invertible over the reals, not over Z
        U = np.array(draw(gen.unimodular_int_matrix(n, steps=3, maxabs=2)))
        d = [draw(st.sampled_from([2, 3, -2]))] + [1] * (n - 1)
        return dict(kind="int", m=(U @ np.diag(d)).tolist())
    return dict(kind="gauss", m=draw(gauss_unimodular(n, steps=4, maxabs=1)))


def dec_square(c, field):
    if field in ("complex", "gauss"):
        return gen.cmat(c["m"]).astype(complex)
    return np.array(c["m"], dtype=float)


def comm_label(ctx, A, B):
    if A.shape == B.shape and np.max(np.abs(A @ B - B @ A)) > 1e-6 * max(1.0, np.max(np.abs(A @ B))):
        ctx.label("noncommuting")


def nt(labels):
    return bool({"noncommuting", "n>=3", "array"} & set(labels))


def close_hom(ctx, name, fab, fa, fb, exact, extra=1.0, **detail):
    """f(AB) = f(A) f(B): 1e-9 absolute on exact inputs, else 1e-9 x |f(A)| |f(B)| x extra"""
    fab, fa, fb = as_num(fab), as_num(fa), as_num(fb)
    want = fa @ fb
    if exact:
        ctx.close(name, fab, want, rtol=0, atol=1e-9, **detail)
    else:
        sc = max(1.0, O.norm2(fa) * O.norm2(fb)) * extra
        ctx.close(name, fab, want, rtol=0, atol=1e-9 * sc, **detail)


# ---------------------------------------------------------------------------
# 1. sl2_irrep
@st.composite
def irrep_case(draw):
    cplx = draw(st.integers(0, 3)) == 0
    if cplx:
        A, B = draw(cplx2()), draw(cplx2())
    else:
        A, B = draw(real2(allow_gl=True)), draw(real2(allow_gl=True))
    return dict(cplx=cplx, A=A, B=B, n=draw(st.integers(2, 6)),
                v=[draw(fl(-1.5, 1.5)), draw(st.sampled_from([1.0, -1.0, 0.5]))])


def body_irrep(case, ctx):
    dec = dec_cplx2 if case["cplx"] else dec_real
    A, B = dec(case["A"]), dec(case["B"])
    n = case["n"]
    exact = is_exact(case["A"], case["B"])
    ctx.label("complex" if case["cplx"] else "real", "n=%d" % n, "exact" if exact else "float",
              "n>=3" if n >= 3 else "", "kinds=%s,%s" % (case["A"]["kind"], case["B"]["kind"]))
    comm_label(ctx, A, B)
    fa, fb, fab = lie.sl2_irrep(A.copy(), n), lie.sl2_irrep(B.copy(), n), lie.sl2_irrep(A @ B, n)
    ctx.check(fa.shape == (n, n), "shape of sl2_irrep(A, n)", got=fa.shape)
    close_hom(ctx, "sl2_irrep(AB) = sl2_irrep(A) sl2_irrep(B)", fab, fa, fb, exact)
    I2 = np.eye(2, dtype=A.dtype)
    ctx.close("sl2_irrep(I) = I", lie.sl2_irrep(I2, n), np.eye(n), rtol=0, atol=0)
    ctx.close("sl2_irrep(-I) = (-1)^(n-1) I", lie.sl2_irrep(-I2, n), (-1.0) ** (n - 1) * np.eye(n),
              rtol=0, atol=0)
    # the documented action on homogeneous polynomials: f(A) nu(v) = nu(A v)
    v = np.array(case["v"], dtype=float)
    sc = max(1.0, O.norm2(A)) ** (n - 1) * max(1.0, float(np.linalg.norm(v))) ** (n - 1) * 2 ** n
    ctx.close("sl2_irrep(A) nu(v) = nu(A v) (action on degree n-1 polynomials)",
              fa @ O.veronese(v, n), O.veronese(A @ v, n), rtol=0, atol=1e-9 * sc)
    ctx.close("sl2_irrep(A) vs the matrix determined by the Veronese map", fa,
              sl2_irrep_oracle(A, n), rtol=0, atol=1e-9 * sc * 4 ** n)
    # elements of SL(2, Z) held in integer-typed arrays (narrow ones, and large entries whose
    # single powers fit the type): the same matrix as for the float-typed copy
    k = 1 + int(abs(case["v"][0]) * 7) % 3
    for Mi in (np.array([[3, 1], [2, 1]], dtype=np.int8),
               np.array([[2 * k + 1, k], [2, 1]], dtype=np.int16),
               np.array([[40001, 40000], [40002, 40001]], dtype=np.int64)):
        if float(np.abs(Mi).max()) ** (n - 1) > np.iinfo(Mi.dtype).max:
            continue          # (a single power of an entry does not fit the caller's dtype)
        ri = np.asarray(lie.sl2_irrep(Mi.copy(), n), dtype=float)
        rf = np.asarray(lie.sl2_irrep(Mi.astype(float), n), dtype=float)
        ctx.close("sl2_irrep of an %s-typed matrix = sl2_irrep of its float copy" % Mi.dtype,
                  ri, rf, rtol=1e-12, atol=0)
    ctx.label("integer-typed-input")
    dA = np.linalg.det(A)
    want = dA ** (n * (n - 1) // 2)
    ctx.close("det sl2_irrep(A, n) = det(A)^(n(n-1)/2)", np.linalg.det(fa), want, rtol=0,
              atol=1e-9 * max(1.0, O.norm2(fa)) ** n * n)


# ---------------------------------------------------------------------------
# 2. sl2_to_so21
@st.composite
def pair_real2(draw, **kw):
    return dict(A=draw(real2(**kw)), B=draw(real2(**kw)))


def body_so21(case, ctx):
    A, B = dec_real(case["A"]), dec_real(case["B"])
    exact = is_exact(case["A"], case["B"])
    ctx.label("exact" if exact else "float", "n>=3", "kinds=%s,%s" % (case["A"]["kind"],
                                                                     case["B"]["kind"]))
    ctx.label("det(A)=%+d" % round(np.linalg.det(A)) if case["A"]["kind"] != "gl2" else "gl2")
    comm_label(ctx, A, B)
    fa, fb, fab = lie.sl2_to_so21(A.copy()), lie.sl2_to_so21(B.copy()), lie.sl2_to_so21(A @ B)
    ctx.check(fa.shape == (3, 3) and not np.iscomplexobj(fa), "sl2_to_so21(A) is a real 3x3 matrix")
    close_hom(ctx, "sl2_to_so21(AB) = sl2_to_so21(A) sl2_to_so21(B)", fab, fa, fb, exact)
    ctx.close("sl2_to_so21(I) = I", lie.sl2_to_so21(np.eye(2)), np.eye(3), rtol=0, atol=1e-15)
    ctx.close("sl2_to_so21(-A) = sl2_to_so21(A)", lie.sl2_to_so21(-A), fa, rtol=0, atol=0)
    ctx.close("sl2_to_so21(A^-1) sl2_to_so21(A) = I", lie.sl2_to_so21(np.linalg.inv(A)) @ fa,
              np.eye(3), rtol=0, atol=1e-9 * max(1.0, O.norm2(fa)) ** 2)


# ---------------------------------------------------------------------------
# 3. adjoints
@st.composite
def adj_case(draw, which):
    n = draw(st.sampled_from([1, 2, 2, 3, 3, 4] if which == "gln" else [2, 2, 3, 3, 4]))
    field = draw(st.sampled_from(["real", "complex", "int", "gauss", "intdet", "intdet"]))
    if field == "intdet":
        n = draw(st.sampled_from([2, 2, 3]))       # (closed forms live in the lowest dimension)
    return dict(n=n, field=field, A=draw(square(n, field)), B=draw(square(n, field)),
                X=[draw(fl(-2.0, 2.0)) for _ in range(n * n)], give_inv=draw(st.booleans()),
                inttyped=draw(st.sampled_from([True, True, False])))


def body_adjoint(which):
    f_lib = lie.gln_adjoint if which == "gln" else lie.sln_adjoint
    f_ref = O.gln_adjoint if which == "gln" else O.sln_adjoint

    def body(case, ctx):
        n, field = case["n"], case["field"]
        A, B = dec_square(case["A"], field), dec_square(case["B"], field)
        ctx.label("field=" + field, "n=%d" % n, "n>=3" if n >= 3 else "")
        comm_label(ctx, A, B)
        cA, cB = cond_of(A), cond_of(B)
        if field in ("int", "intdet") and case.get("inttyped"):
            # the same integer matrices held in an int64 array
            ctx.label("int64-typed-input")
            fi = as_num(f_lib(A.astype(np.int64)))
            ctx.close("adjoint of an int64-typed matrix = adjoint of the same matrix as float",
                      fi, f_ref(A), rtol=0, atol=1e-10 * cA * cA * n)
            # ... or in an array of a narrower integer type (entries are small)
            for it in (np.int32, np.int16):
                if np.all(np.abs(A) < 100):
                    ctx.close("adjoint of an %s-typed matrix = adjoint of the same matrix as "
                              "float" % np.dtype(it).name, as_num(f_lib(A.astype(it))),
                              f_ref(A), rtol=0, atol=1e-10 * cA * cA * n)
        if n >= 2:
            # matrices close to, or formally like, orthogonal ones: g g^T = I for a complex g
            # that is not unitary, and a real g within 1e-5 of a rotation
            t_ = 0.3 + abs(float(case["X"][0]))
            Zc = np.eye(n, dtype=complex)
            Zc[:2, :2] = [[math.cosh(t_), 1j * math.sinh(t_)], [-1j * math.sinh(t_), math.cosh(t_)]]
            Zr = np.eye(n)
            Zr[0, 0], Zr[1, 1] = 1 + 4e-6, 1 / (1 + 4e-6)
            for nm_, Z_ in (("complex orthogonal, not unitary", Zc), ("nearly orthogonal", Zr)):
                ctx.close("adjoint of a matrix that is %s" % nm_, as_num(f_lib(Z_.copy())),
                          f_ref(Z_), rtol=0, atol=1e-10 * cond_of(Z_) ** 2 * n)
            ctx.label("orthogonal-like-matrices")
        if case["give_inv"]:
            ctx.label("inv-given")
            fa = f_lib(A.copy(), inv=np.linalg.inv(A))
        else:
            fa = f_lib(A.copy())
        fb, fab = f_lib(B.copy()), f_lib(A @ B)
        if np.asarray(fa).dtype == object:
            ctx.label("object-dtype-result")
        m = n * n if which == "gln" else n * n - 1
        ctx.check(np.asarray(fa).shape == (m, m), "shape of the adjoint", got=np.asarray(fa).shape)
        close_hom(ctx, "%s_adjoint(AB) = %s_adjoint(A) %s_adjoint(B)" % (which, which, which),
                  fab, fa, fb, False, extra=cA * cB)
        ctx.close("adjoint(I) = I", as_num(f_lib(np.eye(n, dtype=A.dtype))), np.eye(m), rtol=0,
                  atol=1e-15)
        ctx.close("adjoint(A) vs the matrix of X -> A X A^-1 in the documented basis", as_num(fa),
                  f_ref(A), rtol=0, atol=1e-10 * cA * cA * n)
        ctx.close("adjoint(A^-1) adjoint(A) = I", as_num(f_lib(np.linalg.inv(A))) @ as_num(fa),
                  np.eye(m), rtol=0, atol=1e-9 * cA ** 3)
        # dtype passed explicitly gives a numeric array with the same values
        dt = np.dtype(complex if np.iscomplexobj(A) else float)
        fd = f_lib(A.copy(), dtype=dt)
        ctx.check(np.asarray(fd).dtype == dt, "adjoint(A, dtype=...) has that dtype",
                  got=str(np.asarray(fd).dtype))
        ctx.close("adjoint(A, dtype=...) = adjoint(A)", fd, as_num(fa), rtol=1e-12,
                  atol=1e-12 * cA)
        if which == "sln":
            K = np.asarray(lie.sln_killing_form(n), dtype=float)
            T = O.sln_trace_form(n)
            ctx.check(K.shape == (m, m), "sln_killing_form shape")
            ctx.close("sln_killing_form is symmetric", K, K.T, rtol=0, atol=0)
            c = K[0, 0] / T[0, 0]
            ctx.check(c > 0, "sln_killing_form is a positive multiple of the trace form", c=c)
            ctx.close("sln_killing_form proportional to trace(XY) in the documented basis", K, c * T,
                      rtol=0, atol=1e-12)
            Ad = as_num(fa)
            ctx.close("sln_adjoint(A)^T K sln_adjoint(A) = K (Killing form invariant)",
                      Ad.T @ K @ Ad, K, rtol=0, atol=1e-9 * cA ** 2 * n * n)
    return body


# ---------------------------------------------------------------------------
# 4. slc_to_slr
@st.composite
def slc_case(draw):
    n = draw(st.integers(1, 4))
    field = draw(st.sampled_from(["complex", "complex", "gauss", "real"]))
    return dict(n=n, field=field, A=draw(square(n, field)), B=draw(square(n, field)))


def body_slc(case, ctx):
    n, field = case["n"], case["field"]
    A, B = dec_square(case["A"], field), dec_square(case["B"], field)
    exact = field == "gauss"
    ctx.label("field=" + field, "n=%d" % n, "n>=3" if 2 * n >= 3 else "", "exact" if exact else "float")
    comm_label(ctx, A, B)
    fa, fb, fab = lie.slc_to_slr(A.copy()), lie.slc_to_slr(B.copy()), lie.slc_to_slr(A @ B)
    ctx.check(fa.shape == (2 * n, 2 * n), "shape of slc_to_slr(A)", got=fa.shape)
    ctx.close("slc_to_slr(A) has no imaginary part", np.imag(fa), 0.0, rtol=0, atol=0)
    ctx.close("slc_to_slr(A) is the real block form [[Re, -Im], [Im, Re]]", np.real(fa),
              O.real_block_form(A), rtol=0, atol=0)
    close_hom(ctx, "slc_to_slr(AB) = slc_to_slr(A) slc_to_slr(B)", fab, fa, fb, exact)
    ctx.close("slc_to_slr(I) = I", lie.slc_to_slr(np.eye(n, dtype=complex)), np.eye(2 * n), rtol=0,
              atol=0)
    Jc = np.block([[np.zeros((n, n)), -np.eye(n)], [np.eye(n), np.zeros((n, n))]])
    ctx.close("slc_to_slr(A) commutes with the complex structure", np.real(fa) @ Jc,
              Jc @ np.real(fa), rtol=0, atol=0)
    ctx.close("slc_to_slr(i I) is the complex structure", np.real(lie.slc_to_slr(1j * np.eye(n))),
              Jc, rtol=0, atol=0)
    ctx.close("det slc_to_slr(A) = |det A|^2", np.linalg.det(np.real(fa)),
              abs(np.linalg.det(A)) ** 2, rtol=0, atol=1e-9 * max(1.0, O.norm2(A)) ** (2 * n) * n)


# ---------------------------------------------------------------------------
# 5. sl2c_to_so31
@st.composite
def so31_case(draw):
    return dict(A=draw(cplx2()), B=draw(cplx2()), h=[draw(fl(-2.0, 2.0)) for _ in range(4)])


def body_so31(case, ctx):
    A, B = dec_cplx2(case["A"]), dec_cplx2(case["B"])
    exact = is_exact(case["A"], case["B"])
    ctx.label("exact" if exact else "float", "n>=3", "kinds=%s,%s" % (case["A"]["kind"],
                                                                     case["B"]["kind"]))
    comm_label(ctx, A, B)
    fa, fb, fab = lie.sl2c_to_so31(A.copy()), lie.sl2c_to_so31(B.copy()), lie.sl2c_to_so31(A @ B)
    ctx.check(np.asarray(fa).shape == (4, 4), "shape of sl2c_to_so31(A)")
    sc = max(1.0, O.norm2(A)) ** 2
    ctx.close("sl2c_to_so31(A) is real", np.imag(as_num(fa)), 0.0, rtol=0,
              atol=1e-9 if exact else 1e-12 * sc)
    close_hom(ctx, "sl2c_to_so31(AB) = sl2c_to_so31(A) sl2c_to_so31(B)", fab, fa, fb, exact)
    ctx.close("sl2c_to_so31(I) = I", as_num(lie.sl2c_to_so31(np.eye(2, dtype=complex))), np.eye(4),
              rtol=0, atol=1e-15)
    ctx.close("sl2c_to_so31(-A) = sl2c_to_so31(A)", as_num(lie.sl2c_to_so31(-A)), as_num(fa), rtol=0,
              atol=1e-15 * sc)
    # the documented model: action X -> A X A^* on Hermitian matrices in the documented basis
    h = np.array(case["h"], dtype=float)
    ha = as_num(lie.sl2c_herm_action(A.copy()))
    X = O.herm_from_coords(h)
    ctx.close("sl2c_herm_action(A) coords(X) = coords(A X A^*)", np.real(ha) @ h,
              O.herm_coords(A @ X @ A.conj().T), rtol=0, atol=1e-9 if exact else 1e-10 * sc * 4)
    # the determinant of Hermitian matrices (the Lorentzian form) is preserved
    Y = O.herm_from_coords(np.real(ha) @ h)
    ctx.close("sl2c_herm_action(A) preserves det on Hermitian matrices",
              float(np.real(np.linalg.det(Y))), float(np.real(np.linalg.det(X))), rtol=0,
              atol=1e-9 * sc ** 2 * 8)
    if case["A"]["kind"] == "realfloat":
        ctx.label("real-input")
        ctx.close("on SL(2,R) the image is sl2_to_so21(A) (+) 1", np.real(as_num(fa))[:3, :3],
                  lie.sl2_to_so21(np.real(A)), rtol=0, atol=1e-10 * sc)
        # SL(2,R) inside SL(2,C) stored with a REAL dtype: the same matrix, the same image,
        # to full double precision
        Ar = np.ascontiguousarray(np.real(A))
        fr = as_num(lie.sl2c_to_so31(Ar.copy()))
        ctx.close("sl2c_to_so31 of a real-typed matrix = of the same matrix typed complex",
                  np.real(fr), np.real(as_num(fa)), rtol=0, atol=1e-12 * sc)
        J4 = np.diag([-1.0, 1.0, 1.0, 1.0])
        ctx.close("sl2c_to_so31 of a real-typed matrix preserves diag(-1,1,1,1)",
                  np.real(fr).T @ J4 @ np.real(fr), J4, rtol=0, atol=1e-11 * sc ** 2)
        if case["B"]["kind"] == "realfloat":
            Br = np.ascontiguousarray(np.real(B))
            close_hom(ctx, "sl2c_to_so31(AB) = sl2c_to_so31(A) sl2c_to_so31(B), real dtype",
                      lie.sl2c_to_so31(Ar @ Br), fr, as_num(lie.sl2c_to_so31(Br.copy())), exact)


# ---------------------------------------------------------------------------
# 6. block_include
@st.composite
def block_case(draw):
    n = draw(st.integers(1, 4))
    field = draw(st.sampled_from(["real", "complex", "int", "gauss"]))
    return dict(n=n, field=field, A=draw(square(n, field)), B=draw(square(n, field)),
                d=n + draw(st.integers(0, 3)))


def body_block(case, ctx):
    n, field, d = case["n"], case["field"], case["d"]
    A, B = dec_square(case["A"], field), dec_square(case["B"], field)
    exact = field in ("int", "gauss")
    ctx.label("field=" + field, "n=%d" % n, "d-n=%d" % (d - n), "n>=3" if d >= 3 else "")
    comm_label(ctx, A, B)
    fa, fb, fab = lie.block_include(A.copy(), d), lie.block_include(B.copy(), d), \
        lie.block_include(A @ B, d)
    want = np.eye(d, dtype=A.dtype)
    want[:n, :n] = A
    ctx.close("block_include(A, d) = diag(A, I)", fa, want, rtol=0, atol=0)
    close_hom(ctx, "block_include(AB) = block_include(A) block_include(B)", fab, fa, fb, exact)
    ctx.close("block_include(I) = I", lie.block_include(np.eye(n), d), np.eye(d), rtol=0, atol=0)


# ---------------------------------------------------------------------------
# 7. structure preserved
@st.composite
def structure_case(draw):
    return dict(A=draw(real2(allow_neg=True)), C=draw(cplx2()), n=draw(st.integers(2, 6)),
                S=draw(square(draw(st.integers(2, 3)), draw(st.sampled_from(["real", "int"])))))


def body_structure(case, ctx):
    A = dec_real(case["A"])
    C = dec_cplx2(case["C"])
    n = case["n"]
    detA = np.linalg.det(A)
    ctx.label("n=%d" % n, "n>=3", "det(A)=%+d" % round(detA), "kindA=" + case["A"]["kind"],
              "kindC=" + case["C"]["kind"])
    nA = max(1.0, O.norm2(A))
    # irreducible representations of SL(2): determinant one
    A1 = A if detA > 0 else A @ np.diag([1.0, -1.0])
    R = lie.sl2_irrep(A1.copy(), n)
    ctx.close("det sl2_irrep(A, n) = 1 for A in SL(2,R)", np.linalg.det(R), 1.0, rtol=0,
              atol=1e-9 * nA ** (n * (n - 1)) * n)
    Rc = lie.sl2_irrep(C.copy(), n)
    ctx.close("det sl2_irrep(A, n) = 1 for A in SL(2,C)", np.linalg.det(Rc), 1.0, rtol=0,
              atol=1e-9 * max(1.0, O.norm2(C)) ** (n * (n - 1)) * n)
    # SO(2,1): det +-1 preimages preserve diag(-1,1,1)
    S = lie.sl2_to_so21(A.copy())
    tolS = 1e-9 * nA ** 4
    ctx.close("sl2_to_so21(A)^T J sl2_to_so21(A) = J", S.T @ J3 @ S, J3, rtol=0, atol=tolS)
    ctx.close("sl2_to_so21(A) J sl2_to_so21(A)^T = J", S @ J3 @ S.T, J3, rtol=0, atol=tolS)
    ctx.close("det sl2_to_so21(A) = det(A)^3", np.linalg.det(S), round(detA) ** 3, rtol=0,
              atol=1e-9 * nA ** 6)
    if detA > 0:
        ctx.check(S[0, 0] >= 1 - 1e-9, "sl2_to_so21(SL(2,R)) preserves the future light cone",
                  s00=S[0, 0])
    # SO(3,1)
    T = np.real(as_num(lie.sl2c_to_so31(C.copy())))
    tolT = 1e-9 * max(1.0, O.norm2(C)) ** 4
    ctx.close("sl2c_to_so31(A)^T J sl2c_to_so31(A) = J", T.T @ J4 @ T, J4, rtol=0, atol=tolT)
    ctx.close("det sl2c_to_so31(A) = 1", np.linalg.det(T), 1.0, rtol=0, atol=tolT * 4)
    ctx.check(T[0, 0] >= 1 - 1e-9, "sl2c_to_so31 maps into the identity component", t00=T[0, 0])
    # Killing form
    g = dec_square(case["S"], "real")
    m = g.shape[0]
    K = np.asarray(lie.sln_killing_form(m), dtype=float)
    Ad = as_num(lie.sln_adjoint(g.copy()))
    ctx.close("sln_adjoint(g)^T K sln_adjoint(g) = K", Ad.T @ K @ Ad, K, rtol=0,
              atol=1e-9 * cond_of(g) ** 2 * m * m)
    ctx.check(abs(np.linalg.det(K)) > 1e-9, "sln_killing_form is non-degenerate")


# ---------------------------------------------------------------------------
# 8. arrays
ARRAY_MAPS = ["sl2_irrep", "sl2_to_so21", "slc_to_slr", "block_include"]
SINGLE_MAPS = ["gln_adjoint", "sln_adjoint", "sl2c_to_so31", "o_to_pgl"]


@st.composite
def array_case(draw):
    which = draw(st.sampled_from(ARRAY_MAPS + SINGLE_MAPS))
    shape = draw(gen.shapes(max_rank=2))
    cnt = gen.prod(shape)
    if which in ("sl2_irrep", "sl2_to_so21", "o_to_pgl"):
        units = [draw(real2(allow_neg=False)) for _ in range(cnt)]
        n = 2
    elif which == "sl2c_to_so31":
        units = [draw(cplx2()) for _ in range(cnt)]
        n = 2
    else:
        n = draw(st.integers(1, 3)) if which != "sln_adjoint" else draw(st.integers(2, 3))
        field = "complex" if which == "slc_to_slr" else draw(st.sampled_from(["real", "complex"]))
        units = [draw(square(n, field)) for _ in range(cnt)]
        return dict(which=which, shape=shape, units=units, n=n, field=field,
                    param=draw(st.integers(2, 6)))
    return dict(which=which, shape=shape, units=units, n=n, field=None,
                param=draw(st.integers(2, 6)))


def body_arrays(case, ctx):
    which, shape = case["which"], tuple(case["shape"])
    ctx.label("map=" + which, "rank=%d" % len(shape), "array" if len(shape) >= 1 else "",
              "size-1-axis" if 1 in shape else "")
    if which in ("sl2_irrep", "sl2_to_so21", "o_to_pgl"):
        mats = [dec_real(u) for u in case["units"]]
    elif which == "sl2c_to_so31":
        mats = [dec_cplx2(u) for u in case["units"]]
    else:
        mats = [dec_square(u, case["field"]) for u in case["units"]]
    n = case["n"]
    if which == "o_to_pgl":
        mats = [lie.sl2_to_so21(M) for M in mats]
        n = 3
    dt = complex if any(np.iscomplexobj(M) for M in mats) else float
    arr = np.array(mats, dtype=dt).reshape(shape + (n, n))
    p = case["param"]
    fns = {
        "sl2_irrep": lambda X: lie.sl2_irrep(X, p),
        "sl2_to_so21": lie.sl2_to_so21,
        "slc_to_slr": lie.slc_to_slr,
        "block_include": lambda X: lie.block_include(X, n + p - 2),
        "gln_adjoint": lie.gln_adjoint,
        "sln_adjoint": lie.sln_adjoint,
        "sl2c_to_so31": lie.sl2c_to_so31,
        "o_to_pgl": lie.o_to_pgl,
    }
    f = fns[which]
    units = [as_num(f(np.array(M, dtype=dt))) for M in mats]
    tail = units[0].shape if units else None
    if which in ARRAY_MAPS:
        out = as_num(f(arr.copy()))
        if tail is None:
            return
        want = np.array(units).reshape(shape + tail)
        ctx.check(out.shape == want.shape, "array result shape = shape + unit shape", got=out.shape,
                  want=want.shape)
        ctx.close("array result equals the unit loop", out, want, rtol=1e-13, atol=1e-13)
        return
    # single-matrix maps: clean exception or the unit loop
    if len(shape) == 0:
        ctx.label("single")
        return
    try:
        out = as_num(f(arr.copy()))
    except (ValueError, IndexError, TypeError, np.linalg.LinAlgError) as e:
        ctx.label("array->clean-exception")
        return
    want = np.array(units).reshape(shape + tail)
    if out.shape != want.shape and out.size == want.size and all(s == 1 for s in shape):
        ctx.label("array->squeezed-size-1-axes")
        out = out.reshape(want.shape)
    ctx.check(out.shape == want.shape, "a single-matrix map that accepts an array must return "
              "shape + unit shape", got=out.shape, want=want.shape)
    ctx.close("a single-matrix map that accepts an array must agree with the unit loop", out, want,
              rtol=1e-9, atol=1e-9)
    ctx.label("array->unit-loop")


# ---------------------------------------------------------------------------
# 9. lie.hom wrappers and Representation.compose
WRAPPERS = ["sl2_irrep", "sl2_to_so21", "so21_to_sl2", "gln_adjoint", "sln_adjoint", "slc_to_slr",
            "sl2c_to_so31", "block_include"]


@st.composite
def wrapper_case(draw):
    which = draw(st.sampled_from(WRAPPERS))
    p = draw(st.integers(2, 6))
    if which in ("sl2_irrep", "sl2_to_so21", "so21_to_sl2"):
        mats = [draw(real2(allow_neg=False)) for _ in range(2)]
        n, field = 2, None
    elif which == "sl2c_to_so31":
        mats = [draw(cplx2()) for _ in range(2)]
        n, field = 2, None
    else:
        n = draw(st.integers(2, 3))
        field = "complex" if which == "slc_to_slr" else draw(st.sampled_from(["real", "complex"]))
        mats = [draw(square(n, field)) for _ in range(2)]
    words = [draw(G.word(["a", "b"], 6)) for _ in range(2)]
    return dict(which=which, p=p, n=n, field=field, mats=mats, words=words,
                give_inv=draw(st.booleans()))


def body_wrappers(case, ctx):
    from geometry_tools.representation import Representation
    which, p, n = case["which"], case["p"], case["n"]
    ctx.label("map=" + which, "n>=3")
    if which in ("sl2_irrep", "sl2_to_so21", "so21_to_sl2"):
        mats = [dec_real(u) for u in case["mats"]]
    elif which == "sl2c_to_so31":
        mats = [dec_cplx2(u) for u in case["mats"]]
    else:
        mats = [dec_square(u, case["field"]) for u in case["mats"]]
    comm_label(ctx, mats[0], mats[1])
    direct = {
        "sl2_irrep": lambda X: lie.sl2_irrep(X, p),
        "sl2_to_so21": lie.sl2_to_so21,
        "so21_to_sl2": lie.o_to_pgl,
        "gln_adjoint": lie.gln_adjoint,
        "sln_adjoint": lie.sln_adjoint,
        "slc_to_slr": lie.slc_to_slr,
        "sl2c_to_so31": lie.sl2c_to_so31,
        "block_include": lambda X: lie.block_include(X, n + p),
    }[which]
    wf = None
    if which in ("gln_adjoint", "sln_adjoint"):
        # (requested before the plain wrapper below, see "wrappers-with-different-options")
        wf = getattr(LH, which)(dtype="float64")
    wrapped = {
        "sl2_irrep": lambda: LH.sl2_irrep(p),
        "sl2_to_so21": LH.sl2_to_so21,
        "so21_to_sl2": LH.so21_to_sl2,
        "gln_adjoint": LH.gln_adjoint,
        "sln_adjoint": LH.sln_adjoint,
        "slc_to_slr": LH.slc_to_slr,
        "sl2c_to_so31": LH.sl2c_to_so31,
        "block_include": lambda: LH.block_include(n + p),
    }[which]()
    if which == "so21_to_sl2":
        mats = [lie.sl2_to_so21(M) for M in mats]
    # one wrapper object answers a sequence of calls, with and without a supplied inverse
    # (an inverse supplied for one matrix has nothing to say about the next)
    calls = [(0, True), (1, False), (0, False), (1, True), (0, False)] if case["give_inv"] \
        else [(0, False), (1, False)]
    for (k, with_inv) in calls:
        M = mats[k]
        d = as_num(direct(M.copy()))
        if with_inv:
            w = as_num(wrapped(M.copy(), inv=np.linalg.inv(M)))
            ctx.label("inv-given")
            ctx.close("lie.hom wrapper(M, inv=M^-1) = direct call", w, d, rtol=1e-9,
                      atol=1e-9 * cond_of(M) ** 2)
        else:
            w = as_num(wrapped(M.copy()))
            ctx.close("lie.hom wrapper(M) = direct call", w, d, rtol=0, atol=0, call=k)
    if which in ("gln_adjoint", "sln_adjoint"):
        # two wrappers of the same map requested with different keyword options are two
        # different functions: one asked for with dtype=float64 says nothing about the next
        # one, which is applied to complex matrices as it stands
        ctx.label("wrappers-with-different-options")
        lh = getattr(LH, which)
        R0 = np.real(mats[0]) if np.iscomplexobj(mats[0]) else mats[0]
        ctx.close("wrapper(dtype=float64) on a real matrix",
                  np.asarray(wf(R0.copy()), dtype=float), as_num(direct(R0.copy())).real,
                  rtol=1e-12, atol=1e-12)
        Z = mats[1].astype(complex) * (1.0 + 0.5j) if which == "gln_adjoint" else \
            mats[1].astype(complex)
        if which == "sln_adjoint":
            Z = Z @ np.diag([1j, -1j] + [1.0] * (Z.shape[0] - 2)) if Z.shape[0] >= 2 else Z
        wz = lh()
        ctx.close("wrapper() requested after wrapper(dtype=float64), on a complex matrix",
                  as_num(wz(Z.copy())), as_num(direct(Z.copy())), rtol=1e-12, atol=1e-12)
    if which == "so21_to_sl2":
        return          # a homomorphism only up to sign: not usable generator by generator
    # Representation.compose(hom): images of words are hom(rho(w))
    rep = Representation()
    L = O.Letters()
    for g, M in zip("ab", mats):
        rep[g] = M.copy()
        L.assign(g, M)
    comp = rep.compose(wrapped)
    for w in case["words"]:
        P, b = L.eval(w)
        got = as_num(comp[G.wstr(w)])
        want = as_num(direct(P))
        gr = L.growth(w) * L.cond()
        deg = {"sl2_irrep": p - 1, "sl2_to_so21": 2, "sl2c_to_so31": 2, "gln_adjoint": 2,
               "sln_adjoint": 2}.get(which, 1)
        ctx.close("compose(lie.hom.%s)[w] = %s(rho(w))" % (which, which), got, want, rtol=0,
                  atol=1e-9 * max(1.0, gr) ** deg * L.cond(), word=G.wstr(w))


# ---------------------------------------------------------------------------
# 10. o_to_pgl
def up_to_sign(ctx, name, got, want, atol, **detail):
    got, want = np.asarray(got, dtype=float), np.asarray(want, dtype=float)
    ctx.check(got.shape == want.shape, name + ": shape", got=got.shape, want=want.shape)
    d = min(float(np.max(np.abs(got - want))), float(np.max(np.abs(got + want))))
    ctx.small(name, d, atol, got=got, want=want, **detail)


def pgl_labels(ctx, A, tag="A"):
    if np.any(A == 0):
        ctx.label(tag + "-has-zero-entry")
    if A[1, 1] == 0:
        ctx.label(tag + "[1,1]=0")
    if A[0, 0] == 0:
        ctx.label(tag + "[0,0]=0")
    ctx.label("det(%s)=%+d" % (tag, round(np.linalg.det(A))))


def body_o_to_pgl_inverse(case, ctx):
    A = dec_real(case["A"])
    ctx.label("kind=" + case["A"]["kind"], "n>=3")
    pgl_labels(ctx, A)
    S = lie.sl2_to_so21(A.copy())
    got = lie.o_to_pgl(S.copy())
    ctx.check(np.asarray(got).shape == (2, 2), "o_to_pgl returns a 2x2 matrix")
    nA = max(1.0, O.norm2(A))
    up_to_sign(ctx, "o_to_pgl(sl2_to_so21(A)) = +-A", got, A, 1e-6 * nA ** 2, A=A)
    # with the form given explicitly
    got2 = lie.o_to_pgl(S.copy(), bilinear_form=np.diag([-1.0, 1.0, 1.0]))
    ctx.close("o_to_pgl(S, bilinear_form=diag(-1,1,1)) = o_to_pgl(S)", got2, got, rtol=0, atol=0)
    ctx.close("o_to_pgl(I) = +-I", np.abs(lie.o_to_pgl(np.eye(3))), np.eye(2), rtol=0, atol=1e-7)


def body_o_to_pgl_hom(case, ctx):
    A, B = dec_real(case["A"]), dec_real(case["B"])
    ctx.label("kinds=%s,%s" % (case["A"]["kind"], case["B"]["kind"]), "n>=3")
    comm_label(ctx, A, B)
    pgl_labels(ctx, A, "A")
    pgl_labels(ctx, B, "B")
    pgl_labels(ctx, A @ B, "AB")
    S, T = lie.sl2_to_so21(A.copy()), lie.sl2_to_so21(B.copy())
    a, b, ab = lie.o_to_pgl(S.copy()), lie.o_to_pgl(T.copy()), lie.o_to_pgl(S @ T)
    sc = max(1.0, O.norm2(A)) ** 2 * max(1.0, O.norm2(B)) ** 2
    up_to_sign(ctx, "o_to_pgl(S T) = +- o_to_pgl(S) o_to_pgl(T)", ab, np.asarray(a) @ np.asarray(b),
               2e-6 * sc, A=A, B=B)
    ctx.small("|det o_to_pgl(S)| = 1", abs(abs(np.linalg.det(a)) - 1.0), 1e-6 * sc)
    ai = lie.o_to_pgl(np.linalg.inv(S))
    up_to_sign(ctx, "o_to_pgl(S^-1) = +- o_to_pgl(S)^-1", ai, np.linalg.inv(a), 2e-6 * sc ** 2)


@st.composite
def form_case(draw):
    return dict(A=draw(real2(allow_neg=True)), B=draw(real2(allow_neg=True)),
                P=draw(gen.wellcond_matrix(3, maxfactor=2.0)))


def body_o_to_pgl_form(case, ctx):
    """o_to_pgl(., bilinear_form=F) for a form F = P^T diag(-1,1,1) P of signature (2,1) that
    is not the standard one: the elements P^-1 S P (S in the standard O(2,1)) preserve F, and
    the map is sl2 <- so21 composed with a fixed change of basis, hence still a homomorphism
    up to sign with |det| = 1 and the traces of the standard case"""
    A, B = dec_real(case["A"]), dec_real(case["B"])
    P = np.array(case["P"], dtype=float)
    Pi = np.linalg.inv(P)
    kp = float(np.linalg.cond(P))
    ctx.label("kinds=%s,%s" % (case["A"]["kind"], case["B"]["kind"]), "n>=3", "general-form")
    comm_label(ctx, A, B)
    F = P.T @ np.diag([-1.0, 1.0, 1.0]) @ P
    F = (F + F.T) / 2
    S, T = lie.sl2_to_so21(A.copy()), lie.sl2_to_so21(B.copy())
    S1, T1 = Pi @ S @ P, Pi @ T @ P
    ctx.small("harness: P^-1 S P preserves F", S1.T @ F @ S1 - F,
              1e-9 * kp ** 2 * max(1.0, O.norm2(A)) ** 4)
    a, b = np.asarray(lie.o_to_pgl(S1.copy(), bilinear_form=F.copy())), \
        np.asarray(lie.o_to_pgl(T1.copy(), bilinear_form=F.copy()))
    ab = np.asarray(lie.o_to_pgl(S1 @ T1, bilinear_form=F.copy()))
    sc = max(1.0, O.norm2(A)) ** 2 * max(1.0, O.norm2(B)) ** 2 * kp ** 2
    ctx.check(a.shape == (2, 2) and a.dtype.kind == "f", "o_to_pgl(., form) returns a real 2x2 "
              "matrix", got=a.shape)
    up_to_sign(ctx, "o_to_pgl(S T, F) = +- o_to_pgl(S, F) o_to_pgl(T, F)", ab, a @ b, 2e-6 * sc,
               A=A, B=B)
    ctx.small("|det o_to_pgl(S, F)| = 1", abs(abs(np.linalg.det(a)) - 1.0), 1e-6 * sc)
    ctx.small("|trace o_to_pgl(S, F)| = |trace A|", abs(abs(np.trace(a)) - abs(np.trace(A))),
              2e-6 * sc)
    e = np.asarray(lie.o_to_pgl(np.eye(3), bilinear_form=F.copy()))
    ctx.close("o_to_pgl(I, F) = +-I", np.abs(e), np.eye(2), rtol=0, atol=1e-6 * kp ** 2)
    ai = np.asarray(lie.o_to_pgl(np.linalg.inv(S1), bilinear_form=F.copy()))
    up_to_sign(ctx, "o_to_pgl(S^-1, F) = +- o_to_pgl(S, F)^-1", ai, np.linalg.inv(a),
               2e-6 * sc ** 2)


def body_to_sl2(case, ctx):
    from geometry_tools import hyperbolic
    A, B = dec_real(case["A"]), dec_real(case["B"])
    ctx.label("kinds=%s,%s" % (case["A"]["kind"], case["B"]["kind"]), "n>=3")
    comm_label(ctx, A, B)
    pgl_labels(ctx, A, "A")
    i1 = hyperbolic.sl2_iso(A.copy())
    i2 = hyperbolic.Isometry.from_sl2(B.copy())
    ctx.check(type(i1) is hyperbolic.Isometry and type(i2) is hyperbolic.Isometry,
              "sl2_iso / from_sl2 return an Isometry")
    ctx.close("column matrix of sl2_iso(A) = sl2_to_so21(A)", np.asarray(i1.matrix).T,
              lie.sl2_to_so21(A), rtol=0, atol=0)
    il = hyperbolic.sl2_iso([[float(x) for x in row] for row in A])
    ctx.close("sl2_iso accepts nested lists", np.asarray(il.matrix), np.asarray(i1.matrix), rtol=0,
              atol=0)
    nA, nB = max(1.0, O.norm2(A)), max(1.0, O.norm2(B))
    up_to_sign(ctx, "sl2_iso(A).to_sl2() = +-A", i1.to_sl2(), A, 1e-6 * nA ** 2)
    up_to_sign(ctx, "(sl2_iso(A) @ sl2_iso(B)).to_sl2() = +-AB", (i1 @ i2).to_sl2(), A @ B,
               2e-6 * nA ** 2 * nB ** 2)
    up_to_sign(ctx, "sl2_iso(A).inv().to_sl2() = +-A^-1", i1.inv().to_sl2(), np.linalg.inv(A),
               2e-6 * nA ** 4)
    # the isometry object is given other data with set(): it answers for what it holds now
    i1.set(np.array(i2.proj_data, copy=True))
    up_to_sign(ctx, "to_sl2() after set(data of sl2_iso(B)) = +-B", i1.to_sl2(), B, 1e-6 * nB ** 2)


@st.composite
def sl2_stack_case(draw):
    shape = draw(st.sampled_from([[1], [2], [3], [3], [4], [2, 2], [3, 3], [2, 3], [1, 3]]))
    cnt = 1
    for x in shape:
        cnt *= x
    return dict(shape=shape, mats=[draw(real2()) for _ in range(cnt)])


def body_sl2_iso_arrays(case, ctx):
    """sl2_iso / from_sl2 are documented for arrays of shape (..., 2, 2): the composite
    isometry must be, unit by unit, the isometry of the unit matrix (stacks of exactly
    3 matrices and square grids are the shapes where an axis slip stays silent)"""
    from geometry_tools import hyperbolic
    shape = tuple(case["shape"])
    A = np.array([dec_real(c) for c in case["mats"]]).reshape(shape + (2, 2))
    ctx.label("shape=%s" % (shape,), "n>=3", "rank>=1", "noncommuting")
    iso = hyperbolic.sl2_iso(A.copy())
    ctx.check(type(iso) is hyperbolic.Isometry, "sl2_iso returns an Isometry")
    M = np.asarray(iso.matrix)
    ctx.check(M.shape == shape + (3, 3), "composite shape of sl2_iso(array)", got=M.shape,
              want=shape + (3, 3))
    J = np.diag([-1.0, 1.0, 1.0])
    pt = hyperbolic.Point(np.array([0.2, -0.3]), model="klein")
    img = np.asarray((iso @ pt).coords("klein"))
    for idx in np.ndindex(*shape):
        unit = hyperbolic.sl2_iso(A[idx].copy())
        U = np.asarray(unit.matrix)
        sc = max(1.0, float(np.abs(U).max()))
        ctx.close("sl2_iso(array)[idx] = sl2_iso(array[idx])", M[idx], U, rtol=0,
                  atol=1e-12 * sc)
        ctx.close("column matrix of unit idx = sl2_to_so21(A[idx])", M[idx].T,
                  lie.sl2_to_so21(A[idx]), rtol=0, atol=1e-12 * sc)
        ctx.close("unit idx preserves diag(-1,1,1)", M[idx] @ J @ M[idx].T, J, rtol=0,
                  atol=1e-9 * sc ** 2)
        ctx.close("unit idx moves a point like the unit isometry", img[idx],
                  np.asarray((unit @ pt).coords("klein")), rtol=0, atol=1e-9 * sc ** 2)
    iso2 = hyperbolic.Isometry.from_sl2(A.copy())
    ctx.close("from_sl2 = sl2_iso on arrays", np.asarray(iso2.matrix), M, rtol=0, atol=0)


# documented examples of sl2_iso (module docstring of geometry_tools.hyperbolic)
def exhaustive_doc_examples(tier):
    return [("the two sl2_iso examples of the hyperbolic module docstring", [dict(ex=0), dict(ex=1)])]


def body_doc_examples(case, ctx):
    from geometry_tools import hyperbolic
    ctx.label("n>=3", "example=%d" % case["ex"])
    if case["ex"] == 0:
        iso = hyperbolic.sl2_iso([[2., 0.], [0., -1. / 2]])
        pt = hyperbolic.get_point([0., 0.])
        ctx.close("docstring: loxodromic applied to the origin, half-plane coordinates",
                  (iso @ pt).coords(model="halfplane"), [0.0, 0.25], rtol=0, atol=1e-9)
    else:
        p1 = hyperbolic.Point([0., 0.1], model="klein")
        p2 = hyperbolic.Point([0.1, 0.], model="klein")
        pts = hyperbolic.Point([p1, p2])
        iso = hyperbolic.sl2_iso([[1., 1.], [0., 1.]])
        ctx.close("docstring: parabolic applied to two points, Klein coordinates",
                  (iso @ pts).coords(model="klein"),
                  [[-0.375, 0.6875], [-0.29032258, 0.70967742]], rtol=0, atol=1e-8)


@st.composite
def single_real2(draw):
    return dict(A=draw(real2(allow_neg=True)))


LAWS = [
    Law("hom_sl2_irrep", irrep_case(), body_irrep, nt, quick=200, thorough=1400, shards=(1, 4)),
    Law("hom_sl2_to_so21", pair_real2(allow_gl=True), body_so21, nt, quick=200, thorough=1400,
        shards=(1, 4)),
    Law("hom_gln_adjoint", adj_case("gln"), body_adjoint("gln"), nt, quick=100, thorough=700,
        shards=(1, 4)),
    Law("hom_sln_adjoint", adj_case("sln"), body_adjoint("sln"), nt, quick=100, thorough=700,
        shards=(1, 4)),
    Law("hom_slc_to_slr", slc_case(), body_slc, nt, quick=150, thorough=1050, shards=(1, 4)),
    Law("hom_sl2c_to_so31", so31_case(), body_so31, nt, quick=150, thorough=1050, shards=(1, 4)),
    Law("hom_block_include", block_case(), body_block, nt, quick=100, thorough=700, shards=(1, 2)),
    Law("structure_preserved", structure_case(), body_structure, nt, quick=150, thorough=1050,
        shards=(1, 4)),
    Law("arrays_vs_loop", array_case(), body_arrays, nt, quick=200, thorough=1400, shards=(1, 4)),
    Law("hom_wrappers", wrapper_case(), body_wrappers, nt, quick=150, thorough=1050, shards=(1, 4)),
    Law("o_to_pgl_inverts_sl2_to_so21", single_real2(), body_o_to_pgl_inverse, nt, quick=250,
        thorough=1750, shards=(1, 4)),
    Law("o_to_pgl_general_form", form_case(), body_o_to_pgl_form, nt, quick=250, thorough=2000,
        shards=(1, 4)),
    Law("o_to_pgl_homomorphism_up_to_sign", pair_real2(allow_neg=True), body_o_to_pgl_hom, nt,
        quick=250, thorough=1750, shards=(1, 4)),
    Law("isometry_to_sl2", pair_real2(allow_neg=True), body_to_sl2, nt, quick=150, thorough=1050,
        shards=(1, 4)),
    Law("sl2_iso_arrays_vs_loop", sl2_stack_case(), body_sl2_iso_arrays, nt, quick=120,
        thorough=800, shards=(1, 4)),
    Law("sl2_iso_documented_examples", None, body_doc_examples, nt,
        exhaustive=exhaustive_doc_examples),
]
