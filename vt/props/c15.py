"""C15 - reflections, their walls and isometry fixed points correspond to each other.

Generating data (all JSON): a conjugating isometry C = boost(d, t) . diag(1, O) written in
the harness (closed form, column convention, |t| <= 2, O a product of Givens rotations);
spacelike normals v = s . C e_1 (so <v,v> >= |v|^2 / cosh 2t); standard isometries from
the library's constructors (standard_rotation, standard_loxodromic, sl2_iso of unipotents,
Isometry.elliptic of harness-built O(n) blocks Q diag(rot(a_1),..,+-1,..) Q^T) conjugated by
C.  Oracles: the reflection across v^perp is I - 2 v (Jv)^T / <v,v>; the fixed data of
C T0 C^-1 is C applied to the fixed data of T0; attraction is decided by harness power
iteration."""
import math
import numpy as np
from hypothesis import strategies as st

from ..core import Law, Violation, HarnessError
from .. import gen
from ..gen import fl
from ..num import mink, proj_dist, minkowski_form

from geometry_tools import hyperbolic, GeometryError, lie, coxeter
from geometry_tools.hyperbolic import Isometry

KNOWN_ELLIPTIC = "C15-elliptic-repeated-eigenvalue"

RULE = ("cases: dimension n = 2..4; conjugating isometry C = boost(direction, t in [0,2]) x "
        "diag(1, O), O a product of <= 2n Givens rotations and possibly a coordinate "
        "reflection; normals v = s C e_1, s in +-[0.1,10], single (n+1,) or composite "
        "(..,1,n+1); walls also given as Subspace objects through n ideal points of v^perp; "
        "reflections from reflection_across, from the closed form (row or column), and from "
        "CoxeterGroup.hyperbolic_rep generators (triangle groups (p,q,r), r possibly "
        "infinite, and eight rank-4 diagrams of signature (3,1)); non-reflections: rotations, "
        "loxodromics, products of two reflections, rotoreflections, glide reflections, point "
        "reflections, half turns, identity; fixed points of C T0 C^-1 for T0 = "
        "standard_rotation(angle in [0.05, 2pi-0.05]), Isometry.elliptic(n, Q D Q^T) with D "
        "= plane rotations (angles in [0.05, pi]) and +-1 entries, standard_loxodromic(n, "
        "exp(+-l)), l in [0.05, 4] (optionally times a rotation of the orthogonal "
        "complement), block-included sl2_iso of unipotents with off-diagonal entry in "
        "+-[0.1, 3] (optionally times a rotation, n = 4); single isometries and composites of "
        "2.  non-trivial = C is not the identity (n >= 2 always); for the rejection law: a "
        "non-reflection of determinant -1.  distinct = distinct JSON case.")

ASSUMPTIONS = [
    "translation length of the conjugating boost <= 2, of loxodromics in [0.05, 4]; rotation "
    "angles >= 0.05 away from 0 (the eigenvector of eigenvalue 1 has condition 1/|e^{ia}-1|)",
    "tolerances are multiplied by the conditioning measured in the harness (|v|^2/<v,v> for "
    "reflections, ||C|| ||C^-1|| for conjugates); parabolic fixed points carry 1e-4 "
    "(defective eigenproblem, eigenvector error ~ eps^(1/3))",
    "isometries whose eigenvalue 1 is repeated (interior fixed set of positive dimension: "
    "rotations about an axis/plane in H^3, H^4, reflections, the identity) are generated, "
    "counted and excluded from the fixed-point clause while the open finding "
    + KNOWN_ELLIPTIC + " is listed; elliptics with a simple eigenvalue 1 (all rotations of "
    "H^2, rotoreflections of H^3, double rotations of H^4) stay under test",
    "reflections are handed to from_reflection as Isometry objects (a bare ndarray is "
    "rejected with AttributeError: input packaging, not claimed here)",
    "float64 only",
]

CLAIM = dict(
    text=("reflection_across (Hyperplane and Subspace walls) equals I - 2 v (Jv)^T/<v,v>: "
          "involutive, form preserving, det -1, fixes the ideal basis and random points of "
          "the wall, negates the normal; Hyperplane.from_reflection / Geodesic.from_reflection "
          "recover the wall (and reflection_across of the recovered wall is the reflection); "
          "non-reflections raise GeometryError; fixed_point / fixed_point_pair / axis of "
          "conjugates of standard elliptic, loxodromic and parabolic isometries are fixed, in "
          "the closed ball, of the right causal type, equal to the conjugated fixed data, "
          "with the attracting point first; Coxeter generators are reflections whose walls "
          "meet at pi/m."),
    note=("open finding " + KNOWN_ELLIPTIC + " (repeated eigenvalue 1) is excluded and "
          "counted; the non-default option sort_eigvals=False / max_eigval=False has its own "
          "law"),
    technique="property-based testing (Hypothesis), closed-form and power-iteration oracles",
)


# ---------------------------------------------------------------------------
# harness isometries (column convention)
def J(n):
    return minkowski_form(n + 1)


def boost(d, t):
    d = np.asarray(d, dtype=float)
    n = d.shape[0]
    B = np.eye(n + 1)
    B[0, 0] = math.cosh(t)
    B[0, 1:] = math.sinh(t) * d
    B[1:, 0] = math.sinh(t) * d
    B[1:, 1:] += (math.cosh(t) - 1.0) * np.outer(d, d)
    return B


def blockdiag1(O):
    O = np.asarray(O, dtype=float)
    n = O.shape[0]
    M = np.eye(n + 1)
    M[1:, 1:] = O
    return M


def harness_iso(spec):
    return boost(spec["d"], spec["t"]) @ blockdiag1(spec["O"])


def refl_col(v):
    v = np.asarray(v, dtype=float)
    n = v.shape[0] - 1
    Jv = J(n) @ v
    return np.eye(n + 1) - 2.0 * np.outer(v, Jv) / (v @ Jv)


def plane_rot(a):
    return np.array([[math.cos(a), -math.sin(a)], [math.sin(a), math.cos(a)]])


def block_from_spec(n, angles, signs, Q):
    D = np.eye(n)
    k = 0
    for a in angles:
        D[k:k + 2, k:k + 2] = plane_rot(a)
        k += 2
    for s in signs:
        D[k, k] = s
        k += 1
    if k != n:
        raise HarnessError("bad block spec")
    Q = np.asarray(Q, dtype=float)
    return Q @ D @ Q.T


def is_identity_spec(spec):
    n = len(spec["d"])
    return spec["t"] == 0.0 and np.allclose(np.asarray(spec["O"]), np.eye(n), atol=0)


def cond2(M):
    return float(np.linalg.norm(M, 2) * np.linalg.norm(np.linalg.inv(M), 2))


# ---------------------------------------------------------------------------
# strategies
@st.composite
def iso_spec(draw, n, tmax=2.0):
    O = draw(gen.orthogonal_matrix(n))
    d = draw(gen.directions(n))
    t = draw(st.one_of(fl(0.0, tmax), fl(0.0, tmax), st.sampled_from([0.0, 1.0])))
    return dict(O=O, d=d, t=t)


def _shape(draw):
    return draw(st.sampled_from([[], [], [1], [2], [3], [2, 2], [2, 3], [3, 1]]))


@st.composite
def wall_unit(draw, n):
    spec = draw(iso_spec(n, tmax=1.5))
    # the normal is given up to a non-zero factor: ordinary ones, and very small / large ones
    # (a normal read off a tiny drawing, or one in other units)
    spec["s"] = draw(st.one_of(gen.scalars_pm(), gen.scalars_pm(), gen.scalars_pm(),
                               st.sampled_from([3e-5, -1e-5, 2e-6, 4e4, -3e5])))
    return spec


@st.composite
def walls_case(draw):
    n = draw(st.sampled_from([2, 3, 4]))
    shape = _shape(draw)
    units = [draw(wall_unit(n)) for _ in range(gen.prod(shape))]
    ys = [[draw(fl(-1.0, 1.0)) for _ in range(n + 1)] for _ in range(3)]
    return dict(n=n, shape=shape, units=units, ys=ys,
                route=draw(st.sampled_from(["hyperplane", "hyperplane", "subspace", "raw",
                                            "moved"] + (["subspace"] * 3 if n == 2 else []))),
                line=draw(st.sampled_from(["subspace", "geodesic", "segment", "boundary_arc"])),
                src=draw(st.sampled_from(["library", "harness_col", "harness_row",
                                          "conjugated"])))


def wall_normal(unit):
    C = harness_iso(unit)
    return unit["s"] * C[:, 1], C


def standard_ideal_points(n):
    """n ideal points spanning e_1^perp: (1, 0, +e_j), j = 1..n-1, and (1, 0, -sum/|sum|)"""
    m = n - 1
    pts = []
    for j in range(m):
        p = np.zeros(n + 1)
        p[0] = 1.0
        p[2 + j] = 1.0
        pts.append(p)
    p = np.zeros(n + 1)
    p[0] = 1.0
    p[2:] = -1.0 / math.sqrt(m)
    pts.append(p)
    return np.array(pts)


def build_wall(case):
    n, shape = case["n"], tuple(case["shape"])
    vs, Cs = [], []
    for u in case["units"]:
        v, C = wall_normal(u)
        vs.append(v)
        Cs.append(C)
    if case["route"] == "hyperplane":
        if shape == ():
            data = vs[0].copy()
            if case.get("line") == "geodesic":
                # the normal handed over as the object the library itself uses for it
                data = hyperbolic.DualPoint(data)
            elif case.get("line") == "segment":
                data = hyperbolic.Hyperplane(data).spacelike_complement()
        else:
            data = np.array(vs).reshape(shape + (1, n + 1)).copy()
        obj = hyperbolic.Hyperplane(data)
    elif case["route"] == "raw":
        # the stored rows of a hyperplane, rescaled unit by unit and handed back to the
        # constructor: the same walls, with stored normals that are not unit vectors
        data = np.array(vs).reshape(shape + (1, n + 1)).copy()
        rows = np.array(hyperbolic.Hyperplane(data[()] if shape else data[0]).proj_data)
        k = np.array([1.0 / u["s"] if abs(u["s"]) < 1 else abs(u["s"]) for u in case["units"]])
        obj = hyperbolic.Hyperplane(rows * k.reshape(shape + (1, 1)))
    elif case["route"] == "moved":
        # the standard wall e_1^perp moved by the isometry C, whose matrix is given up to a
        # scalar (a transformation is a projective map): normal s * C e_1
        e1 = np.zeros((1, n + 1))
        e1[0, 1] = 1.0
        base = hyperbolic.Hyperplane(np.tile(e1, shape + (1, 1)))
        g = Isometry(np.array([u["s"] * C.T for u, C in zip(case["units"], Cs)]).reshape(
            shape + (n + 1, n + 1)))
        obj = g @ base
    else:
        S = standard_ideal_points(n)
        data = np.array([(C @ S.T).T for C in Cs]).reshape(shape + (n, n + 1))
        kind = case.get("line", "subspace") if n == 2 else "subspace"
        if kind == "geodesic":
            obj = hyperbolic.Geodesic(data.copy())
        elif kind == "segment":
            # two interior points of the wall (positive combinations of its ideal points)
            a, b = data[..., 0, :], data[..., 1, :]
            obj = hyperbolic.Segment(np.stack([0.3 * a + 0.7 * b, 0.85 * a + 0.15 * b],
                                              axis=-2))
        elif kind == "boundary_arc":
            flat = data.reshape((-1, 2, 3))
            arcs = [hyperbolic.BoundaryArc(d[i % 2].copy(), d[1 - i % 2].copy())
                    for i, d in enumerate(flat)]
            obj = arcs[0] if shape == () else hyperbolic.BoundaryArc(arcs).reshape(shape)
        else:
            obj = hyperbolic.Subspace(data.copy())
    return obj, vs, Cs


def unit_iter(shape):
    return list(np.ndindex(*shape)) if len(shape) else [()]


def wall_scale(v):
    return float((v @ v) / mink(v, v))


def label_case(ctx, case, specs, extra=()):
    ctx.label("n=%d" % case["n"], "rank=%d" % len(case["shape"]), *extra)
    if any(not is_identity_spec(s) for s in specs):
        ctx.label("C!=identity")


def check_ideal_basis(ctx, basis, v, n, unit, tag):
    """rows lightlike, Minkowski-orthogonal to v, linearly independent"""
    basis = np.asarray(basis, dtype=float)
    sc = wall_scale(v)
    ctx.check(basis.shape == (n, n + 1), tag + ": ideal basis has n rows", got=basis.shape)
    nb = np.sqrt(np.sum(basis * basis, axis=-1))
    ctx.small(tag + ": ideal basis is lightlike", mink(basis, basis) / nb ** 2, 1e-8 * sc,
              unit=unit)
    ctx.small(tag + ": ideal basis orthogonal to the normal",
              mink(basis, v[None, :]) / (nb * math.sqrt(v @ v)), 1e-8 * sc, unit=unit)
    s = np.linalg.svd(basis / nb[:, None], compute_uv=False)
    ctx.check(s[-1] / s[0] > 1e-4 / sc, tag + ": ideal basis spans the hyperplane",
              singular_values=s, unit=unit)


# ---------------------------------------------------------------------------
# law 1
def body_reflection(case, ctx):
    n, shape = case["n"], tuple(case["shape"])
    obj, vs, Cs = build_wall(case)
    ctx.check(obj.shape == shape, "wall composite shape", got=obj.shape, want=shape)
    label_case(ctx, case, case["units"], ["route=" + case["route"]])
    if case["route"] == "subspace" and n == 2:
        ctx.label("line=" + case.get("line", "subspace"))
    if case["route"] == "hyperplane" and shape == () and \
            case.get("line") in ("geodesic", "segment"):
        ctx.label("normal-as-DualPoint-object")
    if case["route"] == "subspace":
        # a wall through the origin of the ball has no Poincare sphere; the Subspace route
        # derives its normal from that sphere
        if any(abs(v[0]) <= 1e-12 * math.sqrt(v @ v) for v in vs):
            ctx.label("wall-through-origin")
    R = obj.reflection_across()
    ctx.check(isinstance(R, Isometry), "reflection_across returns an Isometry",
              got=type(R).__name__)
    ctx.check(R.shape == shape, "reflection composite shape", got=R.shape, want=shape)
    M = np.array(R.matrix)
    ctx.check(M.shape == shape + (n + 1, n + 1), "matrix shape", got=M.shape)
    ctx.check(M.dtype.kind == "f", "floating dtype", got=str(M.dtype))
    ib = np.array(obj.ideal_basis)
    if case["route"] == "subspace":
        sc_all = np.array(obj.spacelike_complement().proj_data)
    Jn = J(n)
    ys = np.array(case["ys"], dtype=float)
    for i, idx in enumerate(unit_iter(shape)):
        v = vs[i]
        sc = wall_scale(v)
        Mc = M[idx].T                 # column convention
        ctx.check(np.all(np.isfinite(Mc)), "finite reflection matrix", unit=i)
        I = np.eye(n + 1)
        ctx.small("R^2 = I", Mc @ Mc - I, 1e-11 * sc * sc, unit=i)
        ctx.small("R preserves the Minkowski form", Mc.T @ Jn @ Mc - Jn, 1e-11 * sc * sc,
                  unit=i)
        ctx.small("det R = -1", np.linalg.det(Mc) + 1.0, 1e-11 * sc * sc, unit=i)
        ctx.small("R v = -v", (Mc @ v + v) / math.sqrt(v @ v), 1e-11 * sc, unit=i)
        ctx.small("R equals I - 2 v (Jv)^T / <v,v>", Mc - refl_col(v), 1e-11 * sc * sc,
                  unit=i)
        # points of the wall: the object's ideal basis and random vectors projected to v^perp
        check_ideal_basis(ctx, ib[idx], v, n, i, case["route"])
        for b in ib[idx]:
            ctx.small("R fixes the ideal basis of the wall",
                      (Mc @ b - b) / math.sqrt(b @ b), 1e-8 * sc, unit=i)
        for y in ys:
            x = y - (mink(y, v) / mink(v, v)) * v
            nx = math.sqrt(x @ x)
            if nx < 1e-6:
                continue
            ctx.small("R fixes a random point of the wall", (Mc @ x - x) / nx, 1e-8 * sc,
                      unit=i)
        if case["route"] == "subspace":
            w = sc_all[idx]
            ctx.small("spacelike_complement is the normal of the wall",
                      proj_dist(w, v), 1e-8 * sc, unit=i)
            ctx.check(mink(w, w) > 0, "spacelike_complement is spacelike", got=mink(w, w))


# ---------------------------------------------------------------------------
# law 2
def build_reflection(case, vs):
    n, shape = case["n"], tuple(case["shape"])
    if case["src"] == "library":
        return build_wall(case)[0].reflection_across()
    if case["src"] == "conjugated":
        # g R0 g^-1 for the reflection R0 across the standard wall and an isometry g whose
        # matrix is given up to a scalar, composed and inverted by the library
        e1 = np.zeros((1, n + 1))
        e1[0, 1] = 1.0
        R0 = hyperbolic.Hyperplane(np.tile(e1, shape + (1, 1))).reflection_across()
        Cs = [wall_normal(u)[1] for u in case["units"]]
        k = np.array([abs(u["s"]) if 0.05 < abs(u["s"]) < 20 else 3.0 for u in case["units"]])
        g = Isometry((k[:, None, None] * np.array([C.T for C in Cs])).reshape(
            shape + (n + 1, n + 1)))
        return g @ R0 @ g.inv()
    cols = np.array([refl_col(v) for v in vs]).reshape(shape + (n + 1, n + 1))
    if case["src"] == "harness_col":
        return Isometry(cols.copy(), column_vectors=True)
    return Isometry(np.swapaxes(cols, -1, -2).copy())


def body_from_reflection(case, ctx):
    n, shape = case["n"], tuple(case["shape"])
    vs = [wall_normal(u)[0] for u in case["units"]]
    R = build_reflection(case, vs)
    label_case(ctx, case, case["units"], ["src=" + case["src"]])
    Mrow = np.array(R.matrix)
    Hp = hyperbolic.Hyperplane.from_reflection(R)
    ctx.check(isinstance(Hp, hyperbolic.Hyperplane), "from_reflection returns a Hyperplane",
              got=type(Hp).__name__)
    ctx.check(Hp.shape == shape, "hyperplane composite shape", got=Hp.shape, want=shape)
    sv = np.array(Hp.spacelike_vector)
    ib = np.array(Hp.ideal_basis)
    R2 = np.array(Hp.reflection_across().matrix)
    geo = None
    if n == 2:
        geo = hyperbolic.Geodesic.from_reflection(R)
        ctx.check(isinstance(geo, hyperbolic.Geodesic), "Geodesic.from_reflection type",
                  got=type(geo).__name__)
        ctx.check(geo.shape == shape, "geodesic composite shape", got=geo.shape, want=shape)
        gd = np.array(geo.endpoints)
        ctx.label("geodesic")
    else:
        try:
            hyperbolic.Geodesic.from_reflection(R)
            ctx.fail("Geodesic.from_reflection must raise GeometryError in dimension != 2",
                     n=n)
        except GeometryError:
            ctx.label("geodesic-refused-dim!=2")
    for i, idx in enumerate(unit_iter(shape)):
        v = vs[i]
        sc = wall_scale(v)
        w = sv[idx]
        ctx.check(w.shape == (n + 1,), "spacelike vector shape", got=w.shape)
        ctx.small("recovered normal is parallel to the wall's normal", proj_dist(w, v),
                  1e-8 * sc * sc, unit=i, got=w, want=v)
        ctx.check(mink(w, w) > 0, "recovered normal is spacelike", got=mink(w, w), unit=i)
        check_ideal_basis(ctx, ib[idx], v, n, i, "from_reflection")
        ctx.small("reflection across the recovered wall is the reflection",
                  R2[idx] - Mrow[idx], 1e-8 * sc ** 3, unit=i)
        if geo is not None:
            e = gd[idx]
            ctx.check(e.shape == (2, 3), "geodesic endpoints shape", got=e.shape)
            ne = np.sqrt(np.sum(e * e, axis=-1))
            ctx.small("geodesic endpoints are lightlike", mink(e, e) / ne ** 2, 1e-8 * sc,
                      unit=i)
            ctx.small("geodesic endpoints orthogonal to the normal",
                      mink(e, v[None, :]) / (ne * math.sqrt(v @ v)), 1e-8 * sc, unit=i)
            ctx.check(proj_dist(e[0], e[1]) > 1e-3 / sc, "geodesic endpoints are distinct",
                      d=proj_dist(e[0], e[1]), unit=i)


# ---------------------------------------------------------------------------
# law 3
NONREFL = ["rotation", "loxodromic", "two_reflections", "rotoreflection", "glide",
           "point_reflection", "half_turn", "identity", "point_reflection_negated",
           "triple_inversion", "triple_inversion"]


@st.composite
def nonrefl_unit(draw, n, kind):
    u = dict(kind=kind, C=draw(iso_spec(n)))
    if kind == "rotation":
        u["angle"] = draw(st.one_of(fl(0.01, 2 * math.pi - 0.01),
                                    st.sampled_from([math.pi, math.pi / 2, 0.01])))
    elif kind in ("loxodromic", "glide"):
        u["l"] = draw(fl(0.05, 4.0)) * draw(st.sampled_from([-1.0, 1.0]))
    elif kind == "two_reflections":
        u["w1"] = draw(wall_unit(n))
        u["w2"] = draw(wall_unit(n))
    elif kind == "rotoreflection":
        u["angle"] = draw(st.one_of(fl(0.01, math.pi), st.sampled_from([math.pi])))
        u["Q"] = draw(gen.orthogonal_matrix(n))
    return u


@st.composite
def nonrefl_case(draw):
    n = draw(st.sampled_from([2, 3, 4]))
    kinds = [k for k in NONREFL if not (k in ("rotoreflection", "triple_inversion") and n < 3)]
    shape = draw(st.sampled_from([[], [], [], [2]]))
    units = [draw(nonrefl_unit(n, draw(st.sampled_from(kinds))))
             for _ in range(gen.prod(shape))]
    mix = None
    if shape == [2] and draw(st.booleans()):
        mix = draw(wall_unit(n))          # first unit replaced by a genuine reflection
    return dict(n=n, shape=shape, units=units, mix=mix)


def nonrefl_matrix(n, u):
    """column matrix of the standard non-reflection, before conjugation"""
    k = u["kind"]
    if k == "rotation":
        return np.array(Isometry.standard_rotation(u["angle"], n).matrix).T
    if k == "loxodromic":
        return np.array(Isometry.standard_loxodromic(n, math.exp(u["l"])).matrix).T
    if k == "two_reflections":
        r1 = hyperbolic.Hyperplane(wall_normal(u["w1"])[0].copy()).reflection_across()
        r2 = hyperbolic.Hyperplane(wall_normal(u["w2"])[0].copy()).reflection_across()
        return np.array((r1 @ r2).matrix).T
    if k == "rotoreflection":
        O = block_from_spec(n, [u["angle"]], [-1.0] + [1.0] * (n - 3), u["Q"])
        return np.array(Isometry.elliptic(n, O).matrix).T
    if k == "glide":
        L = np.array(Isometry.standard_loxodromic(n, math.exp(u["l"])).matrix).T
        S = np.eye(n + 1)
        S[2, 2] = -1.0
        return L @ S
    if k == "point_reflection":
        return np.array(Isometry.elliptic(n, -np.eye(n)).matrix).T
    if k == "half_turn":
        D = np.eye(n)
        D[0, 0] = D[1, 1] = -1.0
        return np.array(Isometry.elliptic(n, D).matrix).T
    if k == "identity":
        return np.eye(n + 1)
    if k == "triple_inversion":
        # an orientation-reversing involution that is not a reflection: three coordinates
        # negated (the inversion in a point of H^3, in a geodesic of H^4)
        D = np.eye(n)
        D[0, 0] = D[1, 1] = D[2, 2] = -1.0
        return np.array(Isometry.elliptic(n, D).matrix).T
    if k == "point_reflection_negated":
        # the same projective map as the point reflection, given by the representative
        # diag(-1, 1, .., 1): an involution with the spectrum of a reflection, whose
        # (-1)-eigenvector is timelike - the inversion in a point of H^n, not in a wall
        D = np.eye(n + 1)
        D[0, 0] = -1.0
        return D
    raise HarnessError(k)


def body_nonreflection(case, ctx):
    n, shape = case["n"], tuple(case["shape"])
    mats = []
    for u in case["units"]:
        C = harness_iso(u["C"])
        T0 = nonrefl_matrix(n, u)
        if u["kind"] == "two_reflections":
            # already in general position; a (-1)-eigenvalue can only appear if the two
            # walls are orthogonal (half turn) - still not a reflection
            pass
        mats.append(C @ T0 @ np.linalg.inv(C))
        ctx.label("kind=" + u["kind"])
    dets = [float(np.linalg.det(m)) for m in mats]
    if case["mix"] is not None:
        mats[0] = refl_col(wall_normal(case["mix"])[0])
        ctx.label("mixed-with-a-reflection")
    if any(d < 0 for d in dets[(1 if case["mix"] is not None else 0):]):
        ctx.label("det=-1")
    label_case(ctx, case, [u["C"] for u in case["units"]])
    data = np.array(mats).reshape(shape + (n + 1, n + 1))
    T = Isometry(data.copy(), column_vectors=True)
    # harness: none of the non-reflections has the spectrum (-1, 1, .., 1)
    for m, u in list(zip(mats, case["units"]))[(1 if case["mix"] is not None else 0):]:
        if u["kind"] == "point_reflection_negated":
            continue
        ev = np.sort_complex(np.linalg.eigvals(m))
        want = np.ones(n + 1)
        want[0] = -1.0
        if np.max(np.abs(ev - want)) < 1e-3:
            raise HarnessError("generated a reflection as a non-reflection")
    for name, fn in (("Hyperplane", hyperbolic.Hyperplane.from_reflection),
                     ("Geodesic", hyperbolic.Geodesic.from_reflection)):
        try:
            got = fn(T)
            raised = False
        except GeometryError:
            got = None
            raised = True
        ctx.check(raised, name + ".from_reflection must reject a non-reflection with "
                  "GeometryError", kinds=[u["kind"] for u in case["units"]],
                  got=None if got is None else got.proj_data)


# ---------------------------------------------------------------------------
# fixed points: generating data
@st.composite
def elliptic_unit(draw, n, fam=None):
    """fam = 'simple': the eigenvalue 1 of the isometry is simple (unique interior fixed
    point); 'repeated': fixed set of positive dimension; None: either"""
    u = dict(C=draw(iso_spec(n)))
    if fam is None:
        fam = draw(st.sampled_from(["simple", "simple", "repeated"]))
    std_ok = (fam == "simple" and n == 2) or (fam == "repeated" and n >= 3)
    if std_ok and draw(st.integers(0, 2)) == 0:
        u["ctor"] = "standard_rotation"
        u["angle"] = draw(st.one_of(fl(0.05, 2 * math.pi - 0.05),
                                    st.sampled_from([math.pi, math.pi / 2,
                                                     2 * math.pi / 3, 4e-4])))
        return u
    u["ctor"] = "elliptic"
    u["cv"] = draw(st.booleans())
    if fam == "simple":
        # no +1 entry: the eigenvalue 1 of diag(1, O) is simple
        k = draw(st.integers(0, n // 2))
        signs = [-1.0] * (n - 2 * k)
    else:
        k = draw(st.integers(0, (n - 1) // 2))
        rest = n - 2 * k
        signs = [1.0] + [draw(st.sampled_from([-1.0, 1.0])) for _ in range(rest - 1)]
    u["angles"] = [draw(st.one_of(fl(0.05, math.pi), st.sampled_from([math.pi, 1.0])))
                   for _ in range(k)]
    u["signs"] = signs
    u["Q"] = draw(gen.orthogonal_matrix(n))
    return u


@st.composite
def elliptic_case(draw):
    n = draw(st.sampled_from([2, 3, 4]))
    shape = draw(st.sampled_from([[], [], [], [2]]))
    fam = draw(st.sampled_from(["simple", "simple", "simple", "repeated"]))
    units = [draw(elliptic_unit(n, fam)) for _ in range(gen.prod(shape))]
    return dict(n=n, shape=shape, units=units,
                via=draw(st.sampled_from(["matrix", "compose", "compose_queried",
                                          "reassigned"])))


@st.composite
def fix_case(draw, unit_strategy, factors=False):
    n = draw(st.sampled_from([2, 3, 4]))
    shape = draw(st.sampled_from([[], [], [], [2]]))
    units = [draw(unit_strategy(n)) for _ in range(gen.prod(shape))]
    d = dict(n=n, shape=shape, units=units,
             via=draw(st.sampled_from(["matrix", "compose", "compose_queried",
                                       "reassigned"])))
    if factors:
        # the matrix of a projective map is given up to a non-zero factor, per unit
        d["mfac"] = [draw(st.sampled_from([1.0, 1.0, -1.0, -2.5, 0.4])) for _ in units]
    return d


def elliptic_T0(n, u):
    """(library Isometry T0, harness block O such that T0 = diag(1, O) up to transpose)"""
    if u["ctor"] == "standard_rotation":
        T0 = Isometry.standard_rotation(u["angle"], n)
        O = np.eye(n)
        O[:2, :2] = plane_rot(u["angle"])
        return T0, O
    O = block_from_spec(n, u["angles"], u["signs"], u["Q"])
    T0 = Isometry.elliptic(n, O.copy(), column_vectors=u["cv"])
    return T0, O


def conjugate(case, T0s, Cs):
    """the isometry (single or composite) C T0 C^-1, built either from the matrices in the
    harness or with the library's own composition"""
    n, shape = case["n"], tuple(case["shape"])
    if case["via"] == "compose" and shape == ():
        Ci = Isometry(Cs[0].copy(), column_vectors=True)
        keep = np.array(T0s[0].matrix, copy=True)
        T = Ci @ T0s[0] @ Ci.inv()
        # the operand is used again: conjugated by a second isometry, it is still itself
        Cj = Isometry(np.linalg.inv(Cs[0]), column_vectors=True)
        Cj @ T0s[0] @ Cj.inv()
        if not np.array_equal(np.array(T0s[0].matrix), keep):
            raise Violation("composing isometries changed the right operand (the isometry "
                            "that was conjugated is no longer what it was)",
                            {"before": keep.tolist(), "after": np.array(T0s[0].matrix).tolist()})
        return T
    if case["via"] in ("compose_queried", "reassigned"):
        # the same product, formed after the operands have been asked for *their* fixed
        # points and axes (what they answered must not travel into the product), or written
        # with set() into an isometry object that has already answered for another matrix
        T0c = T0s[0] if shape == () else Isometry(
            np.array([np.array(T0.matrix) for T0 in T0s]).reshape(shape + (n + 1, n + 1)))
        Cc = Isometry(np.array(Cs).reshape(shape + (n + 1, n + 1)).copy(), column_vectors=True)
        for X in (T0c, Cc):
            for q in ("fixed_point", "fixed_point_pair", "axis"):
                try:
                    getattr(X, q)()
                except Exception:  # noqa  (their answers are decided elsewhere)
                    pass
        T = Cc @ T0c @ Cc.inv()
        if case["via"] == "reassigned":
            Cc.set(np.array(T.matrix).copy())
            return Cc
        return T
    fac = case.get("mfac") or [1.0] * len(T0s)
    mats = [f * (C @ np.array(T0.matrix).T @ np.linalg.inv(C))
            for T0, C, f in zip(T0s, Cs, fac)]
    data = np.array(mats).reshape(shape + (n + 1, n + 1))
    return Isometry(data.copy(), column_vectors=True)


def eig1_multiplicity(O):
    ev = np.linalg.eigvals(blockdiag1(O))
    return int(np.sum(np.abs(ev - 1.0) < 1e-6)), ev


def check_fixed(ctx, Mc, f, tol, tag, unit):
    f = np.asarray(f, dtype=float)
    ctx.check(np.all(np.isfinite(f)) and (f @ f) > 0, tag + ": finite non-zero point", f=f,
              unit=unit)
    ctx.small(tag + ": T f = f projectively", proj_dist(Mc @ f, f), tol, unit=unit, f=f)


def causal(f):
    f = np.asarray(f, dtype=float)
    return float(mink(f, f) / (f @ f))


# ---------------------------------------------------------------------------
# law 4a
def body_fix_elliptic(case, ctx):
    n, shape = case["n"], tuple(case["shape"])
    T0s, Os, Cs = [], [], []
    for u in case["units"]:
        T0, O = elliptic_T0(n, u)
        ctx.check(np.array(T0.matrix).dtype.kind == "f", "constructor gives a floating "
                  "matrix (not dtype=object)", ctor=u["ctor"],
                  dtype=str(np.array(T0.matrix).dtype))
        T0s.append(T0)
        Os.append(O)
        Cs.append(harness_iso(u["C"]))
    label_case(ctx, case, [u["C"] for u in case["units"]], ["via=" + case["via"]])
    mults = [eig1_multiplicity(O)[0] for O in Os]
    for u, m in zip(case["units"], mults):
        ctx.label("ctor=" + u["ctor"], "eig1-mult=%d" % m)
        if m == 1:
            ctx.label("simple-eigenvalue-1:n=%d" % n)
    T = conjugate(case, T0s, Cs)
    ctx.check(T.shape == shape, "isometry composite shape", got=T.shape, want=shape)
    repeated = any(m >= 2 for m in mults)
    if repeated and ctx.known(KNOWN_ELLIPTIC):
        ctx.exclude(KNOWN_ELLIPTIC)
        ctx.label("excluded:repeated-eigenvalue-1")
        return
    fp = T.fixed_point()
    ctx.check(isinstance(fp, hyperbolic.Point), "fixed_point returns a Point",
              got=type(fp).__name__)
    F = np.array(fp.proj_data)
    ctx.check(F.shape == shape + (n + 1,), "fixed point shape", got=F.shape)
    ctx.check(F.dtype.kind == "f", "fixed point is real", dtype=str(F.dtype))
    Mall = np.array(T.matrix)
    for i, idx in enumerate(unit_iter(shape)):
        C = Cs[i]
        kc = cond2(C)
        Mc = Mall[idx].T
        # the matrix really is the conjugate (guards the generating data, not the claim)
        want = C @ blockdiag1(Os[i] if not (case["units"][i]["ctor"] == "elliptic"
                                            and not case["units"][i]["cv"])
                              else Os[i].T) @ np.linalg.inv(C)
        ctx.small("conjugate of the constructor's matrix", Mc - want, 1e-9 * kc * kc, unit=i)
        f = F[idx]
        ev = eig1_multiplicity(Os[i])[1]
        gap = float(np.min(np.abs(ev - 1.0)[np.abs(ev - 1.0) > 1e-6], initial=2.0))
        tol = 1e-9 * kc * kc / gap
        check_fixed(ctx, Mc, f, tol, "elliptic", i)
        ctx.check(causal(f) < -1e-9, "elliptic: the fixed point is interior (timelike)",
                  causal=causal(f), f=f, unit=i, wanted=causal(C[:, 0]))
        if mults[i] == 1:
            ctx.small("elliptic: the fixed point is C(origin)", proj_dist(f, C[:, 0]), tol,
                      unit=i, got=f, want=C[:, 0])
            k = np.array(hyperbolic.Point(f.copy()).coords("klein"))
            ctx.small("elliptic: Klein coordinates of the fixed point", k - C[1:, 0] / C[0, 0],
                      tol * kc, unit=i)


# ---------------------------------------------------------------------------
# law 4b
@st.composite
def lox_unit(draw, n):
    u = dict(C=draw(iso_spec(n)))
    u["l"] = draw(st.one_of(fl(0.05, 4.0), st.sampled_from([0.05, 1.0, 4.0, 4e-4]))) * \
        draw(st.sampled_from([-1.0, 1.0]))
    # the parameter of standard_loxodromic is e^l: for l = log 2, log 3, log 5 it is a whole
    # number, which a caller may well write as an int (or hold in a NumPy integer)
    u["intparam"] = None
    if draw(st.integers(0, 4)) == 0:
        k = draw(st.sampled_from([2, 3, 5]))
        u["l"] = math.log(k)
        u["intparam"] = [k, draw(st.sampled_from(["pyint", "npint"]))]
    u["rot"] = None
    if n >= 3 and draw(st.booleans()):
        m = n - 1
        u["rot"] = dict(angles=[draw(fl(0.05, math.pi)) for _ in range(m // 2)],
                        signs=[draw(st.sampled_from([-1.0, 1.0])) for _ in range(m % 2)],
                        Q=draw(gen.orthogonal_matrix(m)))
    return u


def lox_T0(n, u):
    if u.get("intparam"):
        k, how = u["intparam"]
        T0 = Isometry.standard_loxodromic(n, int(k) if how == "pyint" else np.int64(k))
    else:
        T0 = Isometry.standard_loxodromic(n, math.exp(u["l"]))
    if u["rot"] is not None:
        m = n - 1
        Rb = np.eye(n + 1)
        Rb[2:, 2:] = block_from_spec(m, u["rot"]["angles"], u["rot"]["signs"], u["rot"]["Q"])
        T0 = Isometry(np.array(T0.matrix).T @ Rb, column_vectors=True)
    return T0


def power_iterate(M, x, steps):
    for _ in range(steps):
        x = M @ x
        x = x / math.sqrt(x @ x)
    return x


def body_fix_loxodromic(case, ctx):
    n, shape = case["n"], tuple(case["shape"])
    T0s = [lox_T0(n, u) for u in case["units"]]
    Cs = [harness_iso(u["C"]) for u in case["units"]]
    label_case(ctx, case, [u["C"] for u in case["units"]], ["via=" + case["via"]])
    T = conjugate(case, T0s, Cs)
    if case["via"] == "matrix" and any(f < 0 for f in case.get("mfac") or []):
        ctx.label("matrix-with-negative-factor")
    pair = T.fixed_point_pair()
    ctx.check(isinstance(pair, hyperbolic.PointPair), "fixed_point_pair returns a PointPair",
              got=type(pair).__name__)
    Pd = np.array(pair.proj_data)
    ctx.check(Pd.shape == shape + (2, n + 1), "pair shape", got=Pd.shape)
    F1 = np.array(T.fixed_point().proj_data)
    # the two ends taken apart, and read in the ball model: the attracting ones, then the
    # repelling ones, on the unit sphere (in the closed ball)
    raw_first, raw_second = pair.get_end_pair()
    ctx.close("get_end_pair(): arrays of the first / second ends",
              np.stack([np.asarray(raw_first), np.asarray(raw_second)], axis=-2), Pd, rtol=0,
              atol=0)
    e_first, e_second = pair.get_end_pair(as_points=True)
    ctx.close("get_end_pair(): first ends", np.array(e_first.proj_data), Pd[..., 0, :], rtol=0,
              atol=0)
    ctx.close("get_end_pair(): second ends", np.array(e_second.proj_data), Pd[..., 1, :],
              rtol=0, atol=0)
    for nm_, pt_ in (("attracting", e_first), ("repelling", e_second),
                     ("fixed_point()", T.fixed_point())):
        pc = np.array(pt_.coords("poincare"), dtype=float)
        kc_ = np.array(pt_.coords("klein"), dtype=float)
        ctx.check(pc.shape == shape + (n,) and np.all(np.isfinite(pc)),
                  "Poincare coordinates of the %s point are finite" % nm_, got=pc)
        # (a point within delta of the light cone is within sqrt(delta) of the sphere in the
        # ball model; delta grows like cond^2 / (1 - e^-l) for a short translation length)
        dl_ = max(1e-9 * cond2(C_) ** 2 / (1.0 - math.exp(-abs(u_["l"])))
                  for C_, u_ in zip(Cs, case["units"]))
        ctx.small("the %s point read in the Poincare model is its Klein point (both on the "
                  "unit sphere)" % nm_, pc - kc_, 1e-6 + 3 * math.sqrt(dl_))
    ax = T.axis()
    ctx.check(isinstance(ax, hyperbolic.Geodesic), "axis returns a Geodesic",
              got=type(ax).__name__)
    ctx.check(ax.shape == shape, "axis composite shape", got=ax.shape, want=shape)
    Ad = np.array(ax.endpoints)
    Ak = np.array(ax.endpoint_coords("klein"))
    Mall = np.array(T.matrix)
    for i, idx in enumerate(unit_iter(shape)):
        u = case["units"][i]
        C = Cs[i]
        kc = cond2(C)
        Mc = Mall[idx].T
        ell = abs(u["l"])
        ctx.label("l>0" if u["l"] > 0 else "l<0", "rot" if u["rot"] else "pure")
        sgn = 1.0 if u["l"] > 0 else -1.0
        e_att = np.zeros(n + 1)
        e_att[0], e_att[1] = 1.0, sgn
        e_rep = np.zeros(n + 1)
        e_rep[0], e_rep[1] = 1.0, -sgn
        att, rep = C @ e_att, C @ e_rep
        gap = 1.0 - math.exp(-ell)
        tol = 1e-9 * kc * kc / gap
        p = Pd[idx]
        for j, (name, want) in enumerate((("attracting", att), ("repelling", rep))):
            check_fixed(ctx, Mc, p[j], tol, "loxodromic " + name, i)
            ctx.small("loxodromic: fixed point is lightlike", causal(p[j]), 1e-8 * kc * kc
                      / gap, unit=i, which=name)
            ctx.small("loxodromic: %s point %s" % (name, "first" if j == 0 else "second"),
                      proj_dist(p[j], want), tol, unit=i, got=p[j], want=want)
        ctx.check(proj_dist(p[0], p[1]) > 1e-3 / (kc * kc), "loxodromic: two distinct points",
                  d=proj_dist(p[0], p[1]), unit=i)
        # harness power iteration from a generic interior point
        x0 = np.zeros(n + 1)
        x0[0] = 1.0
        x0[1:] = [0.11 * (k + 1) * (-1) ** k for k in range(n)]
        steps = int(math.ceil(40.0 / (2 * ell))) + 5
        fwd = power_iterate(Mc, x0.copy(), steps)
        bwd = power_iterate(np.linalg.inv(Mc), x0.copy(), steps)
        ctx.small("loxodromic: forward orbit converges to the first point",
                  proj_dist(fwd, p[0]), 1e-7 * kc * kc / gap, unit=i)
        ctx.small("loxodromic: backward orbit converges to the second point",
                  proj_dist(bwd, p[1]), 1e-7 * kc * kc / gap, unit=i)
        ctx.small("fixed_point() is the attracting point", proj_dist(F1[idx], p[0]), 1e-12,
                  unit=i)
        ctx.small("axis() endpoints are the pair, same order",
                  proj_dist(Ad[idx], p), 1e-12, unit=i)
        kl_want = np.array([att[1:] / att[0], rep[1:] / rep[0]])
        ctx.small("axis() Klein endpoints", Ak[idx] - kl_want, tol * kc, unit=i)


# ---------------------------------------------------------------------------
# law 4c
@st.composite
def par_unit(draw, n):
    u = dict(C=draw(iso_spec(n)))
    u["t"] = draw(st.one_of(fl(0.1, 3.0), st.sampled_from([1.0]))) * \
        draw(st.sampled_from([-1.0, 1.0]))
    u["form"] = draw(st.sampled_from(["upper", "lower", "rotated"]))
    u["phi"] = draw(fl(0.0, math.pi))
    u["as_list"] = False
    u["screw"] = draw(fl(0.05, math.pi)) if (n == 4 and draw(st.booleans())) else None
    return u


def par_T0(n, u):
    t = u["t"]
    if u["form"] == "upper":
        A = np.array([[1.0, t], [0.0, 1.0]])
    elif u["form"] == "lower":
        A = np.array([[1.0, 0.0], [t, 1.0]])
    else:
        Rp = plane_rot(u["phi"])
        A = Rp @ np.array([[1.0, t], [0.0, 1.0]]) @ Rp.T
    P = hyperbolic.sl2_iso(A.copy())
    Pc = np.array(P.matrix).T
    if n == 2:
        return P, Pc
    big = np.array(lie.block_include(Pc.copy(), n + 1))
    if u["screw"] is not None:
        Rb = np.eye(n + 1)
        Rb[3:5, 3:5] = plane_rot(u["screw"])
        big = big @ Rb
    return Isometry(big.copy(), column_vectors=True), big


def null_vector(A):
    _, s, vt = np.linalg.svd(A)
    return vt[-1], s


def body_fix_parabolic(case, ctx):
    n, shape = case["n"], tuple(case["shape"])
    T0s, f0s = [], []
    for u in case["units"]:
        T0, big = par_T0(n, u)
        # the fixed lightlike vector of the standard parabolic: kernel of (P - I) on the
        # first three coordinates
        P3 = big[:3, :3]
        f3, s = null_vector(P3 - np.eye(3))
        f0 = np.zeros(n + 1)
        f0[:3] = f3
        if abs(causal(f0)) > 1e-9 or s[-2] < 1e-3:
            raise HarnessError("standard parabolic is not parabolic: %r" % (s,))
        T0s.append(T0)
        f0s.append(f0)
        ctx.label("form=" + u["form"], "screw" if u["screw"] is not None else "plain")
    Cs = [harness_iso(u["C"]) for u in case["units"]]
    label_case(ctx, case, [u["C"] for u in case["units"]], ["via=" + case["via"]])
    T = conjugate(case, T0s, Cs)
    F = np.array(T.fixed_point().proj_data)
    ctx.check(F.shape == shape + (n + 1,), "fixed point shape", got=F.shape)
    ctx.check(F.dtype.kind == "f", "fixed point is real", dtype=str(F.dtype))
    Mall = np.array(T.matrix)
    for i, idx in enumerate(unit_iter(shape)):
        C = Cs[i]
        kc = cond2(C)
        Mc = Mall[idx].T
        f = F[idx]
        tol = 1e-4 * kc
        check_fixed(ctx, Mc, f, tol, "parabolic", i)
        ctx.small("parabolic: the fixed point is lightlike", causal(f), tol, unit=i)
        ctx.small("parabolic: the fixed point is C(fixed point of the standard parabolic)",
                  proj_dist(f, C @ f0s[i]), tol, unit=i, got=f, want=C @ f0s[i])


# ---------------------------------------------------------------------------
# law 4d: the documented non-default option
@st.composite
def unsorted_case(draw):
    n = draw(st.sampled_from([2, 3, 4]))
    kind = draw(st.sampled_from(["elliptic", "loxodromic", "parabolic"]))
    strat = {"elliptic": elliptic_unit, "loxodromic": lox_unit, "parabolic": par_unit}[kind]
    shape = draw(st.sampled_from([[], [], [2]]))
    units = [draw(strat(n)) for _ in range(gen.prod(shape))]
    return dict(n=n, shape=shape, units=units, kind=kind, via="matrix")


def body_unsorted(case, ctx):
    n, shape, kind = case["n"], tuple(case["shape"]), case["kind"]
    label_case(ctx, case, [u["C"] for u in case["units"]], ["kind=" + kind])
    Cs = [harness_iso(u["C"]) for u in case["units"]]
    if kind == "elliptic":
        pairs = [elliptic_T0(n, u) for u in case["units"]]
        T0s = [p[0] for p in pairs]
        if any(eig1_multiplicity(p[1])[0] >= 2 for p in pairs) and ctx.known(KNOWN_ELLIPTIC):
            ctx.exclude(KNOWN_ELLIPTIC)
            return
    elif kind == "loxodromic":
        T0s = [lox_T0(n, u) for u in case["units"]]
    else:
        T0s = [par_T0(n, u)[0] for u in case["units"]]
    # family of the open finding: complex eigenvectors exist (a non-real eigenvalue) or may
    # be produced by LAPACK (a repeated eigenvalue of a diagonalisable isometry); decided
    # from the harness' eigenvalues of the standard isometry
    for T0 in T0s:
        ev = np.linalg.eigvals(np.array(T0.matrix, dtype=float))
        nonreal = bool(np.any(np.abs(ev.imag) > 1e-9))
        srt = np.sort(ev.real)
        repeated = bool(np.any(np.diff(srt) < 1e-6)) and kind != "parabolic"
        if nonreal or repeated:
            ctx.label("complex-eigenvectors-possible")
    T = conjugate(case, T0s, Cs)
    Mall = np.array(T.matrix)
    F = np.array(T.fixed_point(max_eigval=False).proj_data)
    ctx.check(F.shape == shape + (n + 1,), "fixed point shape", got=F.shape)
    P = None
    if kind == "loxodromic":
        P = np.array(T.fixed_point_pair(sort_eigvals=False).proj_data)
        ctx.check(P.shape == shape + (2, n + 1), "pair shape", got=P.shape)
    for i, idx in enumerate(unit_iter(shape)):
        kc = cond2(Cs[i])
        Mc = Mall[idx].T
        tol = (1e-4 if kind == "parabolic" else 1e-7) * kc * kc
        check_fixed(ctx, Mc, F[idx], tol, "fixed_point(max_eigval=False)", i)
        ctx.check(causal(F[idx]) <= tol, "fixed_point(max_eigval=False) in the closed ball",
                  causal=causal(F[idx]), unit=i)
        if P is not None:
            for j in range(2):
                check_fixed(ctx, Mc, P[idx][j], tol, "fixed_point_pair(sort_eigvals=False)", i)
                ctx.check(causal(P[idx][j]) <= tol, "pair point in the closed ball",
                          causal=causal(P[idx][j]), unit=i)


# ---------------------------------------------------------------------------
# law 5: Coxeter reflections
RANK4 = [  # linear diagrams [p, q, r] of hyperbolic simplex groups (signature (3,1))
    (3, 5, 3), (5, 3, 4), (5, 3, 5), (3, 3, 6), (3, 4, 4), (3, 6, 3), (4, 3, 6), (5, 3, 6),
]


@st.composite
def coxeter_case(draw):
    if draw(st.integers(0, 2)) == 0:
        return dict(kind="rank4", diagram=list(draw(st.sampled_from(RANK4))),
                    perm=list(draw(st.permutations([0, 1, 2, 3]))))
    p = draw(st.integers(2, 6))
    q = draw(st.integers(max(p, 3), 8))
    r = q
    while 1.0 / p + 1.0 / q + 1.0 / r >= 1.0 - 1e-12:
        r += 1
    r = r + draw(st.integers(0, 6))
    if draw(st.integers(0, 5)) == 0:
        r = 0                                  # infinite order
    perm = draw(st.permutations([p, q, r]))
    return dict(kind="triangle", params=list(perm))


def coxeter_matrix(case):
    if case["kind"] == "triangle":
        a, b, c = case["params"]      # orders of ab, bc, ca
        m = [[1, a, c], [a, 1, b], [c, b, 1]]
    else:
        p, q, r = case["diagram"]
        m0 = [[1, p, 2, 2], [p, 1, q, 2], [2, q, 1, r], [2, 2, r, 1]]
        pm = case.get("perm", [0, 1, 2, 3])      # generators listed in another order
        m = [[m0[pm[i]][pm[j]] for j in range(4)] for i in range(4)]
    return m


def body_coxeter(case, ctx):
    m = coxeter_matrix(case)
    k = len(m)
    n = k - 1
    cosm = np.array([[1.0 if i == j else (-1.0 if m[i][j] <= 0 else
                                          -math.cos(math.pi / m[i][j]))
                      for j in range(k)] for i in range(k)])
    ev = np.linalg.eigvalsh(cosm)
    if not (ev[0] < -1e-9 and ev[1] > 1e-9):
        raise HarnessError("cosine form is not of signature (n,1): %r" % (ev,))
    if case["kind"] == "triangle":
        grp = coxeter.TriangleGroup(tuple(case["params"]))
        names = ["a", "b", "c"]
    else:
        grp = coxeter.CoxeterGroup(matrix=np.array(m))
        names = ["a", "b", "c", "d"]
    rep = grp.hyperbolic_rep()
    ctx.label("kind=" + case["kind"], "n=%d" % n, "C!=identity")
    if any(x <= 0 for row in m for x in row):
        ctx.label("infinite-order")
    Jn = J(n)
    normals = []
    for g in names:
        iso = rep[g]
        ctx.check(isinstance(iso, Isometry), "generator is an Isometry", got=type(iso).__name__)
        M = np.array(iso.matrix)
        ctx.check(M.dtype.kind == "f", "generator matrix is floating", dtype=str(M.dtype))
        Mc = M.T
        sc = float(np.linalg.norm(Mc, 2)) ** 2
        ctx.small("generator preserves the Minkowski form", Mc.T @ Jn @ Mc - Jn, 1e-8 * sc,
                  gen=g)
        Hp = hyperbolic.Hyperplane.from_reflection(iso)       # must not raise
        ctx.check(Hp.shape == (), "wall of a single generator is a single hyperplane",
                  got=Hp.shape)
        w = np.array(Hp.spacelike_vector)
        ctx.check(mink(w, w) > 0, "wall normal is spacelike", got=mink(w, w), gen=g)
        ctx.small("generator negates the wall normal", (Mc @ w + w) / math.sqrt(w @ w),
                  1e-8 * sc, gen=g)
        ib = np.array(Hp.ideal_basis)
        v = w
        nb = np.sqrt(np.sum(ib * ib, axis=-1))
        ctx.small("wall ideal basis is lightlike", mink(ib, ib) / nb ** 2,
                  1e-8 * wall_scale(v), gen=g)
        ctx.small("wall ideal basis orthogonal to the normal",
                  mink(ib, v[None, :]) / (nb * math.sqrt(v @ v)), 1e-8 * wall_scale(v), gen=g)
        for b in ib:
            ctx.small("generator fixes the ideal basis of its wall",
                      (Mc @ b - b) / math.sqrt(b @ b), 1e-8 * sc * wall_scale(v), gen=g)
        R2 = np.array(Hp.reflection_across().matrix)
        ctx.small("reflection across the recovered wall is the generator", R2 - M,
                  1e-8 * sc * wall_scale(v) ** 2, gen=g)
        ctx.small("generator equals I - 2 w (Jw)^T/<w,w>", Mc - refl_col(w),
                  1e-8 * sc * wall_scale(v) ** 2, gen=g)
        if n == 2:
            geo = hyperbolic.Geodesic.from_reflection(iso)
            e = np.array(geo.endpoints)
            ne = np.sqrt(np.sum(e * e, axis=-1))
            ctx.small("Geodesic.from_reflection endpoints lightlike", mink(e, e) / ne ** 2,
                      1e-8 * wall_scale(v), gen=g)
            for b in e:
                ctx.small("generator fixes the endpoints of its geodesic",
                          (Mc @ b - b) / math.sqrt(b @ b), 1e-8 * sc * wall_scale(v), gen=g)
        normals.append(w / math.sqrt(mink(w, w)))
    # walls meet at pi/m (parallel for m = infinity)
    for i in range(k):
        for j in range(i + 1, k):
            c = abs(float(mink(normals[i], normals[j])))
            want = 1.0 if m[i][j] <= 0 else math.cos(math.pi / m[i][j])
            ctx.small("walls of generators %s,%s meet at pi/m" % (names[i], names[j]),
                      c - want, 1e-7 * (normals[i] @ normals[i]) * (normals[j] @ normals[j]))


# ---------------------------------------------------------------------------
def exhaustive_empty(tier):
    return [("empty composites of isometries (a selection that selected nothing), n = 2..4",
             [dict(n=n, shape=sh) for n in (2, 3, 4) for sh in ([0], [0, 2], [2, 0])])]


def body_empty(case, ctx):
    """an empty composite isometry has an empty composite of fixed points / axes"""
    n, shape = case["n"], tuple(case["shape"])
    E = Isometry(np.zeros(shape + (n + 1, n + 1)))
    ctx.label("n=%d" % n, "rank=%d" % len(shape), "C!=identity")
    ctx.check(tuple(E.shape) == shape, "shape of the empty composite", got=E.shape)
    for q in ("fixed_point", "fixed_point_pair", "axis", "inv"):
        r = getattr(E, q)()
        ctx.check(tuple(r.shape) == shape, "%s() of an empty composite is an empty composite "
                  "of the same shape" % q, got=tuple(r.shape), want=shape)


def nt_conj(labels):
    return "C!=identity" in labels and not any(l.startswith("excluded:") for l in labels)


def nt_reject(labels):
    return "det=-1" in labels


LAWS = [
    Law("reflection_laws", walls_case(), body_reflection, nt_conj, quick=300, thorough=2800,
        shards=(2, 6)),
    Law("from_reflection_roundtrip", walls_case(), body_from_reflection, nt_conj, quick=300,
        thorough=2800, shards=(2, 6)),
    Law("non_reflection_rejected", nonrefl_case(), body_nonreflection, nt_reject, quick=300,
        thorough=2800, shards=(1, 4)),
    Law("fixed_points_elliptic", elliptic_case(), body_fix_elliptic, nt_conj,
        quick=400, thorough=4000, shards=(2, 8)),
    Law("fixed_points_loxodromic", fix_case(lox_unit, factors=True), body_fix_loxodromic,
        nt_conj,
        quick=300, thorough=2800, shards=(2, 6)),
    Law("fixed_points_parabolic", fix_case(par_unit), body_fix_parabolic, nt_conj,
        quick=400, thorough=2800, shards=(1, 4)),
    Law("fixed_points_unsorted_option", unsorted_case(), body_unsorted, nt_conj, quick=300,
        thorough=2000, shards=(1, 4)),
    Law("empty_composites", None, body_empty, lambda l: True, exhaustive=exhaustive_empty),
    Law("coxeter_reflections", coxeter_case(), body_coxeter, lambda l: True, quick=60,
        thorough=800, shards=(1, 2)),
]
