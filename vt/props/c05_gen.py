"""Strategies and case decoding shared by the laws of C05 (and reused by C17)."""
import math
import numpy as np
from hypothesis import strategies as st

from .. import gen
from ..gen import fl
from ..oracles import rep as O

LOWER = "abcdefghijklmnopqrstuvwxyz"


# ---------------------------------------------------------------------------
# matrices
def _as_kind(M, kind):
    """nested python lists for JSON"""
    if kind == "complex":
        return [[[float(np.real(z)), float(np.imag(z))] for z in row] for row in M]
    if kind == "int":
        return [[int(x) for x in row] for row in M]
    return [[float(x) for x in row] for row in M]


@st.composite
def matrix(draw, n, kind, mf=2.0):
    """invertible n x n matrix of the given kind (real / complex / int) as JSON"""
    if kind == "int":
        return draw(gen.unimodular_int_matrix(n, steps=5, maxabs=2))
    s = draw(st.integers(0, 11))
    if s == 0:
        which = draw(st.sampled_from(["id", "negid", "perm", "diag", "rot90", "rot90"]))
        if which == "rot90":
            # a quarter turn in a coordinate plane: zero diagonal entries there (polynomial
            # maps such as sl2_irrep see 0**k terms)
            M = np.eye(n)
            if n >= 2:
                i = draw(st.integers(0, n - 2))
                M[i, i] = M[i + 1, i + 1] = 0.0
                M[i, i + 1], M[i + 1, i] = -1.0, 1.0
            return _as_kind(M, kind)
        if which == "id":
            M = np.eye(n)
        elif which == "negid":
            M = -np.eye(n)
        elif which == "perm":
            p = draw(st.permutations(list(range(n))))
            M = np.eye(n)[list(p)]
        else:
            M = np.diag([draw(st.sampled_from([-2.0, -1.0, -0.5, 0.5, 1.0, 2.0, 3.0]))
                         for _ in range(n)])
        return _as_kind(M, kind)
    return draw(gen.wellcond_matrix(n, complex_=(kind == "complex"), maxfactor=mf))


def decode(m, kind, intdtype=False):
    if kind == "complex":
        return gen.cmat(m).astype(complex)
    if kind == "int" and intdtype:
        return np.array(m, dtype=np.int64)
    return np.array(m, dtype=float)


@st.composite
def names_single(draw, k):
    if draw(st.integers(0, 3)) > 0:
        return list("abcd"[:k])
    return draw(st.lists(st.sampled_from(list(LOWER)), min_size=k, max_size=k, unique=True))


@st.composite
def rep_case(draw, max_dim=5, max_gens=4, min_gens=1, min_dim=1, kinds=("real", "complex", "int"),
             mf=2.0, intdtype=True):
    n = draw(st.integers(min_dim, max_dim))
    k = draw(st.integers(min_gens, max_gens))
    kind = draw(st.sampled_from(list(kinds)))
    mats = [draw(matrix(n, kind, mf)) for _ in range(k)]
    names = draw(names_single(k))
    idt = bool(kind == "int" and intdtype and draw(st.integers(0, 2)) == 0)
    c = dict(n=n, kind=kind, names=names, mats=mats, intdtype=idt)
    if kind == "complex" and k >= 2 and draw(st.booleans()):
        # a complex representation with some REAL generators (float64 arrays), the one
        # assigned last included: rep.dtype is only the dtype of the last assignment
        real = [False] + [draw(st.booleans()) for _ in range(k - 2)] + [True]
        for i, r in enumerate(real):
            if r:
                mats[i] = [[[float(x), 0.0] for x in row] for row in draw(matrix(n, "real", mf))]
        c["realgens"] = real
    if kind == "real" and k >= 2 and draw(st.integers(0, 2)) == 0:
        # float generators followed by an INTEGER-typed one (int64 array, unimodular):
        # rep.dtype then says int64 although the images are not integral
        mats[-1] = [[float(x) for x in row] for row in draw(gen.unimodular_int_matrix(n, 4, 2))]
        c["intlast"] = True
    if kind in ("real", "complex") and draw(st.integers(0, 7)) == 0:
        c["gscale"] = draw(st.sampled_from([1e-5, 3e-4, 2e3]))
    return c


def letters_of(names):
    return list(names) + [O.swap(x) for x in names]


@st.composite
def word(draw, names, max_len=30, min_len=0):
    """a word (list of letters) over the generators and their inverses"""
    alphabet = letters_of(names)
    letter = st.sampled_from(alphabet)
    kind = draw(st.integers(0, 7))
    if kind <= 1:
        hi = min(max_len, 4)
    elif kind <= 4:
        hi = min(max_len, 12)
    else:
        hi = max_len
    lo = min(min_len, hi)
    if kind == 7 and max_len >= 4:
        # structured: u v u^-1, or a power, or a commutator
        u = draw(st.lists(letter, min_size=1, max_size=max(1, max_len // 4)))
        v = draw(st.lists(letter, min_size=1, max_size=max(1, max_len // 4)))
        shape = draw(st.integers(0, 2))
        if shape == 0:
            w = u + v + O.inverse_word(u)
        elif shape == 1:
            w = (u * 6)[:max_len]
        else:
            w = u + v + O.inverse_word(u) + O.inverse_word(v)
        return w[:max_len]
    return draw(st.lists(letter, min_size=lo, max_size=hi))


@st.composite
def reduced_word(draw, names, max_len):
    alphabet = letters_of(names)
    L = draw(st.integers(0, max_len))
    w = []
    for _ in range(L):
        choices = [x for x in alphabet if not w or x != O.swap(w[-1])]
        w.append(draw(st.sampled_from(choices)))
    return w


# ---------------------------------------------------------------------------
# building the library object and the reference model from a case
def build(case, cls=None, names=None, **kw):
    """(library representation, reference Letters, list of assigned numpy matrices)"""
    from geometry_tools.representation import Representation
    cls = cls or Representation
    rep = cls(**kw)
    L = O.Letters()
    mats = []
    for name, m in zip(names or case["names"], case["mats"]):
        M = decode(m, case["kind"], case.get("intdtype", False))
        if case.get("realgens") and case["realgens"][len(mats)]:
            M = np.real(M).astype(float)
        if case.get("intlast") and len(mats) == len(case["mats"]) - 1:
            M = np.rint(M).astype(np.int64)
        if case.get("gscale") and M.dtype.kind != "i":
            # generators far from the unit scale (determinants 1e-15 or 1e10): as good a
            # representation into GL(n) as any
            M = M * case["gscale"]
        rep[name] = M.copy()
        L.assign(name, M)
        mats.append(M)
    return rep, L, mats


def base_labels(ctx, case):
    ctx.label("kind=" + case["kind"], "n=%d" % case["n"], "gens=%d" % len(case["names"]))
    if case.get("intdtype"):
        ctx.label("int64-dtype")
    if case.get("gscale"):
        ctx.label("generators-far-from-unit-scale")


def word_labels(ctx, w, L):
    """labels for the non-trivial rule: length >= 3, >= 2 generators, an inverse letter,
    non-commuting images"""
    gens_used = set(x.lower() for x in w)
    if len(w) >= 3:
        ctx.label("len>=3")
    if len(w) >= 13:
        ctx.label("len>=13")
    if len(w) == 0:
        ctx.label("empty-word")
    if len(gens_used) >= 2:
        ctx.label("two-gens")
        g = sorted(gens_used)
        A, B = L.mat[g[0]], L.mat[g[1]]
        if np.max(np.abs(A @ B - B @ A)) > 1e-6 * max(1.0, np.max(np.abs(A @ B))):
            ctx.label("noncommuting")
    if any(x != x.lower() for x in w):
        ctx.label("has-inverse")
    if not O.is_reduced(w):
        ctx.label("not-reduced")


def nontrivial(labels):
    return {"len>=3", "two-gens", "has-inverse", "noncommuting"} <= set(labels)


def wstr(w):
    return "".join(w)


class Guard:
    """snapshot of a parent representation; `check` asserts nothing changed"""

    def __init__(self, rep):
        self.keys = list(rep.generators)
        self.mats = {k: np.array(v, copy=True) for k, v in rep.generators.items()}
        self.ids = {k: id(v) for k, v in rep.generators.items()}
        self.dim = rep.dim
        self.dtype = np.dtype(rep.dtype)
        self.relations = list(rep.relations)
        self.parse_simple = rep.parse_simple

    def check(self, ctx, rep, what):
        ctx.check(list(rep.generators) == self.keys, "parent generator names changed by " + what,
                  got=list(rep.generators), want=self.keys)
        for k in self.keys:
            v = rep.generators[k]
            ctx.check(v.dtype == self.mats[k].dtype and v.shape == self.mats[k].shape and
                      np.array_equal(v, self.mats[k]),
                      "parent matrix of %r changed by %s" % (k, what), got=v, want=self.mats[k])
        ctx.check(rep.dim == self.dim, "parent dim changed by " + what)
        ctx.check(np.dtype(rep.dtype) == self.dtype, "parent dtype changed by " + what,
                  got=str(rep.dtype), want=str(self.dtype))
        ctx.check(list(rep.relations) == self.relations, "parent relations changed by " + what)
        ctx.check(rep.parse_simple == self.parse_simple, "parent parse_simple changed by " + what)
