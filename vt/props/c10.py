"""C10 - automaton operations transform the accepted language as documented.

The reference is the set model of vt/oracles/fsa_model.py (vertex list + set of
(tail, head, label) triples): acceptance by following triples, enumeration by
listing label tuples, the recurrent core through cycle reachability, shortest
paths through relaxation, the k-multiple through lists of length-k label tuples.
Every library automaton is built from the model through a *route* (dictionary,
alternative dictionary, incremental add_vertices/add_edges, deepcopy, or as the
output of another operation) because acceptance used to depend on the route.
"""
import copy
import itertools
from hypothesis import strategies as st

from ..core import Law, HarnessError
from ..oracles import fsa_model as M
from ..oracles.fsa_model import GraphModel, check_views, check_pair_queries, snapshot, vkey

from geometry_tools.automata import fsa as fsa_mod
from geometry_tools.automata.fsa import FSA, FSAException

FOREIGN = "z"
ROUTES = ["dict", "alt", "alt_hidden", "incr", "incr_elist", "copy", "dict_hidden"]

RULE = ("cases: a deterministic automaton (1-10 states, 1-3 single-letter labels, edge density "
        "0.25-1, one start state; states without outgoing edges optionally left out of the "
        "dictionary as hidden vertices) built through a route (label dict / target->labels dict "
        "/ add_vertices+add_edges / elist adds / deepcopy); words = all words up to length 3 "
        "over the labels plus one absent label, plus drawn words up to length 9, as strings "
        "and as lists; every vertex as start / root; k in 1..4; rename maps = injective maps "
        "into single letters or two-letter names; derived automata = outputs of "
        "automaton_multiple, even_automaton, remove_long_paths (both edge_ties), recurrent, "
        "rename_generators, delete_vertex, also chained, queried with present, absent and "
        "wrong-length labels and then operated on again.  Exhaustive: every deterministic "
        "automaton with <= 2 states over <= 2 labels, every start (quick); <= 3 states x 2 "
        "labels and 2 states x 3 labels (thorough), through all operations.  non-trivial = "
        "the automaton has a cycle and a dead end (vertex lacking an in- or out-edge) and, "
        "for an operation law, the operation changes the graph; distinct = distinct JSON case.")

ASSUMPTIONS = [
    "automata are deterministic and have exactly one start state (the class documents that "
    "several start states are not handled)",
    "labels are non-empty strings; enumeration is compared as concatenated strings, which is "
    "injective because all labels of one automaton have the same length",
    "initial_rejected_subword is only asserted on rejected words (docstring and code disagree "
    "on accepted ones)",
    "remove_long_paths returns an automaton without start states and recurrent may prune the "
    "start state: queries on such results pass start_vertex explicitly",
    "remove_long_paths(edge_ties=False): any shortest-path tree is accepted",
    "rename maps are injective on the labels present",
]

CLAIM = dict(
    text="accepts / follow_word / initial_accepted_subword / initial_rejected_subword / "
         "enumerate_fixed_length_paths / enumerate_words agree with a set model of the "
         "language on every automaton and start state explored, for every construction "
         "route and on the outputs of every operation; automaton_multiple(k) and "
         "even_automaton accept exactly the accepted words of length divisible by k; "
         "rename_generators maps the language letterwise; recurrent() is the greatest "
         "sub-automaton without dead ends; remove_long_paths keeps exactly the shortest-path "
         "edges (or a shortest-path tree); non-in-place operations and all queries leave the "
         "three views unchanged.",
    note="exhaustive over all deterministic automata with <= 2 states / 2 labels (quick) and "
         "<= 3 states / 2 labels, 2 states / 3 labels (thorough); random automata up to 10 "
         "states; all words up to length 3-4 plus drawn longer words",
    technique="property-based testing against a reference language model, metamorphic "
              "re-querying of derived automata, bounded-exhaustive enumeration of small automata",
)


# ---------------------------------------------------------------------------
# building
def build(m, route):
    """library automaton with the vertex/edge set of model m, through `route`"""
    start = list(m.start)
    if route == "dict":
        # vertices without outgoing edges that are somebody's target may stay hidden
        return FSA(m.graph_dict(), start_vertices=start)
    if route == "dict_hidden":
        d = {v: nb for v, nb in m.graph_dict().items()
             if nb or not m.nbrs_in(v)}
        return FSA(d, start_vertices=start)
    if route == "alt":
        return FSA(M.model_to_alt_dict(m), start_vertices=start, graph_dict=False)
    if route == "alt_hidden":
        # the target -> labels format with dead ends that are somebody's target left out
        d = {v: nb for v, nb in M.model_to_alt_dict(m).items() if nb or not m.nbrs_in(v)}
        return FSA(d, start_vertices=start, graph_dict=False)
    if route == "incr":
        A = FSA(start_vertices=start)
        A.add_vertices(list(m.verts))
        for e in m.sorted_edges():
            A.add_edges([e])
        return A
    if route == "incr_elist":
        A = FSA({}, start_vertices=start)
        A.add_vertices(list(m.verts))
        pairs = sorted({(t, h) for (t, h, _) in m.edges}, key=repr)
        A.add_edges([(t, h, m.labels_between(t, h)) for (t, h) in pairs], elist=True)
        return A
    if route == "copy":
        return copy.deepcopy(FSA(m.graph_dict(), start_vertices=start))
    raise HarnessError("unknown route %r" % (route,))


def model_of(case):
    m = GraphModel.from_pairs(case["graph"], start=[case["start"]])
    if not m.is_deterministic():
        raise HarnessError("non-deterministic case")
    if case["start"] not in m.verts:
        raise HarnessError("start vertex not in the automaton")
    return m


def classify(m, ctx):
    if m.has_cycle():
        ctx.label("has-cycle")
    if m.dead_ends():
        ctx.label("has-dead-end")
    ctx.label("n=%d" % len(m.verts) if len(m.verts) < 5 else "n>=5",
              "labels=%d" % len(m.labels()))


def nt_basic(labels):
    return "has-cycle" in labels and "has-dead-end" in labels


def nt_op(labels):
    return nt_basic(labels) and "op-changes" in labels


def words_upto(alphabet, L):
    out = []
    for n in range(L + 1):
        out.extend(list(w) for w in itertools.product(alphabet, repeat=n))
    return out


def as_arg(word, as_string):
    if as_string and all(isinstance(l, str) and len(l) == 1 for l in word):
        return "".join(word)
    return list(word)


def edit_derived(F, make, ctx, what):
    """a second automaton derived from F the same way and then taken apart in place (its root
    deleted along with another state, a state and an edge added): F is none the wiser"""
    before = snapshot(F)
    D = make()
    vs = list(D.vertices())
    roots = [v for v in D.start_vertices if v in vs]      # (pruning can remove the root)
    D.delete_vertices(list(dict.fromkeys(roots + vs[:1])))
    D.add_vertices(["fresh-state"])
    D.add_edges([("fresh-state", "fresh-state", "a")])
    unchanged(F, before, ctx, what + ", then the result edited in place")


def unchanged(F, before, ctx, what):
    after = snapshot(F)
    if after != before:
        ctx.fail("the call changed a view of the automaton it must not modify", call=what,
                 before=repr(before)[:600], after=repr(after)[:600])
    ctx.units += 1


# ---------------------------------------------------------------------------
# the query battery (used on directly built and on derived automata)
def walk_queries(F, m, words, starts, ctx, as_string=False, default_start=True, tag=""):
    before = snapshot(F)
    for v in starts:
        for w in words:
            end, n = m.follow(w, v)
            arg = as_arg(w, as_string)
            got = F.accepts(arg, start_vertex=v)
            ctx.check(got is (end is not None), "accepts differs from the language model" + tag,
                      word=arg, start=v, got=repr(got), want=end is not None)
            try:
                res = ("end", F.follow_word(arg, start_vertex=v))
            except FSAException:
                res = ("rejected", None)
            want = ("end", end) if end is not None else ("rejected", None)
            ctx.check(res == want, "follow_word differs from the language model" + tag,
                      word=arg, start=v, got=repr(res), want=repr(want))
            ctx.label("accepted-word" if end is not None else "rejected-word")
    if default_start and len(m.start) == 1 and m.start[0] in m.verts:
        s = m.start[0]
        for w in words:
            end, n = m.follow(w, s)
            arg = as_arg(w, as_string)
            ctx.check(F.accepts(arg) is (end is not None),
                      "accepts (default start) differs from the language model" + tag, word=arg)
            try:
                res = ("end", F.follow_word(arg))
            except FSAException:
                res = ("rejected", None)
            ctx.check(res == (("end", end) if end is not None else ("rejected", None)),
                      "follow_word (default start) differs from the language model" + tag,
                      word=arg, got=repr(res))
            pre = F.initial_accepted_subword(arg)
            ctx.check(pre == "".join(w[:n]), "initial_accepted_subword is not the longest "
                      "accepted prefix" + tag, word=arg, got=pre, want="".join(w[:n]))
            if end is None:
                rej = F.initial_rejected_subword(arg)
                ctx.check(rej == "".join(w[:n + 1]), "initial_rejected_subword is not the "
                          "shortest rejected prefix" + tag, word=arg, got=rej,
                          want="".join(w[:n + 1]))
    unchanged(F, before, ctx, "accepts / follow_word / initial_*_subword" + tag)


def enumeration(F, m, starts, L, ctx, default_start=True, tag="", cap=3000):
    before = snapshot(F)
    import collections
    nl = max(1, len(m.labels()))
    while L > 0 and nl ** L > cap:
        L -= 1
    for v in list(starts) + ([None] if default_start and len(m.start) == 1
                             and m.start[0] in m.verts else []):
        src = m.start[0] if v is None else v
        kw = {} if v is None else {"start_vertex": v}
        allw = []
        for n in range(L + 1):
            want = [("".join(w), e) for (w, e) in m.paths(src, n)]
            allw.extend(want)
            got = list(F.enumerate_fixed_length_paths(n, with_states=True, **kw))
            ctx.check(collections.Counter(got) == collections.Counter(want),
                      "enumerate_fixed_length_paths(with_states) differs from the model" + tag,
                      start=src, length=n, got=sorted(got, key=repr)[:10],
                      want=sorted(want, key=repr)[:10])
            got = list(F.enumerate_fixed_length_paths(n, **kw))
            ctx.check(collections.Counter(got) == collections.Counter(w for (w, _) in want),
                      "enumerate_fixed_length_paths differs from the model (each accepted word "
                      "exactly once)" + tag, start=src, length=n, got=sorted(got)[:10])
        got = list(F.enumerate_words(L, with_states=True, **kw))
        ctx.check(collections.Counter(got) == collections.Counter(allw),
                  "enumerate_words(with_states) differs from the model" + tag, start=src, L=L,
                  got=sorted(got, key=repr)[:10], want=sorted(allw, key=repr)[:10])
        got = list(F.enumerate_words(L, **kw))
        ctx.check(collections.Counter(got) == collections.Counter(w for (w, _) in allw),
                  "enumerate_words differs from the model (each accepted word exactly once)"
                  + tag, start=src, L=L, got=sorted(got)[:10])
    unchanged(F, before, ctx, "enumerate_*" + tag)


# ---------------------------------------------------------------------------
# operations
def op_multiple(F, m, k, ctx, even=False, lang_len=None):
    """returns (result, predicted model)"""
    import collections
    before = snapshot(F)
    R = F.even_automaton() if even else F.automaton_multiple(k)
    unchanged(F, before, ctx, "automaton_multiple(%d)" % k)
    edit_derived(F, (lambda: F.even_automaton()) if even else (lambda: F.automaton_multiple(k)),
                 ctx, "automaton_multiple(%d)" % k)
    rm = m.multiple(k)
    ctx.check(isinstance(R, FSA), "automaton_multiple returns an FSA", got=repr(R))
    check_views(R, rm, ctx, where="automaton_multiple(%d)" % k)
    # the documented statement, read off the result's own label view: L(R) = {w in L(A): k | |w|}
    s = m.start[0]
    nl = max(1, len(m.labels()))
    N = lang_len if lang_len is not None else 2
    while N > 0 and nl ** (N * k) > 4000:
        N -= 1
    want = collections.Counter("".join(w) for j in range(N + 1) for (w, _) in m.paths(s, j * k))
    rview = GraphModel(verts=list(R.graph_dict.keys()),
                       edges=[(t, h, l) for t, nb in R.graph_dict.items() for l, h in nb.items()],
                       start=[s])
    got = collections.Counter("".join(w) for j in range(N + 1) for (w, _) in rview.paths(s, j))
    ctx.check(got == want, "language of the %d-multiple automaton is not {w accepted : %d "
              "divides |w|} (or a word is listed twice)" % (k, k), k=k,
              extra=sorted((got - want).elements())[:8],
              missing=sorted((want - got).elements())[:8])
    got2 = collections.Counter(R.enumerate_words(N))
    ctx.check(got2 == want, "enumerate_words on the %d-multiple automaton" % k, k=k,
              extra=sorted((got2 - want).elements())[:8],
              missing=sorted((want - got2).elements())[:8])
    if rm.edges != m.edges or set(rm.verts) != set(m.verts):
        ctx.label("op-changes")
    return R, rm


def op_rename(F, m, mp, inplace, ctx):
    rm = m.renamed(mp)
    if inplace:
        r = F.rename_generators(dict(mp), inplace=True)
        ctx.check(r is None, "rename_generators(inplace=True) returns None", got=repr(r))
        R = F
    else:
        before = snapshot(F)
        R = F.rename_generators(dict(mp), inplace=False)
        unchanged(F, before, ctx, "rename_generators(inplace=False)")
        edit_derived(F, lambda: F.rename_generators(dict(mp), inplace=False), ctx,
                     "rename_generators(inplace=False)")
        ctx.check(isinstance(R, FSA) and R is not F, "rename_generators(inplace=False) returns "
                  "a new FSA", got=repr(R))
    check_views(R, rm, ctx, where="rename_generators")
    if rm.edges != m.edges:
        ctx.label("op-changes")
    return R, rm


def op_recurrent(F, m, inplace, ctx):
    keep = m.recurrent_core()
    rm = m.induced(keep)
    if inplace:
        r = F.recurrent(inplace=True)
        ctx.check(r is None, "recurrent(inplace=True) returns None", got=repr(r))
        R = F
    else:
        before = snapshot(F)
        R = F.recurrent()
        unchanged(F, before, ctx, "recurrent()")
        edit_derived(F, lambda: F.recurrent(), ctx, "recurrent()")
        ctx.check(isinstance(R, FSA) and R is not F, "recurrent() returns a new FSA",
                  got=repr(R))
    got = set(R.vertices())
    # stated directly: no vertex lacks an incoming or an outgoing edge, and nothing larger works
    gd = R.graph_dict
    heads = {h for nb in gd.values() for h in nb.values()}
    for v in got:
        ctx.check(len(gd[v]) > 0 and v in heads, "recurrent(): a vertex of the result lacks an "
                  "incoming or an outgoing edge", vertex=v, result=repr(gd))
    ctx.check(got == keep, "recurrent() is not the largest sub-automaton without dead ends",
              got=sorted(got, key=repr), want=sorted(keep, key=repr))
    check_views(R, rm, ctx, where="recurrent")
    if len(keep) < len(m.verts):
        ctx.label("op-changes")
    return R, rm


def op_rlp(F, m, root, ties, ctx, default_root=False):
    before = snapshot(F)
    kw = {} if default_root else {"root": root}
    if not ties:
        kw["edge_ties"] = False
    R = F.remove_long_paths(**kw)
    unchanged(F, before, ctx, "remove_long_paths")
    ctx.check(isinstance(R, FSA), "remove_long_paths returns an FSA", got=repr(R))
    if ties:
        rm = m.shortest_path_model(root)
    else:
        got = [(t, h, l) for t, nb in R.graph_dict.items() for l, h in nb.items()]
        msg = m.check_shortest_tree(root, got)
        ctx.check(msg is None, "remove_long_paths(edge_ties=False) is not a shortest-path tree",
                  why=msg, root=root, got=sorted(got, key=repr))
        rm = GraphModel(start=[])
        rm.verts = list(m.verts)
        rm.edges = set(got)
    check_views(R, rm, ctx, where="remove_long_paths(root=%r, edge_ties=%r)" % (root, ties))
    if rm.edges != m.edges:
        ctx.label("op-changes")
    return R, rm


# ---------------------------------------------------------------------------
# strategies
SIZES = [1, 2, 3, 3, 4, 4, 5, 6, 8, 10]
_DENS = st.sampled_from([0.25, 0.5, 0.75, 1.0])
_UNIT = st.lists(st.floats(0, 1, allow_nan=False), min_size=30, max_size=30)
_TGT = st.lists(st.integers(0, 9), min_size=30, max_size=30)


@st.composite
def automaton_case(draw, max_n=10, max_l=3, routes=ROUTES + ["dict_hidden"], sizes=SIZES):
    n = min(draw(st.sampled_from(sizes)), max_n)
    nl = draw(st.integers(1, max_l))
    dens = draw(_DENS)
    sink = draw(st.integers(-2, n - 1))      # a vertex forced to have no outgoing edges
    u, t = draw(_UNIT), draw(_TGT)
    graph = []
    for v in range(n):
        nb = []
        for j, l in enumerate("abc"[:nl]):
            if v != sink and u[v * 3 + j] < dens:
                nb.append([l, t[v * 3 + j] % n])
        graph.append([v, nb])
    return dict(graph=graph, start=draw(st.integers(0, n - 1)),
                route=draw(st.sampled_from(routes)))


_WALKS = st.lists(st.lists(st.integers(0, 11), max_size=12), max_size=6)


def walk_words(m, walks, starts):
    """words that follow the automaton: each integer picks one of the labels leaving the
    current state (11 = the absent label), so long accepted words and words that go wrong
    late are frequent"""
    out = []
    for j, w in enumerate(walks):
        if not starts:
            break
        v = starts[j % len(starts)]
        word = []
        for i in w:
            nxt = sorted(m.out(v).items()) if v is not None else []
            if i == 11 or not nxt:
                word.append(FOREIGN if i == 11 else (m.labels() + [FOREIGN])[i % (len(m.labels()) + 1)])
                v = m.target(v, word[-1]) if v is not None else None
            else:
                l, v = nxt[i % len(nxt)]
                word.append(l)
        out.append(word)
    return out


def word_lists(nl, count=8, maxlen=9):
    alphabet = list("abc"[:nl]) + [FOREIGN]
    # the foreign letter is rare inside a drawn word so that long accepted prefixes occur
    letter = st.sampled_from(alphabet[:-1] * 4 + [FOREIGN])
    return st.lists(st.lists(letter, max_size=maxlen), max_size=count)


@st.composite
def walk_case(draw):
    c = draw(automaton_case())
    nl = max(1, len({l for _, nb in c["graph"] for l, _ in nb}))
    c["words"] = draw(word_lists(3))
    c["walks"] = draw(_WALKS)
    c["as_string"] = draw(st.booleans())
    return c


def body_walk(case, ctx):
    m = model_of(case)
    classify(m, ctx)
    F = build(m, case["route"])
    ctx.label("route=" + case["route"])
    if len(m.verts) > len([1 for v, nb in m.graph_dict().items() if nb or not m.nbrs_in(v)]) \
            and case["route"] == "dict_hidden":
        ctx.label("hidden-vertices")
    check_views(F, m, ctx, where="after construction")
    alphabet = m.labels() + [FOREIGN]
    words = words_upto(alphabet, 3 if len(alphabet) <= 3 else 2) + \
        [list(w) for w in case["words"]] + \
        walk_words(m, case.get("walks", []), [m.start[0]] + m.verts)
    if any(len(w) > 4 and m.follow(w, m.start[0])[0] is not None for w in words):
        ctx.label("long-accepted-word")
    if any(len(w) > 4 and 2 < m.follow(w, m.start[0])[1] < len(w) for w in words):
        ctx.label("long-word-rejected-late")
    walk_queries(F, m, words, m.verts, ctx, as_string=case["as_string"])
    check_views(F, m, ctx, where="after the queries")


def body_enum(case, ctx):
    m = model_of(case)
    classify(m, ctx)
    F = build(m, case["route"])
    ctx.label("route=" + case["route"])
    enumeration(F, m, m.verts, case.get("L", 4), ctx)
    check_views(F, m, ctx, where="after the enumeration")


@st.composite
def enum_case(draw):
    c = draw(automaton_case(max_n=6))
    c["L"] = draw(st.integers(0, 5))
    return c


@st.composite
def multiple_case(draw):
    c = draw(automaton_case(max_n=7))
    c["k"] = draw(st.integers(1, 4))
    c["even"] = draw(st.integers(0, 3)) == 0
    return c


def body_multiple(case, ctx):
    m = model_of(case)
    classify(m, ctx)
    F = build(m, case["route"])
    ctx.label("route=" + case["route"])
    k = 2 if case.get("even") else case["k"]
    ctx.label("k=%d" % k, "even_automaton" if case.get("even") else "")
    R, rm = op_multiple(F, m, k, ctx, even=bool(case.get("even")), lang_len=3)
    if len(rm.verts) < len(m.verts):
        ctx.label("multiple-drops-vertices")
    check_views(F, m, ctx, where="receiver after automaton_multiple")


@st.composite
def rename_case(draw):
    c = draw(automaton_case(max_n=6))
    targets = draw(st.permutations(["a", "b", "c", "x", "Y", "ab", "ba"]))
    c["map"] = [[l, t] for l, t in zip("abc", targets)]
    c["inplace"] = draw(st.booleans())
    c["words"] = draw(word_lists(3, count=5, maxlen=6))
    return c


def body_rename(case, ctx):
    m = model_of(case)
    classify(m, ctx)
    F = build(m, case["route"])
    ctx.label("route=" + case["route"], "inplace" if case["inplace"] else "copy")
    full = {l: t for l, t in case["map"]}
    mp = {l: full[l] for l in m.labels()} if case.get("minimal_map") else dict(full)
    R, rm = op_rename(F, m, mp, case["inplace"], ctx)
    if any(len(t) > 1 for l, t in mp.items() if l in m.labels()):
        ctx.label("multi-letter-targets")
    # the language is mapped letter by letter: w accepted from v  <=>  map(w) accepted from v
    words = words_upto(m.labels() + [FOREIGN], 2) + [list(w) for w in case["words"]]
    inv_foreign = "q"
    for v in m.verts:
        for w in words:
            end, _ = m.follow(w, v)
            w2 = [mp.get(l, inv_foreign) for l in w]
            got = R.accepts(list(w2), start_vertex=v)
            ctx.check(got is (end is not None), "renamed automaton: map(w) accepted iff w was",
                      word=w, mapped=w2, start=v, got=repr(got), want=end is not None)
            if end is not None:
                ctx.check(R.follow_word(list(w2), start_vertex=v) == end,
                          "renamed automaton: end state of map(w)", word=w, start=v)
    walk_queries(R, rm, words_upto(rm.labels() + [FOREIGN], 2), rm.verts, ctx,
                 default_start=True, tag=" (renamed automaton)")
    if not case["inplace"]:
        check_views(F, m, ctx, where="receiver after rename_generators(inplace=False)")


@st.composite
def recurrent_case(draw):
    c = draw(automaton_case(max_n=10))
    c["inplace"] = draw(st.booleans())
    c["query_first"] = draw(st.booleans())
    return c


def body_recurrent(case, ctx):
    m = model_of(case)
    classify(m, ctx)
    F = build(m, case["route"])
    ctx.label("route=" + case["route"], "inplace" if case["inplace"] else "copy")
    if case.get("query_first"):
        # read-only calls before the operation (has_edge on non-adjacent pairs included)
        ctx.label("queried-first")
        for t in m.verts[:5]:
            for h in m.verts[:5]:
                check_pair_queries(F, m, ctx, t, h, where="before recurrent")
    R, rm = op_recurrent(F, m, case["inplace"], ctx)
    if 0 < len(rm.verts) < len(m.verts):
        ctx.label("partial-prune")
    if len(rm.verts) == 0 and m.verts:
        ctx.label("prunes-everything")
    if not case["inplace"]:
        check_views(F, m, ctx, where="receiver after recurrent()")
    # idempotent: the result has no dead ends left
    R2, _ = op_recurrent(R, rm, False, ctx)


@st.composite
def requery_case(draw):
    c = draw(automaton_case(max_n=7))
    c["L"] = draw(st.integers(2, 4))
    c["edits"] = draw(st.lists(st.tuples(st.sampled_from(
        ["delete_vertex", "recurrent_inplace", "recurrent_copy", "add_edge", "deepcopy"]),
        st.integers(0, 9), st.integers(0, 9), st.integers(0, 9)), min_size=1, max_size=3))
    return c


def body_requery(case, ctx):
    """the queries describe the automaton as it is NOW: enumerate / walk, edit (prune, delete,
    add), enumerate / walk again - every answer must match the model of the edited graph
    (a memo or a stale view surviving an edit shows here)"""
    m = model_of(case)
    classify(m, ctx)
    F = build(m, case["route"])
    ctx.label("route=" + case["route"])
    L = case["L"]
    enumeration(F, m, m.verts, L, ctx, tag=" (before any edit)")
    for (op, a, b, c) in case["edits"]:
        ctx.label("edit=" + op)
        if op == "delete_vertex":
            if len(m.verts) <= 1:
                continue
            v = sorted(m.verts, key=repr)[a % len(m.verts)]
            if v in m.start:
                continue
            F.delete_vertex(v)
            m = m.copy()
            m.delete_vertex(v)
            ctx.label("op-changes")
        elif op == "recurrent_inplace":
            keep = m.recurrent_core()
            if not set(m.start) <= set(keep):
                continue
            F.recurrent(inplace=True)
            if len(keep) < len(m.verts):
                ctx.label("op-changes", "partial-prune")
            m = m.induced(keep)
        elif op == "recurrent_copy":
            keep = m.recurrent_core()
            if not set(m.start) <= set(keep):
                continue
            R = F.recurrent()
            rm = m.induced(keep)
            if len(keep) < len(m.verts):
                ctx.label("op-changes", "partial-prune")
            enumeration(R, rm, rm.verts, L, ctx, tag=" (on the recurrent copy)")
            enumeration(F, m, m.verts, L, ctx, tag=" (receiver after recurrent())")
            continue
        elif op == "add_edge":
            vs = sorted(m.verts, key=repr)
            t, h = vs[a % len(vs)], vs[b % len(vs)]
            labs = sorted(m.labels()) or ["a"]
            l = labs[c % len(labs)]
            if m.target(t, l) is not None:
                continue
            F.add_edges([(t, h, l)])
            m = m.copy()
            m.add_edge(t, h, l)
            ctx.label("op-changes")
        elif op == "deepcopy":
            F = copy.deepcopy(F)
        enumeration(F, m, m.verts, L, ctx, tag=" (after %s)" % op)
        words = words_upto(sorted(m.labels()), min(L, 3))
        walk_queries(F, m, words, m.verts, ctx, tag=" (after %s)" % op)
        check_views(F, m, ctx, where="after " + op)


@st.composite
def rlp_case(draw):
    c = draw(automaton_case(max_n=10, sizes=[2, 3, 4, 5, 6, 6, 8, 8, 10, 10]))
    c["ties"] = draw(st.booleans())
    c["query_first"] = draw(st.booleans())
    c["default_root"] = draw(st.integers(0, 3)) == 0
    return c


def body_rlp(case, ctx):
    m = model_of(case)
    classify(m, ctx)
    F = build(m, case["route"])
    ctx.label("route=" + case["route"], "ties" if case["ties"] else "tree")
    if case.get("query_first"):
        ctx.label("queried-first")
        for t in m.verts[:5]:
            for h in m.verts[:5]:
                check_pair_queries(F, m, ctx, t, h, where="before remove_long_paths")
    roots = [m.start[0]] if case.get("default_root") else list(m.verts)
    for root in roots:
        dist = m.distances(root)
        if len(dist) < len(m.verts):
            ctx.label("unreachable-vertices")
        good = m.shortest_edges(root)
        heads = {}
        for (t, h, _) in good:
            heads.setdefault(h, set()).add(t)
        if any(len(ts) > 1 for ts in heads.values()):
            ctx.label("has-ties")
        op_rlp(F, m, root, case["ties"], ctx, default_root=bool(case.get("default_root")))
    check_views(F, m, ctx, where="receiver after remove_long_paths")


# ---------------------------------------------------------------------------
# derived automata: operate, query, operate again
DERIVE = ["multiple", "even", "rlp", "rlp_tree", "recurrent", "recurrent_inplace", "rename",
          "rename_inplace", "delete", "copy", "add_vertex"]
FOLLOWUP = ["recurrent", "rlp", "delete", "multiple", "none", "add_edge"]


def derive(F, m, how, x, ctx):
    """apply one operation; returns (automaton, model); x = small ints"""
    ctx.label("derive=" + how)
    if how in ("multiple", "even"):
        if not (len(m.start) == 1 and m.start[0] in m.verts):
            return F, m
        if len({len(l) for l in m.labels()}) > 1:
            return F, m       # concatenated labels of mixed lengths are ambiguous
        k = 2 if how == "even" else 1 + x[0] % 3
        if max(1, len(m.labels())) ** k > 200:
            if how == "even":
                return F, m       # too many length-2 words: leave the automaton as it is
            k = 1
        return op_multiple(F, m, k, ctx, even=(how == "even"), lang_len=1)
    if how in ("rlp", "rlp_tree"):
        if not m.verts:
            return F, m
        root = m.verts[x[0] % len(m.verts)]
        return op_rlp(F, m, root, how == "rlp", ctx)
    if how in ("recurrent", "recurrent_inplace"):
        return op_recurrent(F, m, how.endswith("inplace"), ctx)
    if how in ("rename", "rename_inplace"):
        pool = sorted(set(m.labels()) | {"a", "b", "c", "x"}, key=vkey)
        sh = x[0] % len(pool)
        mp = {pool[i]: pool[(i + sh) % len(pool)] for i in range(len(pool))}
        return op_rename(F, m, mp, how.endswith("inplace"), ctx)
    if how == "delete":
        if not m.verts:
            return F, m
        v = m.verts[x[0] % len(m.verts)]
        F.delete_vertex(v)
        m2 = m.copy()
        m2.delete_vertex(v)
        check_views(F, m2, ctx, where="delete_vertex(%r)" % (v,))
        return F, m2
    if how == "copy":
        before = snapshot(F)
        R = copy.deepcopy(F)
        unchanged(F, before, ctx, "deepcopy")
        check_views(R, m, ctx, where="deepcopy")
        return R, m.copy()
    if how == "add_vertex":
        v = 50 + x[0]
        F.add_vertices([v])
        m2 = m.copy()
        m2.add_vertices([v])
        check_views(F, m2, ctx, where="add_vertices")
        return F, m2
    raise HarnessError("unknown derivation %r" % (how,))


def derived_words(m, extra):
    labs = m.labels()
    klen = len(labs[0]) if labs else 1
    foreign = [FOREIGN, FOREIGN * klen] if klen > 1 else [FOREIGN]
    alphabet = labs + foreign
    L = 2 if len(alphabet) <= 6 else 1
    words = words_upto(alphabet, L)
    for w in extra:
        words.append([alphabet[i % len(alphabet)] for i in w])
    return words


def body_derived(case, ctx):
    m = model_of(case)
    classify(m, ctx)
    F = build(m, case["route"])
    ctx.label("route=" + case["route"])
    for how, x in case["chain"]:
        F, m = derive(F, m, how, x, ctx)
    ctx.label("chain=%d" % len(case["chain"]))
    words = derived_words(m, case.get("words", []))
    if case.get("only_words") is not None:      # regression cases pin the queried words
        words = [list(w) for w in case["only_words"]]
    if m.labels() and len(m.labels()[0]) > 1:
        ctx.label("multi-letter-labels")
    if m.verts:
        starts = m.verts if len(m.verts) <= 6 else m.verts[:6]
        walk_queries(F, m, words, starts, ctx,
                     default_start=(len(m.start) == 1 and m.start[0] in m.verts),
                     tag=" (derived automaton)")
        if all(len(l) == len(m.labels()[0]) for l in m.labels()):
            enumeration(F, m, starts, 2, ctx,
                        default_start=(len(m.start) == 1 and m.start[0] in m.verts),
                        tag=" (derived automaton)", cap=400)
        for t in starts[:5]:
            for h in starts[:5]:
                check_pair_queries(F, m, ctx, t, h, where="derived automaton")
    check_views(F, m, ctx, where="derived automaton after the queries")
    # ... and the derived, queried automaton still operates correctly
    how, x = case["then"]
    ctx.label("then=" + how)
    if how == "recurrent":
        op_recurrent(F, m, bool(x[1] % 2), ctx)
    elif how == "rlp" and m.verts:
        op_rlp(F, m, m.verts[x[0] % len(m.verts)], bool(x[1] % 2), ctx)
    elif how == "delete" and m.verts:
        derive(F, m, "delete", x, ctx)
    elif how == "multiple":
        derive(F, m, "multiple", x, ctx)
    elif how == "add_edge" and m.verts:
        t = m.verts[x[0] % len(m.verts)]
        h = m.verts[x[1] % len(m.verts)]
        lab = (m.labels() + ["n"])[x[2] % (len(m.labels()) + 1)]
        tgt = m.target(t, lab)
        h = tgt if tgt is not None else h
        F.add_edges([(t, h, lab)])
        m2 = m.copy()
        m2.add_edge(t, h, lab)
        check_views(F, m2, ctx, where="add_edges after the queries")
        walk_queries(F, m2, [[lab], [lab, lab], [FOREIGN]], [t], ctx, default_start=False,
                     tag=" (after add_edges)")


@st.composite
def derived_case(draw):
    c = draw(automaton_case(max_n=6))
    ints = st.lists(st.integers(0, 7), min_size=3, max_size=3)
    n = draw(st.sampled_from([1, 1, 2]))
    c["chain"] = [[draw(st.sampled_from(DERIVE)), draw(ints)] for _ in range(n)]
    c["then"] = [draw(st.sampled_from(FOLLOWUP)), draw(ints)]
    c["words"] = draw(st.lists(st.lists(st.integers(0, 9), max_size=5), max_size=4))
    return c


# ---------------------------------------------------------------------------
# exhaustive: every small deterministic automaton through every operation
def small_automata(n, nl):
    """all deterministic automata on states 0..n-1 over 'abc'[:nl]: each (state, label)
    goes nowhere or to one of the n states"""
    slots = [(v, l) for v in range(n) for l in "abc"[:nl]]
    for choice in itertools.product(range(-1, n), repeat=len(slots)):
        graph = [[v, []] for v in range(n)]
        for (v, l), tgt in zip(slots, choice):
            if tgt >= 0:
                graph[v][1].append([l, tgt])
        yield graph


def exhaustive_small(tier):
    sizes = [(1, 1), (1, 2), (2, 1), (2, 2)] if tier == "quick" else \
        [(1, 1), (1, 2), (2, 1), (2, 2), (3, 1), (2, 3), (3, 2)]
    doms = []
    for (n, nl) in sizes:
        cases = []
        for g in small_automata(n, nl):
            for s in range(n):
                cases.append(dict(graph=g, start=s))
        doms.append(("all deterministic automata with %d states over %d labels, every start "
                     "state, all operations" % (n, nl), cases))
    return doms


def body_small(case, ctx):
    m = model_of(case)
    classify(m, ctx)
    n = len(m.verts)
    routes = ["dict", "alt", "incr", "incr_elist", "dict_hidden", "alt_hidden"]
    route = routes[(sum(len(nb) for _, nb in case["graph"]) + case["start"]) % len(routes)]
    ctx.label("route=" + route)
    alphabet = m.labels() + [FOREIGN]
    words = words_upto(alphabet, 3)
    F = build(m, route)
    check_views(F, m, ctx, where="construction")
    walk_queries(F, m, words, m.verts, ctx, as_string=bool(case["start"] % 2))
    enumeration(F, m, m.verts, 4, ctx)
    for k in (1, 2, 3, 4):
        R, rm = op_multiple(F, m, k, ctx, lang_len=2)
        if k in (2, 3):
            walk_queries(R, rm, derived_words(rm, []), rm.verts, ctx,
                         tag=" (on the %d-multiple)" % k)
    R, rm = op_multiple(F, m, 2, ctx, even=True, lang_len=1)
    for v in m.verts:
        for t in m.verts:
            check_pair_queries(F, m, ctx, v, t, where="small automaton")
    for root in m.verts:
        for ties in (True, False):
            R, rm = op_rlp(F, m, root, ties, ctx)
            walk_queries(R, rm, words_upto(alphabet, 2), rm.verts, ctx, default_start=False,
                         tag=" (on remove_long_paths)")
    R, rm = op_rename(F, m, {"a": "b", "b": "c", "c": "a"}, False, ctx)
    walk_queries(R, rm, words_upto(rm.labels() + [FOREIGN], 2), rm.verts, ctx,
                 tag=" (renamed)")
    R, rm = op_recurrent(F, m, False, ctx)
    if rm.verts:
        walk_queries(R, rm, words_upto(alphabet, 2), rm.verts, ctx, default_start=False,
                     tag=" (recurrent)")
    check_views(F, m, ctx, where="receiver after all non-in-place operations")
    G = build(m, route)
    op_recurrent(G, m, True, ctx)
    G = build(m, route)
    op_rename(G, m, {"a": "x", "b": "a", "c": "b"}, True, ctx)


# ---------------------------------------------------------------------------
# builtin automata (model = regex reading of the file, independent of the GAP parser)
def _builtin_dir():
    import os
    return os.path.join(os.path.dirname(fsa_mod.__file__), "builtin")


def exhaustive_builtin(tier):
    import os
    d = _builtin_dir()
    cap = 2500 if tier == "quick" else 4000
    names = sorted(x for x in os.listdir(d) if (x.endswith(".wa") or x.endswith(".geowa"))
                   and os.path.getsize(os.path.join(d, x)) < cap)
    return [("builtin automata below %d bytes: queries, enumeration, multiples, recurrent, "
             "shortest paths" % cap, [dict(name=x) for x in names])]


def body_builtin(case, ctx):
    import os
    from ..oracles import kbmag_text as K
    with open(os.path.join(_builtin_dir(), case["name"])) as f:
        names, rows, k = K.regex_read(f.read())
    m = K.table_model(names, rows, k)
    classify(m, ctx)
    ctx.label("file=" + case["name"])
    F = fsa_mod.load_builtin(case["name"])
    F.start_vertices = list(F.start_vertices)
    check_views(F, m, ctx, where="load_builtin")
    alphabet = m.labels() + [FOREIGN]
    L = 3 if len(alphabet) <= 5 else 2
    starts = m.verts[:4] + m.verts[-2:]
    # long accepted words: follow the first available letter for 12 steps from the start
    w, v = [], k
    for _ in range(12):
        nxt = sorted(m.out(v).items())
        if not nxt:
            break
        l, v = nxt[len(w) % len(nxt)]
        w.append(l)
    walk_queries(F, m, words_upto(alphabet, L) + [w, w + [FOREIGN], w[:5] + [FOREIGN] + w[5:]],
                 starts, ctx, as_string=True)
    enumeration(F, m, [k] + starts[:2], 4, ctx, cap=1500)
    for kk in (2, 3):
        if len(m.labels()) ** kk <= 300:
            R, rm = op_multiple(F, m, kk, ctx, lang_len=2)
            walk_queries(R, rm, derived_words(rm, [])[:200], rm.verts[:3], ctx,
                         tag=" (on the %d-multiple of a builtin)" % kk)
    op_recurrent(F, m, False, ctx)
    R, rm = op_rlp(F, m, k, True, ctx, default_root=True)
    op_rlp(F, m, m.verts[-1], False, ctx)
    op_rename(F, m, {l: l.swapcase() + "'" for l in m.labels()}, False, ctx)
    check_views(F, m, ctx, where="builtin after all operations")
    # in-place operations on the loaded automaton (relabelling is in place by default, pruning
    # on request) edit THAT automaton: loading the same file again gives the file's automaton
    ren = {l: l.swapcase() + "'" for l in m.labels()}
    F.rename_generators(dict(ren))
    F.recurrent(inplace=True)
    F2 = fsa_mod.load_builtin(case["name"])
    F2.start_vertices = list(F2.start_vertices)
    check_views(F2, m, ctx, where="load_builtin again, after in-place operations on the first "
                                  "copy")


_walk = Law("walk_queries_agree", walk_case(), body_walk, nt_basic, quick=250, thorough=2000,
            shards=(2, 8))
_enum = Law("enumeration_exact", enum_case(), body_enum, nt_basic, quick=250, thorough=2000,
            shards=(2, 6))
_mult = Law("multiple_language", multiple_case(), body_multiple, nt_op, quick=250,
            thorough=2000, shards=(2, 6))
_ren = Law("rename_language", rename_case(), body_rename, nt_op, quick=200, thorough=2000,
           shards=(2, 4))
_rec = Law("recurrent_is_greatest", recurrent_case(), body_recurrent, nt_op, quick=300,
           thorough=2500, shards=(2, 4))
_req = Law("queries_track_edits", requery_case(), body_requery, nt_op, quick=250, thorough=2000,
           shards=(2, 4))
_rlp = Law("shortest_path_subgraph", rlp_case(), body_rlp, nt_op, quick=250, thorough=2000,
           shards=(2, 4))
_der = Law("queries_on_derived_automata", derived_case(), body_derived, nt_basic, quick=300,
           thorough=2500, shards=(3, 8))
_small = Law("small_automata_all_operations", None, body_small, nt_basic,
             exhaustive=exhaustive_small)
_small.ex_shards = {"quick": 4, "thorough": 16}

_builtin = Law("builtin_automata_operations", None, body_builtin, lambda l: "has-cycle" in l,
               exhaustive=exhaustive_builtin)
_builtin.ex_shards = {"quick": 3, "thorough": 6}

LAWS = [_walk, _enum, _mult, _ren, _rec, _req, _rlp, _der, _small, _builtin]
