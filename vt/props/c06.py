"""C06 - automaton-driven enumeration returns exactly the accepted words and their images."""
import os
import math
import itertools
import collections
import numpy as np
from hypothesis import strategies as st

from ..core import Law, HarnessError
from .. import gen
from ..engine import REPO
from ..oracles import autom as A

from geometry_tools import representation, projective, hyperbolic
from geometry_tools.automata import fsa

LETTERS = "abcdefghijklmnopqrstuvwxyz"
# fixed-width multi-character generator names (for edge_words=False)
NAMES = ["x1", "y2", "zz", "w0"]

RULE = ("cases: a deterministic automaton given as a model dict (random: 1..8 states, 1..4 labels, "
        "vertices without incoming / outgoing edges forced to occur, start vertex anywhere, built "
        "through FSA(graph_dict), FSA(out_dict, graph_dict=False) or add_vertices/add_edges, int or "
        "str vertex names; exhaustive: every deterministic automaton with <=3 states over <=2 labels; "
        "every builtin kbmag automaton read by a harness regex; free_automaton; automaton_multiple(2|3) "
        "outputs), labels that are single generators (both cases), multi-letter words or "
        "multi-character generator names, a representation (exact integer Sanov family of rank 1..4 "
        "as float or int arrays, or random well-conditioned float matrices of dimension 1..3), "
        "lengths 0..7 capped by the number of paths, and all of maxlen x with_words x (default | "
        "every start_state | every end_state) x edge_words; memo histories = list of (length, "
        "state) calls sharing one precomputed dict.  oracle = harness path enumeration on the model "
        "dict + harness word images.  non-trivial = the automaton has a cycle and a vertex without "
        "incoming edges, some L >= 2, and a non-default option (start_state, end_state, "
        "maxlen=False, edge_words=False, reused memo) is exercised; distinct = distinct JSON case.")

ASSUMPTIONS = [
    "automata are deterministic with a single start vertex (the FSA class documents that lists of "
    "start vertices of length > 1 are not handled)",
    "edge labels are non-empty strings; with edge_words=True they are words in single-character "
    "generators, with edge_words=False they are generator names of the representation",
    "a caller-supplied precomputed dict is reused only with the same automaton, representation, "
    "maxlen, with_words, edge_words and the same direction (start_state vs end_state)",
    "matrix comparisons: absolute 1e-9 plus 1e-11 x (product of the norms of the letters of the word)",
    "the order of the returned words/matrices is not part of the claim (multisets are compared; "
    "matrices[i] is compared with the image of words[i])",
    "free_words_less_than(L) is strictly-less (name and test-suite pin that), the docstring's "
    "'inclusive' is not claimed",
]

CLAIM = dict(
    text=("Representation.automaton_accepted / freely_reduced_elements return exactly one entry per "
          "accepted path (of length <= L, or == L) of the automaton, for every start_state / "
          "end_state / maxlen / with_words / edge_words combination, the i-th matrix being the image "
          "of the i-th word; a reused precomputed dict never changes a result; the enumeration "
          "agrees with FSA.enumerate_words / enumerate_fixed_length_paths."),
    note=("Decided against a harness path enumeration over the dict the automaton was built from, on "
          "all deterministic automata with <=3 states and <=2 labels (exhaustive), random automata "
          "up to 8 states / 4 labels, all 18 builtin automata, free automata and automaton_multiple "
          "outputs; exact integer (Sanov) and random float representations."),
    technique="property-based testing with an independent reference model (Hypothesis) + bounded "
              "exhaustive enumeration + model-based history testing of the memo dictionary",
)


# ---------------------------------------------------------------------------
# decoding a case
def vname(aut, i):
    return i if aut.get("vn", "int") == "int" else "q%d" % i


def model_of(aut):
    """model dict {vertex: {label: head}} and start vertex"""
    if "free" in aut:
        return free_model(aut["free"])
    model = collections.OrderedDict((vname(aut, i), collections.OrderedDict())
                                    for i in range(aut["n"]))
    labels = aut["labels"]
    for (t, li, h) in aut["edges"]:
        lab = labels[li]
        tv = vname(aut, t)
        if lab in model[tv]:
            raise HarnessError("case is not deterministic")
        model[tv][lab] = vname(aut, h)
    return model, vname(aut, aut["start"])


def build_fsa(aut, model, start):
    """the library automaton, built along one of three public routes"""
    if "free" in aut:
        return fsa.free_automaton(list(LETTERS[:aut["free"]]))
    route = aut.get("route", 0)
    if route == 0:
        d = {v: dict(nb) for v, nb in model.items()}
        if aut.get("hide"):
            # vertices without outgoing edges that occur as a head may be left out of the
            # dict (FSA adds such "hidden" vertices itself)
            heads = {h for nb in model.values() for h in nb.values()}
            for v in list(d):
                if not d[v] and v in heads and v != start:
                    del d[v]
        F = fsa.FSA(d, start_vertices=[start])
        # the caller goes on using its dictionary (the automaton must have copied it)
        for v in list(d):
            d[v]["~foreign"] = v
        return F
    if route == 1:
        out = {}
        for v, nb in model.items():
            out[v] = {}
            for lab, h in nb.items():
                out[v].setdefault(h, []).append(lab)
        F = fsa.FSA(out, start_vertices=[start], graph_dict=False)
        for v in list(out):
            for h in list(out[v]):
                out[v][h].append("~foreign")
            out[v].setdefault(v, []).append("~foreign2")
        return F
    if route == 3:
        # built with placeholder labels, then relabelled in place (as CoxeterGroup.automaton
        # does) - the enumeration must see the new labels in every view it walks
        labs = sorted({lab for nb in model.values() for lab in nb}, key=repr)
        ph = {lab: ("~%d" % i) for i, lab in enumerate(labs)}
        d = {v: {ph[lab]: h for lab, h in nb.items()} for v, nb in model.items()}
        F = fsa.FSA(d, start_vertices=[start])
        F.rename_generators({p_: lab for lab, p_ in ph.items()}, inplace=True)
        return F
    if route == 4:
        # the same through the copying form of rename_generators
        labs = sorted({lab for nb in model.values() for lab in nb}, key=repr)
        ph = {lab: ("~%d" % i) for i, lab in enumerate(labs)}
        d = {v: {ph[lab]: h for lab, h in nb.items()} for v, nb in model.items()}
        return fsa.FSA(d, start_vertices=[start]).rename_generators(
            {p_: lab for lab, p_ in ph.items()}, inplace=False)
    if route in (6, 7):
        # built with its labels permuted cyclically, then renamed back by the inverse
        # permutation - a rename map whose new labels are also old labels - in place (6) or
        # through the copying form (7)
        labs = sorted({lab for nb in model.values() for lab in nb}, key=repr)
        sig = {lab: labs[(i + 1) % len(labs)] for i, lab in enumerate(labs)}     # old -> new
        inv = {new: old for old, new in sig.items()}
        d = {v: {inv[lab]: h for lab, h in nb.items()} for v, nb in model.items()}
        F = fsa.FSA(d, start_vertices=[start])
        if route == 6:
            F.rename_generators(dict(sig), inplace=True)
            return F
        return F.rename_generators(dict(sig), inplace=False)
    if route == 8:
        # edges added pair by pair with elist=True, pairs with equal label lists handed the
        # SAME list object (the caller builds it once); the remaining labels of each pair are
        # added one by one afterwards
        F = fsa.FSA({}, start_vertices=[start])
        F.add_vertices(list(model))
        pairs = collections.OrderedDict()
        for v, nb in model.items():
            for lab, h in nb.items():
                pairs.setdefault((v, h), []).append(lab)
        shared = {}
        rest = []
        for (v, h), ls in pairs.items():
            first = ls[:1]
            F.add_edges([(v, h, shared.setdefault(tuple(first), list(first)))], elist=True)
            rest.extend((v, h, l) for l in ls[1:])
        for e in rest:
            F.add_edges([e])
        return F
    if route == 5:
        # the automaton is what is left after deleting a vertex of a larger one; the deleted
        # vertex had edges from (two parallel ones where two labels are free) and to the others
        labs = sorted({lab for nb in model.values() for lab in nb}, key=repr)
        extra = "~X"
        d = {v: dict(nb) for v, nb in model.items()}
        d[extra] = {}
        for i, v in enumerate(model):
            free = [lab for lab in labs if lab not in model[v]]
            for lab in free[:2]:
                d[v][lab] = extra
            if i < len(labs):
                d[extra][labs[i]] = v
        F = fsa.FSA(d, start_vertices=[start])
        F.delete_vertex(extra)
        return F
    F = fsa.FSA({}, start_vertices=[start])
    F.add_vertices(list(model))
    F.add_edges([(v, h, lab) for v, nb in model.items() for lab, h in nb.items()])
    return F


class HRep:
    """harness-side representation: generator name -> matrix (with inverses), exact or float"""

    def __init__(self, repcase):
        self.exact = repcase["kind"] == "sanov"
        names = repcase.get("names") or list(LETTERS[:repcase["k"]])
        self.names = names
        self.gens = {}
        if self.exact:
            fam = A.sanov_family(repcase["k"], pool=A.SIX if repcase.get("six") else None)
            for i, nm in enumerate(names):
                self.gens[nm] = fam[LETTERS[i]]
                self.gens[nm.upper()] = fam[LETTERS[i].upper()]
            self.dim = 2
            self.norm = {g: float(A.norm_inf(M)) for g, M in self.gens.items()}
            self.lib_mats = {nm: np.array(self.gens[nm],
                                          dtype=(int if repcase.get("dt") == "int" else float))
                             for nm in names}
        else:
            self.dim = repcase["dim"]
            self.lib_mats = {}
            for k_, (nm, rows) in enumerate(zip(names, repcase["mats"])):
                M = np.array(rows, dtype=float)
                lib = None
                if k_ == 0 and repcase.get("variant") == "nearly-orthogonal":
                    # orthogonal up to 3e-6 only (a rotation typed with six decimals): its
                    # inverse is not its transpose
                    M = np.eye(self.dim)
                    if self.dim >= 2:
                        M[:2, :2] = [[math.cos(0.7), -math.sin(0.7)], [math.sin(0.7), math.cos(0.7)]]
                    M = M * 1.000003
                elif k_ == 0 and repcase.get("variant") in ("integer-typed",
                                                            "integer-typed-first") \
                        and self.dim >= 2:
                    # an integer-typed generator whose inverse is not integral
                    M = np.eye(self.dim)
                    M[0, 0], M[0, 1] = 2.0, 1.0
                    lib = M.astype(np.int64)
                self.gens[nm] = M
                self.gens[nm.upper()] = np.linalg.inv(M)
                self.lib_mats[nm] = M.copy() if lib is None else lib
            if repcase.get("variant") == "integer-typed" and self.dim >= 2 and len(names) >= 2:
                # ... assigned last, so that the representation's recorded dtype is its dtype
                first = names[0]
                self.lib_mats[first] = self.lib_mats.pop(first)
            self.norm = {g: float(np.linalg.norm(M, 2)) for g, M in self.gens.items()}
        self._cache = {}
        self.wrap = repcase.get("wrap") if self.dim >= 2 else None

    def library(self, letters=None):
        """`letters`: the longest word (in generators) the law will ask about. Integer-typed
        generators are only used while every entry of every such image fits in int64 with
        room to spare (NumPy integer products wrap around silently: the caller's choice of
        dtype, not the library's arithmetic, is what fails beyond that)"""
        rep = representation.Representation()
        as_float = False
        if self.exact and letters is not None and \
                max(self.norm.values()) ** max(int(letters), 1) >= 2 ** 62:
            as_float = True
        self.int_downgraded = as_float
        for nm, M in self.lib_mats.items():
            if self.dim >= 2 and len(nm) == 1 and (ord(nm) + self.dim) % 2:
                # a generator that is assigned twice (a representation being deformed): the
                # second assignment is the one that counts, for the inverse letter too
                D_ = np.eye(self.dim)
                D_[0, 1] = 3.0
                rep[nm] = D_ if M.dtype.kind == "f" or as_float else D_.astype(M.dtype)
            rep[nm] = M.astype(float) if as_float else M.copy()
        return wrapped(rep, self.wrap)

    def image(self, tokens):
        """(float matrix, scale = product of letter norms, exact integer tuple or None)"""
        tokens = tuple(tokens)
        hit = self._cache.get(tokens)
        if hit is not None:
            return hit
        scale = 1.0
        for g in tokens:
            scale *= self.norm[g]
        if self.exact:
            M = A.word_image_int(self.gens, tokens) if tokens else A.imat_id(2)
            res = (np.array(M, dtype=float), scale, tuple(map(tuple, M)))
        else:
            M = np.eye(self.dim)
            for g in tokens:
                M = M @ self.gens[g]
            res = (M, scale, None)
        self._cache[tokens] = res
        return res


def wrapped(rep, wrap):
    """"for every representation": the plain one, or the same generators held by a
    ProjectiveRepresentation / HyperbolicRepresentation, whose answers are composite
    Transformation / Isometry objects"""
    if wrap == "projective":
        return projective.ProjectiveRepresentation(rep)
    if wrap == "hyperbolic":
        return hyperbolic.HyperbolicRepresentation(rep)
    return rep


def arr(x, dtype=None):
    """the stack of word images as matrices acting on columns, whatever the representation
    class wraps them in"""
    if hasattr(x, "matrix"):
        x = np.swapaxes(np.asarray(x.matrix), -1, -2)
    return np.asarray(x, dtype=dtype)


def longest(model, Ls, lk, k=1):
    """number of generators in the longest word a law can ask about: longest label times
    the largest length bound"""
    labs = [len(tokens_of_label(lk, lab)) for nb in model.values() for lab in nb]
    return max(labs, default=1) * max(list(Ls) + [1]) * k


def tokens_of_label(lk, label):
    return (label,) if lk in ("single", "names") else tuple(label)


def tokenise(lk, word):
    if lk == "names":
        if len(word) % 2:
            return None
        return tuple(word[i:i + 2] for i in range(0, len(word), 2))
    return tuple(word)


def greedy_match(ctx, what, got, want, tol):
    """got and want (N,d,d) agree as multisets up to tol (N,)"""
    if got.shape != want.shape:
        ctx.fail(what + ": number/shape of matrices", got=got.shape, want=want.shape)
    if got.shape[0] == 0:
        return
    if np.all(np.abs(got - want) <= tol[:, None, None]):
        ctx.units += 1
        return
    # different words with the same image (a label that is not freely reduced) share their
    # slots: each slot takes the largest tolerance among the expected entries that coincide
    # with it, since any of the returned copies may land on it
    if len(want) <= 2000:
        D = np.max(np.abs(want[:, None] - want[None, :]), axis=(2, 3))
        same = D <= 1e-9 * (1.0 + np.max(np.abs(want), axis=(1, 2)))[:, None]
        tol = np.max(np.where(same, tol[None, :], 0.0), axis=1)
    used = np.zeros(len(want), dtype=bool)
    for i in range(len(got)):
        d = np.max(np.abs(want - got[i]), axis=(1, 2))
        d = np.where(used, np.inf, d)
        j = int(np.argmin(d))
        if not d[j] <= tol[j]:
            ctx.fail(what + ": a returned matrix is not the image of any expected word "
                     "(as a multiset)", index=i, matrix=got[i], nearest=float(d[j]))
        used[j] = True
    ctx.units += 1


def check_call(ctx, rep, H, F, model, start, lk, L, mode, state, maxlen, edge_words,
               memo=None, only_with_words=None):
    """one option combination against the path model; returns (matrices, words)"""
    kw = dict(maxlen=maxlen, edge_words=edge_words)
    if mode == "start":
        kw["start_state"] = state
    elif mode == "end":
        kw["end_state"] = state
    if memo is not None:
        kw["precomputed"] = memo
    exp = A.expected_paths(model, start, L, maxlen=maxlen,
                           start_state=state if mode == "start" else None,
                           end_state=state if mode == "end" else None)
    exp_words = ["".join(p) for p in exp]
    tag = "L=%d mode=%s state=%r maxlen=%s edge_words=%s" % (L, mode, state, maxlen, edge_words)
    exp_tok = [sum((tokens_of_label(lk, lab) for lab in p), ()) for p in exp]
    E = np.zeros((len(exp), H.dim, H.dim))
    Etol = np.zeros(len(exp))
    for i, t in enumerate(exp_tok):
        M, sc, _ = H.image(t)
        E[i] = M
        Etol[i] = 1e-9 + 1e-11 * sc
    mats = words = None
    if only_with_words in (None, True):
        res = rep.automaton_accepted(F, L, with_words=True, **kw)
        ctx.check(isinstance(res, tuple) and len(res) == 2,
                  "with_words=True returns (matrices, words)", tag=tag)
        mats, words = res
        mats = arr(mats)
        words = list(words)
        got_c = collections.Counter(words)
        want_c = collections.Counter(exp_words)
        if got_c != want_c:
            missing = sorted((want_c - got_c).elements())[:8]
            extra = sorted((got_c - want_c).elements())[:8]
            ctx.fail("returned words are not exactly the accepted words (one per path)",
                     tag=tag, missing=missing, extra=extra, n_got=len(words),
                     n_want=len(exp_words))
        ctx.units += 1
        ctx.check(mats.shape == (len(words), H.dim, H.dim), "shape of the matrix array",
                  tag=tag, got=mats.shape, want=(len(words), H.dim, H.dim))
        if len(words):
            W = np.zeros_like(E)
            tol = np.zeros(len(words))
            for i, w in enumerate(words):
                t = tokenise(lk, w)
                M, sc, _ = H.image(t)
                W[i] = M
                tol[i] = 1e-9 + 1e-11 * sc
            ctx.small("matrices[i] is the image of words[i]",
                      (mats.astype(float) - W) / tol[:, None, None], 1.0, tag=tag)
    if only_with_words in (None, False):
        if memo is not None and only_with_words is None:
            raise HarnessError("a memo is tied to one with_words value")
        m2 = arr(rep.automaton_accepted(F, L, with_words=False, **kw))
        ctx.check(not isinstance(m2, tuple) and m2.ndim == 3,
                  "with_words=False returns one array", tag=tag)
        greedy_match(ctx, "with_words=False [" + tag + "]", m2.astype(float), E, Etol)
        if mats is None:
            mats = m2
    return mats, words, exp


def combos_for(modes, verts, maxlens, edge_words_opts):
    out = []
    for mode in modes:
        states = [None] if mode == "default" else verts
        for s in states:
            for ml in maxlens:
                for ew in edge_words_opts:
                    out.append((mode, s, ml, ew))
    return out


def label_automaton(ctx, model, start, Ls, lk):
    if A.has_cycle(model):
        ctx.label("cycle")
    src = A.sources(model)
    if src:
        ctx.label("source-vertex")
    if any(v != start for v in src):
        ctx.label("non-start-source")
    if start not in src:
        ctx.label("start-has-incoming")
    if any(not nb for nb in model.values()):
        ctx.label("sink-vertex")
    if max(Ls) >= 2:
        ctx.label("L>=2")
    if max(Ls) >= 5:
        ctx.label("L>=5")
    if 0 in Ls:
        ctx.label("L=0")
    ctx.label("labels=" + lk, "states=%d" % min(len(model), 9))


def nt(labels):
    return ("cycle" in labels and "source-vertex" in labels and "L>=2" in labels
            and "nondefault" in labels)


# ---------------------------------------------------------------------------
# strategies
@st.composite
def rep_case(draw, lk, max_k=4):
    if lk == "names":
        k = draw(st.integers(1, 4))
        names = NAMES[:k]
    else:
        k = draw(st.integers(1, max_k))
        names = None
    if draw(st.integers(0, 2)) < 2:
        r = dict(kind="sanov", k=k, dt=draw(st.sampled_from(["float", "float", "int"])))
    else:
        k = min(k, 3)
        if names:
            names = names[:k]
        dim = draw(st.integers(1, 3))
        r = dict(kind="float", k=k, dim=dim,
                 mats=[draw(gen.wellcond_matrix(dim, maxfactor=2.0)) for _ in range(k)],
                 variant=draw(st.sampled_from([None, None, "nearly-orthogonal",
                                               "integer-typed", "integer-typed-first"])))
    if names:
        r["names"] = names
    r["wrap"] = draw(st.sampled_from([None, None, "projective", "hyperbolic"]))
    return r


def rep_letters(r):
    names = r.get("names") or list(LETTERS[:r["k"]])
    return names + [n.upper() for n in names]


@st.composite
def label_set(draw, r, lk, max_labels=4):
    letters = rep_letters(r)
    if lk in ("single", "names"):
        nl = draw(st.integers(1, min(max_labels, len(letters))))
        return draw(st.permutations(letters))[:nl]
    if len(letters) >= 2 and draw(st.integers(0, 2)) == 0:
        # labels of different lengths whose concatenations collide: x.yx and xy.x spell the
        # same word along two different paths (the word is due once per accepting path)
        x, y = draw(st.permutations(letters))[:2]
        return [x, y + x, x + y] + ([x + x] if draw(st.booleans()) else [])
    nl = draw(st.integers(1, max_labels))
    labs = []
    for i in range(nl):
        ln = draw(st.integers(2 if i == 0 else 1, 3))
        w = "".join(draw(st.lists(st.sampled_from(letters), min_size=ln, max_size=ln)))
        if w not in labs:
            labs.append(w)
    return labs


@st.composite
def automaton_case(draw, labels, max_n=8, dense=False):
    n = draw(st.integers(1, max_n))
    p_src = draw(st.sampled_from([0, 1] if dense else [0, 1, 2, 3]))      # out of 6
    p_snk = draw(st.sampled_from([0, 1] if dense else [0, 1, 2]))
    density = draw(st.sampled_from([6, 8] if dense else [2, 4, 6, 8]))     # out of 8
    is_src = [draw(st.integers(0, 5)) < p_src for _ in range(n)]
    is_snk = [draw(st.integers(0, 5)) < p_snk for _ in range(n)]
    heads = [v for v in range(n) if not is_src[v]]
    edges = []
    if heads:
        for v in range(n):
            if is_snk[v]:
                continue
            for li in range(len(labels)):
                if draw(st.integers(0, 7)) < density:
                    edges.append([v, li, draw(st.sampled_from(heads))])
    start = draw(st.integers(0, n - 1))
    return dict(n=n, start=start, labels=list(labels), edges=edges,
                vn=draw(st.sampled_from(["int", "int", "str"])),
                route=draw(st.sampled_from([0, 0, 1, 2, 3, 3, 4, 5, 5, 5, 5, 6, 6, 7, 8, 8])),
                hide=draw(st.booleans()))


def max_len_for(model, cap, hard=7):
    L = 0
    while L < hard and A.count_paths(model, L + 1) <= cap:
        L += 1
    return L


@st.composite
def lengths(draw, model, cap=700, hard=7):
    Lmax = max_len_for(model, cap, hard)
    L = draw(st.integers(0, Lmax))
    if draw(st.booleans()):
        L = Lmax - draw(st.integers(0, min(1, Lmax)))
    Ls = [L]
    if draw(st.integers(0, 3)) == 0:
        Ls.append(draw(st.integers(0, Lmax)))
    return Ls


@st.composite
def accept_case(draw, modes, maxlens=(True, False), cap=700):
    lk = draw(st.sampled_from(["single", "single", "words", "words", "names"]))
    r = draw(rep_case(lk))
    if lk == "single" and draw(st.integers(0, 7)) == 0:
        aut = dict(free=draw(st.integers(1, min(3, r["k"]))))
    else:
        labels = draw(label_set(r, lk))
        colliding = lk == "words" and len(labels) >= 3 and labels[1][1:] == labels[0] and \
            labels[2][:1] == labels[0]
        # (colliding label sets: few states and many edges, so that both spellings exist)
        aut = draw(automaton_case(labels, max_n=3, dense=True)) if colliding else \
            draw(automaton_case(labels))
    model, _ = model_of(aut)
    Ls = draw(lengths(model, cap=cap))
    return dict(aut=aut, rep=r, lk=lk, Ls=Ls, modes=list(modes), maxlens=list(maxlens))


def edge_words_options(lk):
    return {"single": [True, False], "words": [True], "names": [False]}[lk]


def body_accept(case, ctx):
    aut, lk = case["aut"], case["lk"]
    model, start = model_of(aut)
    H = HRep(case["rep"])
    rep = H.library(longest(model, case["Ls"], lk))
    F = build_fsa(aut, model, start)
    label_automaton(ctx, model, start, case["Ls"], lk)
    ctx.label("rep=" + case["rep"]["kind"] + ("/" + case["rep"].get("dt", "")
                                               if H.exact else ""),
              "free-automaton" if "free" in aut else "route=%d" % aut.get("route", 0),
              "class=%s" % H.wrap)
    verts = list(model)
    if case.get("only_states") is not None:     # (used by hand-written regression cases)
        verts = [v for v in verts if str(v) in case["only_states"]]
    combos = combos_for(case["modes"], verts, case["maxlens"], edge_words_options(lk))
    for (mode, s, ml, ew) in combos:
        if mode != "default" or not ml or not ew:
            ctx.label("nondefault")
        ctx.label("mode=" + mode, "maxlen=%s" % ml, "edge_words=%s" % ew)
    distinct = True
    for L in case["Ls"]:
        for (mode, s, ml, ew) in combos:
            mats, words, exp = check_call(ctx, rep, H, F, model, start, lk, L, mode, s, ml, ew)
            if len(exp) > 1:
                ctx.label("several-words")
            if H.exact and distinct and len(exp) > 1:
                ims = {}
                for p in exp:
                    t = sum((tokens_of_label(lk, lab) for lab in p), ())
                    ims.setdefault(H.image(t)[2], set()).add(t)
                if any(len(v) > 1 for v in ims.values()):
                    distinct = False
    if H.exact and distinct:
        ctx.label("images-distinct")


# --- exhaustive small automata ---------------------------------------------
def small_automata(max_n, max_k):
    for n in range(1, max_n + 1):
        for k in range(1, max_k + 1):
            slots = [(v, li) for v in range(n) for li in range(k)]
            for targets in itertools.product(range(-1, n), repeat=len(slots)):
                edges = [[v, li, h] for (v, li), h in zip(slots, targets) if h >= 0]
                yield dict(n=n, start=0, labels=["a", "B"][:k], edges=edges, vn="int",
                           route=0, hide=False)


def exhaustive_accept(modes, maxlens):
    def make(tier):
        max_n, L = (2, 3) if tier == "quick" else (3, 4)
        cases = [dict(aut=aut, rep=dict(kind="sanov", k=2, dt="float"), lk="single",
                      Ls=list(range(L + 1)), modes=list(modes), maxlens=list(maxlens))
                 for aut in small_automata(max_n, 2)]
        return [("all deterministic automata with <=%d states over <=2 labels, lengths 0..%d, "
                 "every option combination" % (max_n, L), cases)]
    return make


# ---------------------------------------------------------------------------
# agreement with the automaton's own enumeration
def body_fsa_enum(case, ctx):
    aut, lk = case["aut"], case["lk"]
    model, start = model_of(aut)
    H = HRep(case["rep"])
    rep = H.library(longest(model, case["Ls"], lk))
    F = build_fsa(aut, model, start)
    label_automaton(ctx, model, start, case["Ls"], lk)
    ew = edge_words_options(lk)[0]
    ctx.label("nondefault")
    for L in case["Ls"]:
        for s in [None] + list(model):
            lay = A.layers(model, start if s is None else s, L)
            want_fixed = collections.Counter(("".join(w), v) for (w, v) in lay[L])
            want_all = collections.Counter(("".join(w), v) for layer in lay for (w, v) in layer)
            got_fixed = collections.Counter(
                F.enumerate_fixed_length_paths(L, start_vertex=s, with_states=True))
            got_all = collections.Counter(F.enumerate_words(L, start_vertex=s, with_states=True))
            ctx.check(got_fixed == want_fixed,
                      "enumerate_fixed_length_paths(with_states) vs path model", L=L, start=s,
                      got=sorted(map(str, got_fixed.elements()))[:10],
                      want=sorted(map(str, want_fixed.elements()))[:10])
            ctx.check(got_all == want_all, "enumerate_words(with_states) vs path model", L=L,
                      start=s)
            plain = collections.Counter(F.enumerate_words(L, start_vertex=s))
            ctx.check(plain == collections.Counter(w for (w, _) in want_all.elements()),
                      "enumerate_words without states", L=L, start=s)
            # automaton_accepted from this start state agrees with the automaton's enumeration
            for ml, ref in ((True, got_all), (False, got_fixed)):
                kw = {} if s is None else {"start_state": s}
                _, words = rep.automaton_accepted(F, L, with_words=True, maxlen=ml,
                                                  edge_words=ew, **kw)
                ctx.check(collections.Counter(words) ==
                          collections.Counter(w for (w, _) in ref.elements()),
                          "automaton_accepted words vs FSA enumeration", L=L, start=s, maxlen=ml)
        # ... and filtered by end state
        all_pairs = list(F.enumerate_words(L, with_states=True))
        fixed_pairs = list(F.enumerate_fixed_length_paths(L, with_states=True))
        for t in model:
            for ml, pairs in ((True, all_pairs), (False, fixed_pairs)):
                _, words = rep.automaton_accepted(F, L, with_words=True, maxlen=ml,
                                                  edge_words=ew, end_state=t)
                ctx.check(collections.Counter(words) ==
                          collections.Counter(w for (w, v) in pairs if v == t),
                          "automaton_accepted(end_state) vs FSA enumeration filtered by end state",
                          L=L, end=t, maxlen=ml, got=sorted(words)[:10],
                          want=sorted(w for (w, v) in pairs if v == t)[:10])


# ---------------------------------------------------------------------------
# freely reduced enumeration
@st.composite
def free_case(draw):
    k = draw(st.integers(1, 4))
    if draw(st.integers(0, 2)) < 2:
        r = dict(kind="sanov", k=k, dt=draw(st.sampled_from(["float", "int"])))
    else:
        k = min(k, 3)
        dim = draw(st.integers(1, 3))
        r = dict(kind="float", k=k, dim=dim,
                 mats=[draw(gen.wellcond_matrix(dim, maxfactor=2.0)) for _ in range(k)])
    r["wrap"] = draw(st.sampled_from([None, None, "projective", "hyperbolic"]))
    Lmax = {1: 9, 2: 6, 3: 4, 4: 4}[k]
    L = Lmax - draw(st.integers(0, 2)) if draw(st.booleans()) else draw(st.integers(0, Lmax))
    # order in which the generators are assigned (the dict order of rep.generators)
    order = draw(st.permutations(list(range(k))))
    return dict(rep=r, L=L, order=list(order), spoil=draw(st.booleans()))


def body_free(case, ctx):
    H = HRep(case["rep"])
    k, L = case["rep"]["k"], case["L"]
    rep = representation.Representation()
    for i in case["order"]:
        nm = H.names[i]
        rep[nm] = H.lib_mats[nm].copy() if not (H.exact and max(H.norm.values()) ** max(L, 1)
                                                >= 2 ** 62) else H.lib_mats[nm].astype(float)
    rep = wrapped(rep, H.wrap)
    if case.get("spoil"):
        # the caller's own free automaton on the same generators, edited in place before
        # the representation is asked: the enumeration does not depend on it
        ctx.label("callers-free-automaton-edited")
        mine = fsa.free_automaton(list(H.names))
        mine.delete_vertex(H.names[0])
    lay = A.freely_reduced_words(H.names, L)
    ctx.label("rank=%d" % k, "L=%d" % L, "rep=" + case["rep"]["kind"], "class=%s" % H.wrap)
    if k >= 2 and L >= 2:
        ctx.label("nt")
    for ml in (True, False):
        want = [w for layer in (lay if ml else lay[L:]) for w in layer]
        mats, words = rep.freely_reduced_elements(L, maxlen=ml, with_words=True)
        mats = arr(mats)
        gc = collections.Counter(words)
        ctx.check(max(gc.values(), default=1) == 1, "each freely reduced word exactly once",
                  maxlen=ml, repeated=[w for w, c in gc.items() if c > 1][:5])
        ctx.check(set(words) == set(want), "freely_reduced_elements words = all freely reduced "
                  "words", maxlen=ml, L=L, missing=sorted(set(want) - set(words))[:8],
                  extra=sorted(set(words) - set(want))[:8])
        ctx.check(mats.shape == (len(want), H.dim, H.dim), "shape", got=mats.shape)
        W = np.zeros((len(words), H.dim, H.dim))
        tol = np.zeros(len(words))
        for i, w in enumerate(words):
            W[i], sc, _ = H.image(tuple(w))
            tol[i] = 1e-9 + 1e-11 * sc
        ctx.small("freely_reduced_elements: matrices[i] is the image of words[i]",
                  (mats.astype(float) - W) / tol[:, None, None], 1.0, maxlen=ml)
        m2 = arr(rep.freely_reduced_elements(L, maxlen=ml))
        greedy_match(ctx, "freely_reduced_elements(with_words=False)", m2.astype(float), W, tol)
        if H.exact and len(words) > 1:
            ims = {H.image(tuple(w))[2] for w in words}
            ctx.check(len(ims) == len(words), "harness: Sanov family is faithful on this ball")
            # hence the returned matrices are pairwise distinct
            got = {tuple(np.rint(m).astype(int).ravel().tolist()) for m in mats}
            ctx.check(len(got) == len(words), "distinct freely reduced words have distinct images")
    fw = list(rep.free_words_of_length(L))
    ctx.check(collections.Counter(fw) == collections.Counter(lay[L]),
              "free_words_of_length(L): every freely reduced word of length L once", L=L,
              got=sorted(fw)[:10])
    fl = list(rep.free_words_less_than(L))
    want = [w for layer in lay[:L] for w in layer]
    ctx.check(collections.Counter(fl) == collections.Counter(want),
              "free_words_less_than(L): every freely reduced word of length < L once", L=L)
    # the free automaton itself, against the harness list
    Ff = fsa.free_automaton(list(H.names))
    got = collections.Counter(Ff.enumerate_words(L))
    ctx.check(got == collections.Counter(w for layer in lay for w in layer),
              "free_automaton language")


# ---------------------------------------------------------------------------
# memo reuse
@st.composite
def memo_case(draw):
    lk = draw(st.sampled_from(["single", "single", "words", "words", "names"]))
    r = draw(rep_case(lk))
    if lk == "single" and draw(st.integers(0, 7)) == 0:
        aut = dict(free=draw(st.integers(1, min(3, r["k"]))))
    else:
        labels = draw(label_set(r, lk))
        aut = draw(automaton_case(labels, max_n=6))
    model, _ = model_of(aut)
    Lmax = max_len_for(model, 400, 6)
    steps = draw(st.lists(st.tuples(st.integers(0, Lmax), st.integers(-1, 7)), min_size=2,
                          max_size=8))
    return dict(aut=aut, rep=r, lk=lk, mode=draw(st.sampled_from(["start", "end"])),
                maxlen=draw(st.booleans()), with_words=draw(st.booleans()),
                edge_words=draw(st.sampled_from(edge_words_options(lk))),
                steps=[list(s) for s in steps])


def body_memo(case, ctx):
    aut, lk = case["aut"], case["lk"]
    model, start = model_of(aut)
    H = HRep(case["rep"])
    Ls = [s[0] for s in case["steps"]]
    rep = H.library(longest(model, Ls, lk))
    F = build_fsa(aut, model, start)
    verts = list(model)
    label_automaton(ctx, model, start, Ls, lk)
    ctx.label("nondefault", "mode=" + case["mode"], "maxlen=%s" % case["maxlen"],
              "with_words=%s" % case["with_words"])
    memo = {}
    seen = set()
    for (L, si) in case["steps"]:
        if si < 0 and case["mode"] == "start":
            mode, s = "default", None
        else:
            mode, s = case["mode"], verts[si % len(verts)]
        if (L, s) in seen:
            ctx.label("repeated-call")
        if any(l2 > L for (l2, _) in seen):
            ctx.label("shorter-after-longer")
        seen.add((L, s))
        mats, words, exp = check_call(ctx, rep, H, F, model, start, lk, L, mode, s,
                                      case["maxlen"], case["edge_words"], memo=memo,
                                      only_with_words=case["with_words"])
        # the same call without a memo
        kw = dict(maxlen=case["maxlen"], edge_words=case["edge_words"],
                  with_words=case["with_words"])
        if mode == "start":
            kw["start_state"] = s
        elif mode == "end":
            kw["end_state"] = s
        fresh = rep.automaton_accepted(F, L, **kw)
        if case["with_words"]:
            fm, fw = fresh
            ctx.check(collections.Counter(fw) == collections.Counter(words),
                      "memoised words == fresh words", L=L, state=s)
        else:
            fm = fresh
        fm = arr(fm, dtype=float)
        tol = np.full(len(fm), 1e-9) + 1e-11 * np.max(np.abs(fm), axis=(1, 2), initial=0.0) \
            if len(fm) else np.zeros(0)
        greedy_match(ctx, "memoised matrices == fresh matrices", arr(mats, dtype=float),
                     fm, tol)
    if len(memo):
        ctx.label("memo-populated")


# ---------------------------------------------------------------------------
# builtin automata
def builtin_names():
    return sorted(os.listdir(A.builtin_dir(REPO)))


_BUILTIN_CACHE = {}


def builtin_model(name):
    if name not in _BUILTIN_CACHE:
        _BUILTIN_CACHE[name] = A.read_builtin_model(os.path.join(A.builtin_dir(REPO), name))
    return _BUILTIN_CACHE[name]


def builtin_rep(names):
    lower = sorted({n.lower() for n in names})
    k = len(lower)
    if lower != list(LETTERS[:k]):
        raise HarnessError("unexpected builtin alphabet %r" % names)
    return dict(kind="sanov", k=k, dt="float", six=True)


def body_builtin(case, ctx):
    name = case["file"]
    model, start, names = builtin_model(name)
    listed = set(fsa.list_builtins())
    ctx.check(name in listed, "list_builtins names the file", file=name)
    F = fsa.load_builtin(name)
    H = HRep(builtin_rep(names))
    rep = H.library(case["L"])
    verts = list(model)
    L = case["L"]
    label_automaton(ctx, model, start, [L], "single")
    ctx.label("file=" + name)
    combos = [("default", None, True, True), ("default", None, False, True),
              ("default", None, True, False)]
    for (mode, si, ml, ew) in case.get("combos", []):
        combos.append((mode, verts[si % len(verts)], bool(ml), bool(ew)))
        ctx.label("nondefault", "mode=" + mode)
    for (mode, s, ml, ew) in combos:
        if not ml or not ew:
            ctx.label("nondefault")
        check_call(ctx, rep, H, F, model, start, "single", L, mode, s, ml, ew)


@st.composite
def builtin_case(draw):
    name = draw(st.sampled_from(builtin_names()))
    model, start, names = builtin_model(name)
    Lmax = max(1, max_len_for(model, 1500, 7))
    L = draw(st.integers(0, Lmax))
    combos = draw(st.lists(st.tuples(st.sampled_from(["start", "end", "end"]),
                                     st.integers(0, 500), st.booleans(), st.booleans()),
                           min_size=1, max_size=4))
    return dict(file=name, L=L, combos=[list(c) for c in combos])


def exhaustive_builtin(tier):
    cases = []
    cap = 400 if tier == "quick" else 4000
    for name in builtin_names():
        model, start, names = builtin_model(name)
        Lmax = max(1, max_len_for(model, cap, 8))
        for L in range(Lmax + 1):
            combos = []
            if tier != "quick" or L == Lmax:
                # every end state reachable within 2 steps and the start vertex
                near = [v for (_, v) in sum(A.layers(model, start, 2), [])]
                for v in sorted(set(near))[:12]:
                    combos.append(["end", list(model).index(v), True, True])
                    combos.append(["start", list(model).index(v), False, True])
            cases.append(dict(file=name, L=L, combos=combos))
    return [("all builtin automata, default options, lengths 0..Lmax(path cap %d)" % cap, cases)]


# ---------------------------------------------------------------------------
# automaton_multiple outputs (multi-letter labels produced by the library)
@st.composite
def multiple_case(draw):
    base = "free" if draw(st.integers(0, 2)) == 0 else "random"
    k = draw(st.sampled_from([2, 2, 3]))
    if base == "free":
        rank = draw(st.integers(1, 2))
        r = dict(kind="sanov", k=rank, dt="float")
        aut = dict(free=rank)
        model, start = free_model(rank)
    else:
        r = draw(rep_case("single", max_k=3))
        lower_only = draw(st.booleans())
        letters = rep_letters(r)
        if lower_only:
            letters = letters[:len(letters) // 2]
        nl = draw(st.integers(1, min(3, len(letters))))
        labels = draw(st.permutations(letters))[:nl]
        aut = draw(automaton_case(labels, max_n=5, dense=True))
        if aut["n"] > 1 and draw(st.booleans()):
            # a start vertex nothing leads back to (so that the k-fold automaton has a source)
            aut["edges"] = [e for e in aut["edges"] if e[2] != aut["start"]]
        model, start = model_of(aut)
    mk = A.multiple_model(model, start, k)
    mk = {v: {"".join(w): h for w, h in nb.items()} for v, nb in mk.items()}
    Lmax = max_len_for(mk, 500, 4)
    L = Lmax - draw(st.integers(0, min(1, Lmax))) if draw(st.booleans()) else \
        draw(st.integers(0, Lmax))
    return dict(aut=aut, rep=r, k=k, L=L)


def free_model(rank):
    gens = list(LETTERS[:rank]) + [g.upper() for g in LETTERS[:rank]]
    model = collections.OrderedDict()
    for g in [""] + gens:
        model[g] = collections.OrderedDict((h, h) for h in gens if A.inv_letter(h) != g)
    return model, ""


def body_multiple(case, ctx):
    aut, k, L = case["aut"], case["k"], case["L"]
    H = HRep(case["rep"])
    rep = H.library(L * k * 3)
    if "free" in aut:
        model, start = free_model(aut["free"])
        base = fsa.free_automaton(list(LETTERS[:aut["free"]]))
        ctx.label("base=free")
    else:
        model, start = model_of(aut)
        base = build_fsa(aut, model, start)
        ctx.label("base=random")
    Fk = base.automaton_multiple(k)
    mk = A.multiple_model(model, start, k)
    mk = collections.OrderedDict((v, collections.OrderedDict(("".join(w), h)
                                                             for w, h in nb.items()))
                                 for v, nb in mk.items())
    label_automaton(ctx, mk, start, [L], "words")
    ctx.label("k=%d" % k, "nondefault")
    ctx.check(set(Fk.vertices()) == set(mk), "vertices of automaton_multiple(k) = states "
              "reachable by k-step jumps", got=sorted(map(str, Fk.vertices())),
              want=sorted(map(str, mk)))
    verts = list(mk)
    for (mode, s, ml, ew) in combos_for(["default", "start", "end"], verts, [True, False],
                                        [True]):
        check_call(ctx, rep, H, Fk, mk, start, "words", L, mode, s, ml, ew)
    # edge_words=False: the k-letter labels read as *generator names* of a second
    # representation whose generators are the products
    labs = sorted({lab for nb in mk.values() for lab in nb})
    if labs and all(lab == lab.lower() for lab in labs):
        rep2 = representation.Representation()
        for lab in labs:
            rep2[lab] = np.array(H.image(tuple(lab))[0])
        rep2 = wrapped(rep2, H.wrap)
        ctx.label("edge_words=False via product generators")
        for (mode, s, ml) in [("default", None, True), ("default", None, False)] + \
                [("end", v, True) for v in verts] + [("start", v, False) for v in verts]:
            kw = {}
            if mode == "start":
                kw["start_state"] = s
            if mode == "end":
                kw["end_state"] = s
            m1, w1 = rep.automaton_accepted(Fk, L, maxlen=ml, with_words=True, **kw)
            m2, w2 = rep2.automaton_accepted(Fk, L, maxlen=ml, with_words=True,
                                             edge_words=False, **kw)
            ctx.check(list(w1) == list(w2), "same words with edge_words=False", mode=mode)
            m1 = arr(m1, dtype=float)
            m2 = arr(m2, dtype=float)
            ctx.close("edge_words=False on product generators == edge_words=True", m2, m1,
                      rtol=1e-9, atol=1e-9)


# ---------------------------------------------------------------------------
def _law(name, strategy, body, nontrivial, **kw):
    law = Law(name, strategy, body, nontrivial, **kw)
    law.ex_shards = {"quick": 2, "thorough": 16}
    return law


LAWS = [
    _law("accepted_from_start_vs_path_model", accept_case(["default", "start"]), body_accept, nt,
         quick=200, thorough=1500, shards=(2, 8),
         exhaustive=exhaustive_accept(["default", "start"], [True, False])),
    _law("accepted_to_end_state_maxlen_vs_path_model", accept_case(["end"], maxlens=(True,)),
         body_accept, nt, quick=200, thorough=1500, shards=(2, 8),
         exhaustive=exhaustive_accept(["end"], [True])),
    _law("accepted_to_end_state_exact_length_vs_path_model",
         accept_case(["end"], maxlens=(False,)), body_accept, nt, quick=200, thorough=1500,
         shards=(2, 8), exhaustive=exhaustive_accept(["end"], [False])),
    _law("agrees_with_fsa_enumeration", accept_case(["default"], cap=300), body_fsa_enum, nt,
         quick=400, thorough=2000, shards=(2, 4)),
    _law("freely_reduced_each_once", free_case(), body_free, lambda l: "nt" in l, quick=60,
         thorough=400, shards=(1, 4)),
    _law("memo_reuse_history", memo_case(), body_memo, nt, quick=150, thorough=1500,
         shards=(2, 6)),
    _law("builtin_automata", builtin_case(), body_builtin, lambda l: "nondefault" in l, quick=30,
         thorough=300, shards=(1, 4), exhaustive=exhaustive_builtin),
    _law("automaton_multiple_outputs", multiple_case(), body_multiple, nt, quick=120,
         thorough=1000, shards=(1, 4)),
]
