"""C11 - derived data stays coherent with primary data; queries do not move objects.

Histories are JSON lists of uniform steps {op, i, j, k, vals}; every index is
interpreted modulo the current state, so every list is a valid history (shrinks
and replays as a plain value).  After every step every object in the pool is
compared with a recomputation of its derived data from its primary data, done
by the harness alone."""
import copy
import math
import itertools
import numpy as np
from hypothesis import strategies as st

from ..core import Law
from .. import gen
from ..gen import fl
from ..num import mink, proj_dist
from ..oracles import hyp as HY

from geometry_tools import hyperbolic, projective

RULE = ("cases: a class among {hyperbolic Polygon, projective Polygon, Segment, "
        "TangentVector, (controls) hyperbolic Point, PointPair}, dimension 2 or 3, and a "
        "history of up to 12 (quick) / 25 (thorough) steps drawn from {construct from array, "
        "construct from object, stack a list of objects, deepcopy, shallow copy (read only), "
        "apply an isometry / projective map, reshape, flatten_to_unit, index, item assignment "
        "(array or object), combine, astype, and 14 read-only queries}; indices are taken "
        "modulo the pool / shape.  After every step: stored aux data == harness recomputation "
        "from proj data (projectively, row by row), shapes consistent, and the Klein points of "
        "every object and of every array handed to the library are unchanged by queries.  "
        "Bounded-exhaustive: all op sequences of depth <= 3 (quick) / 4 (thorough) with fixed "
        "numeric payloads.  non-trivial = history on a composite (rank >= 1) containing a "
        "mutation (setitem / combine / apply / astype / reshape / flatten / stack) followed by a "
        "read of derived data; distinct = distinct JSON history.")

ASSUMPTIONS = [
    "hyperbolic objects are only moved by isometries (ideal endpoints / projected vectors are "
    "equivariant under O(n,1) only); projective polygons by general invertible maps",
    "a shallow copy.copy() shares arrays with the original by Python semantics: it is read, "
    "never mutated in place",
    "after astype(float32) the object's tolerance is 2e-4",
]

CLAIM = dict(
    text=("Model-based history search: random and bounded-exhaustive operation histories on "
          "objects that carry derived data, with the derived data recomputed independently "
          "after every step and every view of the caller's arrays compared before/after "
          "queries. Refutes, never proves."),
    technique="stateful property-based testing (Hypothesis-generated operation histories "
              "against a harness recomputation of derived data; bounded-exhaustive short "
              "histories)",
)

CLASSES = ["hpolygon", "ppolygon", "segment", "tangent", "hpoint", "hpointpair"]
OPS = ["construct", "from_object", "stack", "deepcopy", "shallowcopy", "apply", "reshape",
       "flatten", "getitem", "setitem_array", "setitem_object", "combine", "astype",
       "q_coords", "q_distance", "q_origin_to", "q_tangent", "q_circle", "q_edges",
       "q_misc", "construct_int"]
MUTATORS = {"apply", "reshape", "flatten", "setitem_array", "setitem_object", "combine",
            "astype", "stack", "getitem"}
GOLDEN = 2.399963229728653


# ---------------------------------------------------------------------------
# numeric payload -> geometry
def klein_pts(vals, count, n, off=0):
    """`count` interior points of H^n (Klein), pairwise distinct for generic vals and for
    all-zero vals alike (the angle advances by the golden angle with the index)."""
    out = np.zeros((count, n))
    m = len(vals)
    for c in range(count):
        a = vals[(off + 3 * c) % m]
        b = vals[(off + 3 * c + 1) % m]
        z = vals[(off + 3 * c + 2) % m]
        th = math.pi * a + GOLDEN * (c + off)
        r = 0.12 + 0.75 * abs(b)
        if n == 2:
            out[c] = [r * math.cos(th), r * math.sin(th)]
        else:
            zz = 0.8 * z
            s = math.sqrt(max(1 - zz * zz, 0.0))
            out[c] = [r * s * math.cos(th), r * s * math.sin(th), r * zz]
    return out


def far_pt(vals, n):
    th = math.pi * vals[0]
    v = np.zeros((1, n))
    v[0, 0], v[0, 1] = 0.93 * math.cos(th), 0.93 * math.sin(th)
    return v


def proj_of(k):
    k = np.asarray(k, dtype=float)
    return np.concatenate([np.ones(k.shape[:-1] + (1,)), k], axis=-1)


def isometry_from(vals, n):
    """an element of O(n,1) as a ROW matrix, built by the harness: boost * rotation"""
    s = 0.9 * vals[0]
    th = math.pi * vals[1 % len(vals)]
    B = np.eye(n + 1)
    B[0, 0] = B[1, 1] = math.cosh(s)
    B[0, 1] = B[1, 0] = math.sinh(s)
    R = np.eye(n + 1)
    R[1:3, 1:3] = [[math.cos(th), -math.sin(th)], [math.sin(th), math.cos(th)]]
    M = B @ R
    if n == 3:
        ph = math.pi * vals[2 % len(vals)]
        R2 = np.eye(4)
        R2[2:4, 2:4] = [[math.cos(ph), -math.sin(ph)], [math.sin(ph), math.cos(ph)]]
        M = M @ R2 @ B
    if vals[3 % len(vals)] < -0.5:          # orientation reversing now and then
        M[:, -1] *= -1
    return M


def projmap_from(vals, n):
    M = np.eye(n + 1)
    t = 0
    for i in range(n + 1):
        for j in range(n + 1):
            if i != j:
                M[i, j] = 0.35 * vals[t % len(vals)]
                t += 1
    return M + 0.2 * np.diag([vals[(t + i) % len(vals)] for i in range(n + 1)])


# ---------------------------------------------------------------------------
class Spec:
    """what one class looks like: constructor, unit shape, aux recomputation"""

    def __init__(self, name, n, k):
        self.name, self.n, self.k = name, n, k
        self.unit = {"hpolygon": (k, n + 1), "ppolygon": (k, n + 1), "segment": (2, n + 1),
                     "tangent": (2, n + 1), "hpoint": (n + 1,),
                     "hpointpair": (2, n + 1)}[name]
        self.cls = {"hpolygon": hyperbolic.Polygon, "ppolygon": projective.Polygon,
                    "segment": hyperbolic.Segment, "tangent": hyperbolic.TangentVector,
                    "hpoint": hyperbolic.Point, "hpointpair": hyperbolic.PointPair}[name]
        self.hyperbolic = name != "ppolygon"
        self.rows = int(np.prod(self.unit[:-1])) if len(self.unit) > 1 else 1

    def data(self, vals, shape, off=0):
        """primary data array of composite shape `shape` from the payload"""
        cnt = int(np.prod(shape)) if len(shape) else 1
        K = klein_pts(vals, cnt * self.rows, self.n, off)
        P = proj_of(K).reshape(tuple(shape) + self.unit)
        if self.name in ("segment", "hpolygon") and vals[6] > 0.5 and cnt >= 1:
            # an endpoint / vertex exactly at the origin of the ball (1, 0, .., 0): exact zeros
            # in the quadratic for the ideal endpoints of the edges through it
            flat = P.reshape((cnt, self.rows, self.n + 1))
            far = np.sum(flat[0, 0, 1:] ** 2) > 1e-4 * flat[0, 0, 0] ** 2
            if far:
                flat[0, 1, :] = 0.0
                flat[0, 1, 0] = 1.0
            P = flat.reshape(tuple(shape) + self.unit)
        if self.name in ("segment", "hpolygon", "hpoint", "hpointpair") and \
                0.1 < vals[5] <= 0.6 and cnt >= 1:
            # an endpoint / vertex exactly on the light cone ((5, 3, 4), Minkowski norm exactly
            # 0): in-place normalisation has nothing to divide by there and leaves it alone
            flat = P.reshape((cnt, self.rows, self.n + 1))
            flat[0, 0, :] = 0.0
            flat[0, 0, :3] = [5.0, 3.0, 4.0]
            P = flat.reshape(tuple(shape) + self.unit)
        if self.name == "segment" and int(abs(vals[0]) * 773) % 5 == 0 and cnt >= 1:
            # a very short segment (3e-5): its ideal endpoints are as well defined as those
            # of a long one, the discriminant behind them is just small
            flat = P.reshape((cnt, self.rows, self.n + 1))
            if abs(flat[0, 0, 0]) > 0 and np.sum(flat[0, 0, 1:] ** 2) < 0.8 * flat[0, 0, 0] ** 2:
                flat[0, 1, :] = flat[0, 0, :]
                flat[0, 1, 1] += 3e-5 * flat[0, 0, 0]
            P = flat.reshape(tuple(shape) + self.unit)
        if int(abs(vals[1]) * 1009) % 3 == 0:
            # other representatives of the same points: negative and non-unit factors, row by
            # row (for a tangent vector: of the basepoint - the pair (-p, v) is the direction
            # -v at p, and stays that direction whatever is queried)
            f = np.array([-1.7, 0.6, -0.4, 2.5, -1.0])
            flat = P.reshape((-1, self.n + 1))
            flat = flat * f[np.arange(flat.shape[0]) % 5][:, None]
            P = flat.reshape(P.shape)
        if self.name == "tangent":
            # second row is an arbitrary ambient vector (not a point)
            V = P.copy()
            v = klein_pts(vals, cnt, self.n, off + 7)
            amb = np.concatenate([0.3 * v[:, :1], v], axis=-1).reshape(tuple(shape) +
                                                                     (self.n + 1,))
            if vals[8] > 0.4:
                # a nearly tangent ambient vector: its Minkowski projection differs from it by
                # a few 1e-4 of the basepoint - small, and exactly what the derived data is
                # there to remove
                pt = V[..., 0, :]
                amb = amb - (mink(amb, pt) / mink(pt, pt))[..., None] * pt
                amb = amb + (4e-4 * (1 + abs(vals[7]))) * pt / np.sqrt(-mink(pt, pt))[..., None]
            V[..., 1, :] = amb
            return V
        return P

    def build(self, arr):
        return self.cls(arr)

    def int_data(self, vals, shape):
        """integer-typed primary data (int64): points (8, a, b, ..) with |a|, |b| <= 3 spread
        around a circle - timelike, and pairwise distinct within a unit by construction"""
        cnt = int(np.prod(shape)) if len(shape) else 1
        rows = max(self.rows, 1)
        out = np.zeros((cnt, rows, self.n + 1), dtype=np.int64)
        phi = math.pi * vals[0]
        for u in range(cnt):
            for r in range(rows):
                a = phi + 0.37 * u + 2 * math.pi * r / max(rows, 2)
                out[u, r, 0] = 8
                out[u, r, 1] = int(round(3 * math.cos(a)))
                out[u, r, 2] = int(round(3 * math.sin(a)))
                if self.n >= 3:
                    out[u, r, 3] = int(round(2 * vals[(u + r) % len(vals)]))
        if self.name == "tangent":
            for u in range(cnt):
                v = [int(round(3 * vals[(u + 1 + j) % len(vals)])) for j in range(self.n)]
                if not any(v):
                    v[0] = 1
                out[u, 1, 0] = 0
                out[u, 1, 1:] = v
        return out.reshape(tuple(shape) + self.unit)


def ideal_endpoints_of(P):
    """harness: the two null directions of the line through the two (timelike) rows of
    P[..., 2, m]; returns (..., 2, m)"""
    a = P[..., 0, :] / P[..., 0, :1]
    b = P[..., 1, :] / P[..., 1, :1]
    d = b - a
    # <a + t d, a + t d> = 0
    A = mink(d, d)
    B = 2 * mink(a, d)
    C = mink(a, a)
    disc = np.sqrt(np.maximum(B * B - 4 * A * C, 0.0))
    t1 = (-B + disc) / (2 * A)
    t2 = (-B - disc) / (2 * A)
    return np.stack([a + t1[..., None] * d, a + t2[..., None] * d], axis=-2)


def unordered_pair_dist(X, Y):
    d1 = np.maximum(proj_dist(X[..., 0, :], Y[..., 0, :]), proj_dist(X[..., 1, :], Y[..., 1, :]))
    d2 = np.maximum(proj_dist(X[..., 0, :], Y[..., 1, :]), proj_dist(X[..., 1, :], Y[..., 0, :]))
    return np.minimum(d1, d2)


def check_object(ctx, spec, obj, tol, where):
    """the coherence invariant, stated by the harness"""
    P = np.asarray(obj.proj_data)
    ctx.check(type(obj) is spec.cls, "object keeps its class", where=where,
              got=type(obj).__name__)
    ctx.check(P.shape[P.ndim - len(spec.unit):] == spec.unit, "unit shape of primary data",
              where=where, got=P.shape, want=spec.unit)
    shape = P.shape[:P.ndim - len(spec.unit)]
    ctx.check(tuple(obj.shape) == tuple(shape), "obj.shape is the composite shape",
              where=where, got=obj.shape, want=shape)
    A = obj.aux_data
    if spec.name in ("hpoint", "hpointpair"):
        ctx.check(A is None, "no aux data for an aux-free class", where=where)
        return
    ctx.check(A is not None, "aux data present", where=where)
    A = np.asarray(A)
    Pr = np.real(P) if np.iscomplexobj(P) else P
    if spec.name in ("hpolygon", "ppolygon"):
        want_shape = shape + (spec.k, 2, spec.n + 1)
        ctx.check(A.shape == want_shape, "edge array shape", where=where, got=A.shape,
                  want=want_shape)
        nxt = np.roll(P, -1, axis=-2)
        ctx.small("edge i starts at vertex i (%s)" % where, proj_dist(A[..., 0, :], P), tol)
        ctx.small("edge i ends at vertex i+1 (%s)" % where, proj_dist(A[..., 1, :], nxt), tol)
    elif spec.name == "segment":
        want_shape = shape + (2, spec.n + 1)
        ctx.check(A.shape == want_shape, "ideal endpoint array shape", where=where,
                  got=A.shape, want=want_shape)
        want = ideal_endpoints_of(Pr.astype(float))
        Ar = np.real(A).astype(float)
        # (the ideal endpoints of a very short segment are an extrapolation: rounding of the
        # endpoints is amplified by (size / length)^2, for the library and for the harness)
        Kp = Pr[..., 1:].astype(float) / Pr[..., :1].astype(float)
        ln2 = np.sum((Kp[..., 0, :] - Kp[..., 1, :]) ** 2, axis=-1)
        amp = np.maximum(1.0, 1e-7 / np.maximum(ln2, 1e-300))
        ctx.small("ideal endpoints are those of the line through the endpoints (%s)" % where,
                  unordered_pair_dist(Ar, want) / amp, max(tol, 1e-7) * 30)
        ctx.small("ideal endpoints lightlike (%s)" % where,
                  mink(Ar, Ar) / np.sum(Ar * Ar, axis=-1) / amp[..., None], max(tol, 1e-7) * 30)
    elif spec.name == "tangent":
        want_shape = shape + (2, spec.n + 1)
        ctx.check(A.shape == want_shape, "tangent aux shape", where=where, got=A.shape,
                  want=want_shape)
        p = Pr[..., 0, :].astype(float)
        v = Pr[..., 1, :].astype(float)
        w = v - (mink(v, p) / mink(p, p))[..., None] * p
        Ar = np.real(A).astype(float)
        ctx.small("aux basepoint is the basepoint (%s)" % where, proj_dist(Ar[..., 0, :], p),
                  tol)
        # "equals, projectively": read-only queries normalise the stored rows in place
        # (positive rescaling), so rows are compared as projective classes, plus the
        # orientation of the pair (basepoint, vector), which is what makes it a direction
        nw = np.sqrt(np.sum(w * w, axis=-1))
        na = np.sqrt(np.sum(Ar[..., 1, :] ** 2, axis=-1))
        ok = nw > 1e-9
        ctx.small("aux vector is (projectively) the Minkowski projection of the vector (%s)"
                  % where, np.where(ok, proj_dist(Ar[..., 1, :], w), 0.0),
                  max(tol, 1e-9) * 50)
        lam = np.sum(Ar[..., 0, :] * p, axis=-1)
        mu = np.sum(Ar[..., 1, :] * w, axis=-1)
        ctx.check(np.all(np.where(ok, lam * mu, 1.0) > 0), "aux (basepoint, vector) pair has "
                  "the orientation of the primary pair (%s)" % where, lam=lam, mu=mu)
        ctx.small("aux vector is tangent (orthogonal to the basepoint) (%s)" % where,
                  np.where(ok, mink(Ar[..., 1, :], p) /
                           (np.sqrt(np.sum(p * p, axis=-1)) * (na + 1e-300)), 0.0),
                  max(tol, 1e-9) * 50)


def check_observed(ctx, spec, obj, tol, where):
    """the same invariant at the documented observation points (get_edges,
    ideal_endpoint_coords): what the accessor hands out is what the primary data says now -
    an accessor that remembers an earlier answer is caught here"""
    P = np.asarray(obj.proj_data)
    Pr = (np.real(P) if np.iscomplexobj(P) else P).astype(float)
    shape = P.shape[:P.ndim - len(spec.unit)]
    if spec.name in ("hpolygon", "ppolygon"):
        ed = obj.get_edges()
        E = np.asarray(ed.proj_data)
        E = (np.real(E) if np.iscomplexobj(E) else E).astype(float)
        ctx.check(E.shape == shape + (spec.k, 2, spec.n + 1), "get_edges(): shape",
                  where=where, got=E.shape)
        ctx.small("get_edges(): edge i starts at vertex i (%s)" % where,
                  proj_dist(E[..., 0, :], Pr), max(tol, 1e-9))
        ctx.small("get_edges(): edge i ends at vertex i+1 (%s)" % where,
                  proj_dist(E[..., 1, :], np.roll(Pr, -1, axis=-2)), max(tol, 1e-9))
        if spec.name == "hpolygon":
            got = np.asarray(ed.ideal_endpoint_coords("klein"), dtype=float)
            w = ideal_endpoints_of(E)
            want = w[..., 1:] / w[..., :1]
            d1 = np.abs(got - want).max(axis=(-1, -2))
            d2 = np.abs(got - want[..., ::-1, :]).max(axis=(-1, -2))
            ctx.small("get_edges().ideal_endpoint_coords() are the ideal points of the "
                      "current edges (%s)" % where, np.minimum(d1, d2), max(tol, 1e-7) * 30)
        vs = obj.get_vertices()
        ctx.close("get_vertices() returns the current vertices (%s)" % where,
                  np.asarray(vs.proj_data), P, rtol=0, atol=0)
    elif spec.name == "segment":
        got = np.asarray(obj.ideal_endpoint_coords("klein"), dtype=float)
        w = ideal_endpoints_of(Pr)
        want = w[..., 1:] / w[..., :1]
        d1 = np.abs(got - want).max(axis=(-1, -2))
        d2 = np.abs(got - want[..., ::-1, :]).max(axis=(-1, -2))
        # (same conditioning as in check_object: very short segments extrapolate)
        Kp_ = Pr[..., 1:] / Pr[..., :1]
        amp_ = np.maximum(1.0, 1e-7 / np.maximum(np.sum((Kp_[..., 0, :] - Kp_[..., 1, :]) ** 2,
                                                        axis=-1), 1e-300))
        ctx.small("ideal_endpoint_coords() are the ideal points of the current line (%s)" %
                  where, np.minimum(d1, d2) / amp_, max(tol, 1e-7) * 30)
        ep = np.asarray(obj.get_endpoints().proj_data)
        ctx.close("get_endpoints() returns the current endpoints (%s)" % where, ep, P, rtol=0,
                  atol=0)
        # the same ideal endpoints asked for in the projective model (homogeneous rows)
        gp = np.real(np.asarray(obj.ideal_endpoint_coords("projective"))).astype(float)
        ctx.small("ideal_endpoint_coords('projective') are the ideal points of the current "
                  "line (%s)" % where, unordered_pair_dist(gp, w) / amp_, max(tol, 1e-7) * 30)
    elif spec.name == "tangent":
        # the accessors: .point is the basepoint, .vector the *projected* vector (tangent at
        # the basepoint), a positive multiple of the projection of the primary vector
        p = Pr[..., 0, :].astype(float)
        v = Pr[..., 1, :].astype(float)
        w = v - (mink(v, p) / mink(p, p))[..., None] * p
        got = np.real(np.asarray(obj.vector)).astype(float)
        nw = np.sqrt(np.sum(w * w, axis=-1))
        ok = nw > 1e-9
        ctx.small(".vector is the projection of the primary vector (%s)" % where,
                  np.where(ok, proj_dist(got, w), 0.0), max(tol, 1e-9) * 50)
        ctx.check(np.all(np.where(ok, np.sum(got * w, axis=-1), 1.0) > 0),
                  ".vector points the way the primary vector does (%s)" % where)
        ctx.small(".point is the basepoint (%s)" % where,
                  proj_dist(np.real(np.asarray(obj.point)).astype(float), p), max(tol, 1e-12))


def klein_of(P):
    P = np.asarray(P)
    P = np.real(P).astype(float) if np.iscomplexobj(P) else P.astype(float)
    return P[..., 1:] / P[..., :1]


class Entry:
    def __init__(self, obj, tol=1e-9):
        self.obj = obj
        self.tol = tol


def valid_reshapes(shape):
    s = int(np.prod(shape)) if len(shape) else 1
    out = [(s,), (1, s), (s, 1)]
    for a in range(2, s):
        if s % a == 0:
            out.append((a, s // a))
    if s == 1:
        out.append(())
        out.append((1, 1))
    return out


SHAPES = [(), (2,), (1,), (3,), (2, 2), (1, 2), (2, 1), (2, 3)]


def run_history(case, ctx):
    name, n, k = case["cls"], case["n"], case["k"]
    spec = Spec(name, n, k)
    pool = []
    kept = []        # (array handed to the library, private copy)
    kept_exact = []  # the same for arrays of model coordinates: compared entry by entry
    labels_mut = False
    read_after_mut = False
    max_rank = 0

    def add(entry, slot):
        if len(pool) < 4:
            pool.append(entry)
        else:
            pool[slot % 4] = entry

    def snapshot():
        return [(klein_of(e.obj.proj_data) if spec.name != "tangent"
                 else np.asarray(e.obj.proj_data, dtype=complex).copy(), e) for e in pool]

    def check_unmoved(snap, what):
        for (k0, e) in snap:
            if spec.name == "tangent":
                P0, P1 = k0, np.asarray(e.obj.proj_data, dtype=complex)
                ctx.check(P0.shape == P1.shape, "query %s keeps the shape" % what)
                ctx.small("query %s does not move the basepoint" % what,
                          proj_dist(np.real(P1[..., 0, :]), np.real(P0[..., 0, :])), e.tol)
                # the second stored row (an ambient vector whose Minkowski projection is the
                # direction) may be rescaled by a positive factor, nothing else: a query that
                # replaced it by its projection would change the point of projective space
                # that the row - and a caller's array sharing its memory - represents
                v0, v1 = np.real(P0[..., 1, :]), np.real(P1[..., 1, :])
                ctx.small("query %s does not move the stored vector row (as a projective "
                          "point)" % what, proj_dist(v1, v0), max(e.tol, 1e-12) * 10)
                ctx.check(np.all(np.sum(v0 * v1, axis=-1) > 0),
                          "query %s keeps the sign of the stored vector row" % what)
            else:
                k1 = klein_of(e.obj.proj_data)
                ctx.check(k0.shape == k1.shape, "query %s keeps the shape" % what)
                ctx.close("query %s does not move the object's points" % what, k1, k0,
                          rtol=0, atol=max(e.tol, 1e-12) * 10)
        for (arr, priv) in kept_exact:
            ctx.check(arr.shape == priv.shape and np.array_equal(arr, priv),
                      "caller's array of model coordinates is unchanged (%s)" % what,
                      got=arr, want=priv)
        for (arr, priv) in kept:
            ctx.check(arr.shape == priv.shape, "caller array keeps its shape")
            if spec.name == "tangent":
                ctx.small("caller's array still represents the same basepoints (%s)" % what,
                          proj_dist(arr[..., 0, :], priv[..., 0, :]), 1e-12)
                ctx.small("caller's array still holds the same vector row up to a positive "
                          "factor (%s)" % what, proj_dist(arr[..., 1, :], priv[..., 1, :]), 1e-11)
                ctx.check(np.all(np.sum(arr[..., 1, :] * priv[..., 1, :], axis=-1) > 0),
                          "caller's vector row keeps its sign (%s)" % what)
            else:
                ctx.close("caller's array still represents the same points (%s)" % what,
                          klein_of(arr), klein_of(priv), rtol=0, atol=1e-11)

    LAYOUTS = ["plain", "fortran", "fortran", "noncontiguous", "negstride", "plain"]

    def fresh(vals, shape, off=0, keep=True):
        arr = spec.data(vals, shape, off)
        # (the caller's array may be laid out column-major - a grid built with meshgrid and
        # .T - or be a strided view; readonly is left out because `kept` arrays are compared
        # and queries normalise the library's own copy only)
        arr = gen.flavoured(arr, LAYOUTS[int(abs(vals[2]) * 997) % len(LAYOUTS)])
        if keep is None:
            return arr
        if keep:
            kept.append((arr, arr.copy()))
            return arr
        return arr.copy()

    for t, step in enumerate(case["steps"]):
        op = OPS[step["op"] % len(OPS)]
        vals = step["vals"]
        i, j, kk = step["i"], step["j"], step["k"]
        if not pool and op != "construct":
            op = "construct"
        ctx.label("op=" + op)
        if op == "construct":
            shape = SHAPES[kk % len(SHAPES)]
            arr = fresh(vals, shape, off=i % 5, keep=None)
            Kc = klein_of(arr) if spec.name not in ("tangent", "ppolygon") else None
            if Kc is not None and int(abs(vals[3]) * 991) % 3 == 0 and \
                    np.all(np.sum(Kc * Kc, axis=-1) < 0.97):
                # the points given by their coordinates in another model, the way a user who
                # works in the disk or the half-plane builds them: the array of coordinates
                # is the caller's and stays exactly what it was
                model = ("klein", "poincare", "halfspace")[int(abs(vals[4]) * 887) % 3]
                ctx.label("construct-from-" + model)
                marr = gen.flavoured(np.array(HY.klein_to_model(Kc, model), dtype=float),
                                     LAYOUTS[int(abs(vals[2]) * 997) % len(LAYOUTS)])
                kept_exact.append((marr, marr.copy()))
                pts = hyperbolic.Point(marr, model=model)
                obj = pts if spec.name == "hpoint" else spec.cls(pts)
                ctx.check(np.array_equal(marr, kept_exact[-1][1]), "constructing from model "
                          "coordinates leaves the caller's array unchanged", model=model)
                ctx.close("object built from %s coordinates has those points" % model,
                          klein_of(obj.proj_data), Kc, rtol=0, atol=1e-12)
                add(Entry(obj), j)
            else:
                kept.append((arr, arr.copy()))
                obj = spec.build(arr)
                add(Entry(obj), j)
        elif op == "construct_int":
            # integer-typed primary data: the derived data is computed from the same values
            # (the object itself is only converted, not queried: in-place normalisation of
            # an integer array is refused by NumPy, loudly)
            shape = SHAPES[kk % len(SHAPES)]
            iarr = spec.int_data(vals, shape)
            iobj = spec.build(iarr.copy())
            ctx.check(np.array_equal(np.asarray(iobj.proj_data), iarr), "integer primary data "
                      "is stored with its values")
            check_object(ctx, spec, iobj, 1e-9, "integer-typed construction")
            fobj = iobj.astype("float64")
            ctx.close("astype(float64) of integer-typed data keeps the values",
                      np.asarray(fobj.proj_data), iarr.astype(float), rtol=0, atol=0)
            add(Entry(fobj), j)
            labels_mut = True
        else:
            e = pool[i % len(pool)]
            X = e.obj
            shape = tuple(X.shape)
            max_rank = max(max_rank, len(shape))
            if op == "from_object":
                add(Entry(spec.cls(X), e.tol), j)
            elif op == "deepcopy":
                add(Entry(copy.deepcopy(X), e.tol), j)
            elif op == "shallowcopy":
                c = copy.copy(X)               # read only
                check_object(ctx, spec, c, e.tol, "shallow copy")
            elif op == "stack":
                Y = spec.build(fresh(vals, shape, off=3, keep=False))
                lst = [X, Y] if kk % 2 == 0 else [X, Y, X]
                if kk % 3 == 2 and spec.name in ("segment", "tangent", "hpolygon", "ppolygon"):
                    # an integer-typed object first in the list: the float objects after it
                    # keep their values
                    Iobj = spec.build(spec.int_data(vals, shape))
                    Zi = spec.cls([Iobj, X])
                    ctx.close("stacked after an integer-typed object, X keeps its values",
                              np.asarray(Zi.proj_data)[1].astype(float),
                              np.asarray(X.proj_data).astype(float), rtol=max(e.tol, 1e-12),
                              atol=max(e.tol, 1e-12))
                    check_object(ctx, spec, Zi, max(e.tol, 1e-9), "stack [int object, X]")
                    ctx.label("stack-int-first")
                if spec.name == "hpointpair" or spec.name == "hpoint":
                    Z = spec.cls(lst)
                else:
                    Z = spec.cls(lst)
                ctx.check(tuple(Z.shape) == (len(lst),) + shape, "stacking adds a leading axis",
                          got=Z.shape, want=(len(lst),) + shape)
                ctx.small("stacking keeps the units and their order",
                          proj_dist(np.asarray(Z.proj_data)[0], np.asarray(X.proj_data)) if
                          spec.name != "tangent" else
                          np.abs(np.asarray(Z.proj_data)[0] - np.asarray(X.proj_data)),
                          max(e.tol, 1e-12))
                ctx.close("stacked unit 1 is the second object", np.asarray(Z.proj_data)[1],
                          np.asarray(Y.proj_data), rtol=max(e.tol, 1e-12),
                          atol=max(e.tol, 1e-12))
                add(Entry(Z, e.tol), j)
                labels_mut = True
            elif op == "apply":
                mk = (lambda v: isometry_from(v, n)) if spec.hyperbolic else \
                    (lambda v: projmap_from(v, n))
                wrap = (lambda M: hyperbolic.Isometry(M.copy(), column_vectors=False)) \
                    if spec.hyperbolic else \
                    (lambda M: projective.Transformation(M.copy(), column_vectors=False))
                rot = lambda v, r: [v[(a + r) % len(v)] for a in range(len(v))]
                mode = kk % 4
                XP = np.asarray(X.proj_data)
                if mode in (0, 3) or len(shape) == 0:
                    M = mk(vals)
                    Z = wrap(M) @ X
                    want = XP @ M
                    ctx.label("apply=single")
                elif mode == 1:
                    # one transformation per unit (elementwise, same composite shape)
                    cnt = int(np.prod(shape))
                    Ms = np.array([mk(rot(vals, r)) for r in range(cnt)]).reshape(
                        shape + (n + 1, n + 1))
                    Z = wrap(Ms).apply(X, "elementwise")
                    want = np.empty_like(XP, dtype=float)
                    for idx in np.ndindex(*shape):
                        want[idx] = XP[idx] @ Ms[idx]
                    ctx.label("apply=elementwise-composite")
                else:
                    # pairwise: result[i][j] = transformation j applied to unit i
                    Ms = np.array([mk(rot(vals, r)) for r in range(2)])
                    Z = wrap(Ms).apply(X, "pairwise")
                    want = np.empty(shape + (2,) + spec.unit, dtype=float)
                    for idx in np.ndindex(*shape):
                        for jj in range(2):
                            want[idx + (jj,)] = XP[idx] @ Ms[jj]
                    ctx.label("apply=pairwise")
                ctx.check(np.asarray(Z.proj_data).shape == want.shape,
                          "apply: shape of the result", got=np.asarray(Z.proj_data).shape,
                          want=want.shape)
                ctx.close("T @ X moves the primary data by the row matrix",
                          np.asarray(Z.proj_data), want, rtol=max(e.tol, 1e-12) * 10,
                          atol=max(e.tol, 1e-12) * 10 * max(1.0, np.abs(want).max()))
                add(Entry(Z, e.tol * 4), j)
                labels_mut = True
            elif op == "reshape":
                opts = valid_reshapes(shape)
                tgt = opts[kk % len(opts)]
                Z = X.reshape(tgt)
                ctx.check(tuple(Z.shape) == tuple(tgt), "reshape gives the requested shape",
                          got=Z.shape, want=tgt)
                ctx.close("reshape keeps the units in order",
                          np.asarray(Z.proj_data).reshape((-1,) + spec.unit),
                          np.asarray(X.proj_data).reshape((-1,) + spec.unit), rtol=0, atol=0)
                add(Entry(Z, e.tol), j)
                labels_mut = True
            elif op == "flatten":
                Z = X.flatten_to_unit()
                cnt = int(np.prod(shape)) if len(shape) else 1
                ctx.check(tuple(Z.shape) == (cnt,), "flatten_to_unit gives a flat composite",
                          got=Z.shape, want=(cnt,))
                ctx.close("flatten keeps the units in order", np.asarray(Z.proj_data),
                          np.asarray(X.proj_data).reshape((-1,) + spec.unit), rtol=0, atol=0)
                add(Entry(Z, e.tol), j)
                labels_mut = True
            elif op == "getitem":
                if spec.name in ("hpolygon", "ppolygon") and spec.k >= 4 and kk % 3 == 0:
                    # an index that reaches into the vertex axis selects a sub-polygon: the
                    # polygon on those vertices, whose closing edge runs from its own last
                    # vertex to its own first one
                    sel = [slice(0, 3), slice(None, None, 2), slice(1, None)][j % 3]
                    idx = (slice(None),) * len(shape) + (sel,)
                    sub = X[idx]
                    SP = np.asarray(sub.proj_data)
                    ctx.close("index into the vertex axis selects those vertices", SP,
                              np.asarray(X.proj_data)[idx], rtol=0, atol=0)
                    SA = np.asarray(sub.aux_data)
                    ctx.check(SA.shape == SP.shape[:-1] + (2, n + 1), "edges of the sub-polygon: "
                              "shape", got=SA.shape, want=SP.shape[:-1] + (2, n + 1))
                    ctx.small("sub-polygon: edge i starts at its vertex i",
                              proj_dist(SA[..., 0, :], SP), max(e.tol, 1e-12))
                    ctx.small("sub-polygon: edge i ends at its vertex i+1 (cyclically)",
                              proj_dist(SA[..., 1, :], np.roll(SP, -1, axis=-2)),
                              max(e.tol, 1e-12))
                    ctx.label("getitem-into-vertex-axis")
                if len(shape) >= 1:
                    kinds = [lambda: j % shape[0], lambda: slice(0, 1 + j % shape[0]),
                             lambda: slice(None, None, -1)]
                    if len(shape) >= 2:
                        kinds.append(lambda: (j % shape[0], kk % shape[1]))
                        kinds.append(lambda: (slice(None), kk % shape[1]))
                    idx = kinds[kk % len(kinds)]()
                    Z = X[idx]
                    ctx.close("indexing selects the units",
                              np.asarray(Z.proj_data), np.asarray(X.proj_data)[idx], rtol=0,
                              atol=0)
                    add(Entry(Z, e.tol), j + 1)
                    labels_mut = True
            elif op in ("setitem_array", "setitem_object") and (len(shape) == 0 or kk % 3 == 2):
                # the whole object given new coordinates through the documented setter: the
                # same object, new primary data, and derived data that belong to them
                val = spec.data(vals, shape, off=2)
                if spec.hyperbolic and j % 2:
                    X.coords("projective", val.copy())
                else:
                    X.projective_coords(val.copy())
                ctx.close("the coordinate setter replaces the primary data",
                          np.asarray(X.proj_data).astype(float), val, rtol=max(e.tol, 1e-12),
                          atol=max(e.tol, 1e-12))
                e.tol = 1e-9
                labels_mut = True
                ctx.label("coords-setter")
            elif op in ("setitem_array", "setitem_object"):
                if len(shape) >= 1:
                    if len(shape) >= 2 and kk % 2:
                        idx = (j % shape[0], kk % shape[1])
                        sub = shape[2:]
                    else:
                        idx = j % shape[0]
                        sub = shape[1:]
                    val = spec.data(vals, sub, off=2)
                    before = np.asarray(X.proj_data).copy()
                    if op == "setitem_array":
                        X[idx] = val.copy()
                    else:
                        X[idx] = spec.build(val.copy())
                    after = np.asarray(X.proj_data)
                    want = before.copy()
                    want[idx] = val
                    ctx.close("item assignment replaces exactly the addressed units", after,
                              want, rtol=max(e.tol, 1e-12), atol=max(e.tol, 1e-12))
                    labels_mut = True
            elif op == "combine":
                Y = pool[j % len(pool)].obj
                Z = spec.cls.combine([X, Y])
                a = np.asarray(X.proj_data).reshape((-1,) + spec.unit)
                b = np.asarray(Y.proj_data).reshape((-1,) + spec.unit)
                ctx.check(tuple(Z.shape) == (len(a) + len(b),), "combine concatenates the "
                          "flattened units", got=Z.shape, want=(len(a) + len(b),))
                ctx.close("combine keeps units and order", np.asarray(Z.proj_data),
                          np.concatenate([a, b]), rtol=1e-6, atol=1e-6)
                add(Entry(Z, max(e.tol, pool[j % len(pool)].tol)), kk)
                labels_mut = True
            elif op == "astype":
                choices = ["float32", "float64"] + (["complex128"] if not spec.hyperbolic
                                                    else [])
                dt = choices[kk % len(choices)]
                Z = X.astype(dt)
                ctx.check(np.asarray(Z.proj_data).dtype == np.dtype(dt), "astype sets the "
                          "dtype of the primary data", got=str(np.asarray(Z.proj_data).dtype))
                if Z.aux_data is not None:
                    ctx.check(np.asarray(Z.aux_data).dtype == np.dtype(dt), "astype sets the "
                              "dtype of the derived data",
                              got=str(np.asarray(Z.aux_data).dtype))
                add(Entry(Z, max(e.tol, 2e-4 if dt == "float32" else e.tol)), j)
                labels_mut = True
            elif op.startswith("q_"):
                snap = snapshot()
                if labels_mut:
                    read_after_mut = True
                qop = op
                if spec.hyperbolic and spec.name != "tangent":
                    rows = np.asarray(X.proj_data, dtype=float).reshape((-1, n + 1))
                    if np.any(np.abs(mink(rows, rows)) < 1e-12 * np.sum(rows * rows, axis=-1)):
                        # origin_to / tangents are defined for interior points only
                        ctx.label("object-with-ideal-vertex")
                        if op in ("q_origin_to", "q_tangent"):
                            qop = "q_distance"
                run_query(ctx, spec, qop, X, pool, vals, kk)
                check_unmoved(snap, op)
        for idx_e, e in enumerate(pool):
            check_object(ctx, spec, e.obj, e.tol, "after step %d (%s), pool[%d]" %
                         (t, op, idx_e))
            # in half of the histories also read through the accessors after every step
            # (in the other half an accessor is only ever called by a q_* step, so that a
            # defect needing a *first* call late in the history is reachable too)
            if case.get("observe"):
                check_observed(ctx, spec, e.obj, e.tol, "after step %d (%s), pool[%d]" %
                               (t, op, idx_e))
    if case.get("observe"):
        ctx.label("accessors-read-every-step")
    ctx.label("cls=" + name, "n=%d" % n)
    if max_rank >= 1:
        ctx.label("composite")
    if labels_mut and read_after_mut:
        ctx.label("mutation-then-read")


def run_query(ctx, spec, op, X, pool, vals, kk):
    """read-only calls; their values are decided by other properties - here they must run
    and must not move anything"""
    n = spec.n
    if spec.name == "ppolygon":
        if op == "q_coords":
            X.affine_coords(chart_index=0)
            X.projective_coords()
        elif op == "q_edges":
            ed = X.get_edges()
            vs = X.get_vertices()
            ed.endpoint_affine_coords()
            ctx.close("get_vertices returns the vertices", np.asarray(vs.proj_data),
                      np.asarray(X.proj_data), rtol=0, atol=0)
        else:
            X.in_standard_chart()
        return
    # points carried by the object, as a hyperbolic.Point
    if spec.name == "tangent":
        pts = hyperbolic.Point(np.asarray(X.proj_data)[..., 0, :])
    elif spec.name == "hpoint":
        pts = X
    else:
        pts = hyperbolic.Point(np.asarray(X.proj_data))
    if op == "q_coords":
        for m in ["klein", "poincare", "halfspace", "hyperboloid", "projective"]:
            pts.coords(m)
        if spec.name != "tangent":
            X.coords("klein")
    elif op == "q_distance":
        other = hyperbolic.Point(proj_of(far_pt(vals, n))[0])
        # (the object asks once and is asked about once: a query that moved its receiver
        # back and forth on every call would go unnoticed after an even number of calls)
        pts.distance(other)
        other.distance(pts)
        if kk % 2:
            pts.distance(pts)
            pts.distance(other)
    elif op == "q_origin_to":
        pts.origin_to()
        pts.origin_to(force_oriented=False)
        if spec.name == "tangent":
            X.origin_to()
            Y = pool[kk % len(pool)].obj
            if tuple(Y.shape) == tuple(X.shape):
                X.isometry_to(Y)
    elif op == "q_tangent":
        # a target that differs from every point of the object by construction (radius 0.93;
        # the object's points have radius <= 0.87): the tangent towards the basepoint itself
        # is not defined
        other = hyperbolic.Point(proj_of(far_pt(vals, n))[0])
        tv = pts.unit_tangent_towards(other)
        tv.point_along(0.5)
        if spec.name == "tangent":
            X.normalized()
            X.point_along(0.3)
            X.angle(X)
    elif op == "q_circle":
        if spec.name == "segment":
            if n == 2:
                X.circle_parameters(degrees=bool(kk % 2), model="poincare")
                X.circle_parameters(model="halfspace")
            X.sphere_parameters("poincare")
            X.sphere_parameters("halfspace")
            X.ideal_endpoint_coords("klein")
            X.ideal_endpoint_coords("poincare")
        elif spec.name == "hpolygon":
            ed = X.get_edges()
            if n == 2:
                ed.circle_parameters(degrees=True, model="poincare")
            ed.sphere_parameters("poincare")
            ed.ideal_endpoint_coords("klein")
    elif op == "q_edges":
        if spec.name == "hpolygon":
            ed = X.get_edges()
            vs = X.get_vertices()
            ctx.close("get_vertices returns the vertices", np.asarray(vs.proj_data),
                      np.asarray(X.proj_data), rtol=0, atol=0)
            ctx.small("get_edges returns segments on the vertices",
                      proj_dist(np.asarray(ed.proj_data)[..., 0, :], np.asarray(X.proj_data)),
                      1e-4)
        elif spec.name in ("segment", "hpointpair", "tangent"):
            X.get_endpoints()
            X.get_end_pair()
            X.endpoint_coords("klein") if spec.name != "tangent" else None
            if spec.name == "segment":
                X.geodesic()
    else:  # q_misc
        if spec.name == "segment":
            g = X.geodesic()
            g.ideal_basis_coords("klein")
        hyperbolic.Point(pts)
        len(X) if len(X.shape) else None
        if len(X.shape):
            for _ in X:
                break


# ---------------------------------------------------------------------------
def step_strategy():
    return st.fixed_dictionaries(dict(
        # sampled_from (uniform), not integers (biased towards 0): these are selectors
        op=st.sampled_from(list(range(len(OPS)))), i=st.sampled_from(list(range(8))),
        j=st.sampled_from(list(range(8))), k=st.sampled_from(list(range(12))),
        vals=st.lists(fl(-1.0, 1.0), min_size=9, max_size=9)))


def history_case(cls_names, max_steps):
    return st.fixed_dictionaries(dict(
        cls=st.sampled_from(cls_names), n=st.sampled_from([2, 2, 3]),
        k=st.sampled_from([3, 4]), observe=st.booleans(),
        steps=st.lists(step_strategy(), min_size=1, max_size=max_steps)))


def nt(labels):
    return "composite" in labels and "mutation-then-read" in labels


FIXED_VALS = [[0.3, -0.7, 0.2, 0.9, -0.4, 0.6, -0.1, 0.5, -0.8],
              [-0.6, 0.4, 0.8, -0.2, 0.7, -0.9, 0.1, -0.3, 0.5]]


def exhaustive_histories(tier):
    """all op sequences of bounded depth after one composite construction, with fixed
    numeric payloads and two index patterns"""
    depth = 2 if tier == "quick" else 3
    classes = ["hpolygon", "segment", "tangent", "ppolygon"]
    ops = [OPS.index(o) for o in ["from_object", "stack", "apply", "reshape", "flatten",
                                  "getitem", "setitem_array", "setitem_object", "combine",
                                  "astype", "q_circle", "q_edges", "q_origin_to"]]
    out = []
    for cls in classes:
        cases = []
        for d in range(1, depth + 1):
            for seq in itertools.product(ops, repeat=d):
                steps = [dict(op=OPS.index("construct"), i=0, j=0, k=4, vals=FIXED_VALS[0])]
                for t, o in enumerate(seq):
                    steps.append(dict(op=o, i=t % 2, j=1 + t, k=1 + 2 * t,
                                      vals=FIXED_VALS[(t + 1) % 2]))
                # always end with a read of the derived data
                steps.append(dict(op=OPS.index("q_circle"), i=len(seq), j=0, k=0,
                                  vals=FIXED_VALS[0]))
                cases.append(dict(cls=cls, n=2, k=3, steps=steps, observe=True))
        out.append(("all op sequences of depth <= %d on %s (composite (2,2) start)" %
                    (depth, cls), cases))
    return out


AUX = ["hpolygon", "ppolygon", "segment", "tangent"]
# ---------------------------------------------------------------------------
# the isometry as the object that is asked: fixed-point queries leave it what it was
ISO_KINDS = ["rotation", "reflection", "loxodromic", "rotation_about_line", "identity",
             "half_turn"]


@st.composite
def iso_query_case(draw):
    n = draw(st.sampled_from([2, 2, 3, 3, 4]))
    kind = draw(st.sampled_from(ISO_KINDS))
    return dict(n=n, kind=kind, angle=draw(fl(0.2, 2.9)), l=draw(fl(0.3, 2.0)),
                conj=[draw(fl(-0.6, 0.6)) for _ in range(n)],
                order=list(draw(st.permutations([0, 1, 2]))), col=draw(st.booleans()))


def body_iso_query(case, ctx):
    n, kind = case["n"], case["kind"]
    ctx.label("n=%d" % n, "kind=" + kind)
    Iso = hyperbolic.Isometry
    if kind == "rotation":
        T0 = Iso.standard_rotation(case["angle"], n) if n >= 3 else \
            Iso.standard_rotation(case["angle"])
    elif kind == "reflection":
        v = np.zeros(n + 1)
        v[1] = 1.0
        T0 = hyperbolic.Hyperplane(v).reflection_across()
    elif kind == "loxodromic":
        T0 = Iso.standard_loxodromic(n, math.exp(case["l"]))
    elif kind == "rotation_about_line":
        D = np.eye(n)
        c, s_ = math.cos(case["angle"]), math.sin(case["angle"])
        D[-2:, -2:] = [[c, -s_], [s_, c]]
        T0 = Iso.elliptic(n, D)
    elif kind == "half_turn":
        D = np.eye(n)
        D[0, 0] = D[1, 1] = -1.0
        T0 = Iso.elliptic(n, D)
    else:
        T0 = Iso(np.eye(n + 1))
    kc_ = np.array(case["conj"], dtype=float)
    if float(np.linalg.norm(kc_)) > 0.8:            # (a point of the open ball)
        kc_ = kc_ * (0.8 / float(np.linalg.norm(kc_)))
    g = hyperbolic.Point(kc_, model="klein").origin_to()
    T = g @ T0 @ g.inv()
    M0 = np.array(T.matrix, copy=True)
    if case["col"]:
        # the same map built from the caller's own column-convention array
        arr = np.ascontiguousarray(M0.T)
        T = Iso(arr, column_vectors=True)
        keep = arr.copy()
    queries = {0: "fixed_point", 1: "fixed_point_pair", 2: "axis"}
    answers = {}
    for rnd in (0, 1):
        for qi in case["order"]:
            q = queries[qi]
            if q != "fixed_point" and kind != "loxodromic":
                continue
            try:
                a = getattr(T, q)()
            except Exception as ex:           # whether it answers is C15's business
                a = type(ex).__name__
            else:
                a = np.array(a.proj_data, dtype=float)
            if q in answers and not isinstance(a, str) and not isinstance(answers[q], str):
                ctx.small("%s() asked twice gives the same point(s)" % q,
                          proj_dist(a, answers[q]), 1e-9)
            answers.setdefault(q, a)
            ctx.close("the isometry is unchanged by %s()" % q, np.array(T.matrix), M0, rtol=0,
                      atol=0)
            if case["col"]:
                ctx.check(np.array_equal(arr, keep), "the caller's matrix array is unchanged by "
                          "%s()" % q)
    if kind in ("reflection", "rotation_about_line", "identity", "half_turn"):
        ctx.label("repeated-eigenvalue")


LAWS = [
    Law("isometry_queries_leave_it_alone", iso_query_case(), body_iso_query,
        lambda l: "repeated-eigenvalue" in l or "kind=loxodromic" in l, quick=200, thorough=1500,
        shards=(1, 4)),
    Law("object_history_aux_classes", history_case(AUX, 12), run_history, nt, quick=500,
        thorough=4000, shards=(4, 12)),
    Law("object_history_long", history_case(AUX, 30), run_history, nt, quick=100,
        thorough=1500, shards=(2, 8)),
    Law("object_history_controls", history_case(["hpoint", "hpointpair"], 12), run_history,
        lambda l: "composite" in l, quick=350, thorough=1200, shards=(2, 4)),
    Law("bounded_exhaustive_histories", None, run_history, nt, exhaustive=exhaustive_histories),
]
