"""C08 - Coxeter group representations satisfy the relations and preserve the form.

Conventions (probed): rep[word] of a plain Representation is a *column* matrix rho(w)
(rho(s_i) = I - E_ii C, product in reading order); the geometric representation satisfies
rho^T B rho = B for the cosine matrix B.  hyperbolic_rep()[w] is an Isometry whose stored
row matrix is rho(w)^T.  Words are passed as lists of generator names, which works for
single- and multi-character names alike.
"""
import math
import itertools
import numpy as np
from hypothesis import strategies as st

from ..core import Law, HarnessError
from ..gen import fl
from ..oracles import cox as X

from geometry_tools import coxeter, hyperbolic
from geometry_tools.coxeter import CoxeterGroup, TriangleGroup

RULE = ("cases: Coxeter matrices of rank 2..5 with off-diagonal labels from {2 (frequent), 3..12, "
        "infinity}, infinity written as 0 or as a negative integer (mixed inside one matrix); "
        "built either from the matrix (generator_style alpha / alphanum) or from a complete "
        "diagram whose edges come in a shuffled order and orientation with single- or "
        "multi-character generator names; words of length <= 8 in the generators; Cartan "
        "parameters (each in [-10, -0.4], product >= 4) on infinite edges, symmetric (one entry "
        "given) or asymmetric (both given), as a dict or as a matrix; every hyperbolic triangle "
        "triple (p, q, r) with entries in 2..12 or infinity, enumerated exhaustively (quick: "
        "entries in {2,3,4,5,7,12,inf}).  The harness computes the cosine matrix, its signature "
        "and all expected traces itself.  non-trivial = rank >= 3 with at least one label >= 4 "
        "or infinite; distinct = distinct JSON case.")

ASSUMPTIONS = [
    "labels <= 12 or infinite, rank <= 5, words of length <= 8; tolerances 1e-9 scaled by the "
    "measured norms of the matrices involved and, for diagonalised representations, by "
    "1 / min|eigenvalue| of the cosine form",
    "diagonalize=True and hyperbolic_rep are only examined when the harness finds the cosine form "
    "non-degenerate (min |eigenvalue| >= 1e-3), hyperbolic_rep only for signature (n-1, 1) - "
    "the domain its docstring states",
    "a diagram lists every pair of generators (the constructor raises KeyError otherwise)",
    "Cartan parameters are honoured on infinite edges written as 0 or as a negative label "
    "alike (cartan_matrix used to ignore the 0-coded ones: repaired, regression kept)",
    "float64 only (Sage exact back end not installed)",
]

CLAIM = dict(
    text=("For Coxeter matrices of rank 2..5 with labels 2..12 or infinite, through both "
          "constructor routes and naming styles: geometric, canonical, diagonalised, Cartan / "
          "Tits-Vinberg and hyperbolic representations are float64, send generators to "
          "involutions and products st to elements of the exact order m_st (traces of all powers "
          "match the rotation by 2 pi/m), the geometric representation preserves the cosine form, "
          "the canonical one is its inverse transpose, diagonalised ones preserve the +-1 form, "
          "hyperbolic generators are reflections of O(d,1); every hyperbolic triangle group "
          "(p,q,r) <= 12 or infinite has fixed-point triangle with angles pi/p, pi/q, pi/r."),
    note=("Generated-input search with closed-form oracles plus exhaustive enumeration of the "
          "triangle triples; cartan_matrix silently ignores parameters on infinite edges coded "
          "as 0 (observed, outside the statement, excluded from the parameter check)."),
    technique="property-based testing (Hypothesis) + exhaustive enumeration of a finite sub-domain",
)

FINITE_LABELS = [2, 2, 2, 3, 3, 4, 5, 6, 7, 8, 9, 10, 11, 12]
INF_CODES = [0, -1, -1, -3]
SINGLE_NAMES = ["x", "y", "z", "p", "q", "u", "v", "w"]
MULTI_NAMES = ["s0", "s1", "s2", "s3", "s4", "g10", "t7", "r2"]


# ---------------------------------------------------------------------------
@st.composite
def coxeter_case(draw, min_rank=2, max_rank=5, need_inf=False, p_inf=0.2):
    n = draw(st.sampled_from([r for r in [2, 3, 3, 4, 4, 5, 5] if min_rank <= r <= max_rank]))
    M = [[1] * n for _ in range(n)]
    pairs = [(i, j) for i in range(n) for j in range(i + 1, n)]
    forced = draw(st.integers(0, len(pairs) - 1)) if need_inf else -1
    for k, (i, j) in enumerate(pairs):
        if k == forced or draw(fl(0.0, 1.0)) < p_inf:
            m = draw(st.sampled_from(INF_CODES))
        else:
            m = draw(st.sampled_from(FINITE_LABELS))
        M[i][j] = M[j][i] = m
    route = draw(st.sampled_from(["matrix", "matrix", "diagram"]))
    case = dict(M=M, route=route)
    if route == "matrix":
        case["style"] = draw(st.sampled_from(["alpha", "alphanum"]))
        case["form"] = draw(st.sampled_from(["list", "array"]))
    else:
        pool = draw(st.sampled_from([SINGLE_NAMES, MULTI_NAMES]))
        case["names"] = draw(st.permutations(pool))[:n]
        case["edge_order"] = draw(st.permutations(list(range(len(pairs)))))
        case["flip"] = [draw(st.booleans()) for _ in pairs]
    return case


def words_for(n, count=3, max_len=8):
    return st.lists(st.lists(st.integers(0, n - 1), min_size=0, max_size=max_len),
                    min_size=count, max_size=count)


@st.composite
def case_with_words(draw, **kw):
    c = draw(coxeter_case(**kw))
    c["words"] = draw(words_for(len(c["M"])))
    return c


def build_group(case):
    """(group, names): names[i] is the library's name of the harness' i-th generator"""
    M = case["M"]
    n = len(M)
    if case["route"] == "matrix":
        data = [list(r) for r in M] if case["form"] == "list" else np.array(M)
        G = CoxeterGroup(matrix=data, generator_style=case["style"])
        # the caller re-uses its array afterwards (e.g. one work buffer for a family of
        # groups): the group must not keep reading labels through an alias
        if isinstance(data, np.ndarray):
            data[...] = 2
            np.fill_diagonal(data, 1)
        else:
            for r in data:
                for jj in range(len(r)):
                    r[jj] = 2
        names = (["abcdefgh"[i] for i in range(n)] if case["style"] == "alpha"
                 else ["s%d" % i for i in range(n)])
        return G, names
    names = list(case["names"])
    pairs = [(i, j) for i in range(n) for j in range(i + 1, n)]
    diagram = []
    for k in case["edge_order"]:
        i, j = pairs[k]
        if case["flip"][k]:
            i, j = j, i
        diagram.append((names[i], names[j], M[i][j]))
    G = CoxeterGroup(diagram=diagram)
    return G, names


def lib_index(G, names):
    """position of each harness generator in the library's ordering (public attribute
    generator_index); checked to be a permutation"""
    idx = [G.generator_index[nm] for nm in names]
    if sorted(idx) != list(range(len(names))):
        raise HarnessError("generator_index is not a permutation: %r" % (idx,))
    return idx


def describe(ctx, case):
    M = case["M"]
    n = len(M)
    labels = [M[i][j] for i in range(n) for j in range(i + 1, n)]
    ctx.label("rank=%d" % n, "route=" + case["route"])
    if case["route"] == "matrix":
        ctx.label("style=" + case["style"])
    else:
        ctx.label("names=" + ("multi" if len(case["names"][0]) > 1 else "single"))
    if any(m <= 0 for m in labels):
        ctx.label("has-infinite")
        if any(m == 0 for m in labels):
            ctx.label("inf-as-0")
        if any(m < 0 for m in labels):
            ctx.label("inf-as-negative")
    if any(m >= 4 for m in labels):
        ctx.label("has-label>=4")
    if n >= 3 and any(m >= 4 or m <= 0 for m in labels):
        ctx.label("nontrivial")
    B = X.cosine_matrix(M)
    pos, neg, zero, mn, ev = X.signature(B)
    if zero or mn < 1e-3:
        ctx.label("form=degenerate")
    elif neg == 0:
        ctx.label("form=definite")
    elif neg == 1:
        ctx.label("form=lorentzian")
    else:
        ctx.label("form=higher-index")
    return B, (pos, neg, zero, mn, ev)


def nt(labels):
    return "nontrivial" in labels


def gens(rep, names, ctx, what, n):
    """the generator matrices of a plain Representation, as float64 column matrices"""
    out = []
    for nm in names:
        m = rep[[nm]]
        arr = np.asarray(m)
        ctx.check(arr.dtype == np.float64, what + ": generator matrices are float64",
                  dtype=str(arr.dtype), generator=nm)
        ctx.check(arr.shape == (n, n), what + ": generator matrix shape", got=arr.shape)
        out.append(arr)
    return out


def check_relations(ctx, what, R, M, cartan=None, exact=True):
    """involutions; (st)^m = I and the traces of all powers for finite m; trace n - 4 +
    C_ij C_ji for every pair (C = cartan, default 2B) - an infinite edge then has trace >= n
    and st != I (infinite order)."""
    n = len(M)
    I = np.eye(n)
    C = 2 * X.cosine_matrix(M) if cartan is None else np.asarray(cartan, dtype=float)
    for i in range(n):
        s = R[i]
        nrm = np.linalg.norm(s, 2)
        ctx.close(what + ": rho(s)^2 = I", s @ s, I, rtol=0, atol=1e-10 * nrm ** 2, i=i)
    for i in range(n):
        for j in range(n):
            if i == j:
                continue
            P = R[i] @ R[j]
            m = int(M[i][j])
            scale = max(1.0, np.linalg.norm(P, 2))
            ctx.close(what + ": trace(rho(s)rho(t)) = n - 4 + C_st C_ts", np.trace(P),
                      X.pair_trace(n, C[i, j] * C[j, i]), rtol=0, atol=1e-9 * scale ** 2,
                      i=i, j=j, m=m)
            if X.is_inf(m):
                ctx.check(np.abs(P - I).max() > 0.5, what + ": rho(s)rho(t) is not the "
                          "identity on an infinite edge", i=i, j=j)
                ctx.check(np.trace(P) >= n - 1e-9, what + ": infinite edge has trace >= n "
                          "(parabolic or hyperbolic product)", trace=float(np.trace(P)))
                continue
            Q = I.copy()
            big = 1.0
            for k in range(1, m + 1):
                Q = Q @ P
                big = max(big, np.linalg.norm(Q, 2))
                if exact:
                    ctx.close(what + ": trace((rho(s)rho(t))^k) is that of a rotation of "
                              "order exactly m", np.trace(Q), X.rotation_power_trace(n, m, k),
                              rtol=0, atol=1e-10 * big ** 2 * scale, i=i, j=j, m=m, k=k)
                    if k < m:
                        ctx.check(np.abs(Q - I).max() > 1e-3, what + ": no smaller power of "
                                  "rho(s)rho(t) is the identity", i=i, j=j, m=m, k=k)
            ctx.close(what + ": (rho(s)rho(t))^m = I", Q, I, rtol=0,
                      atol=1e-10 * big ** 2 * scale, i=i, j=j, m=m)


def word_matrix(R, word, n):
    W = np.eye(n)
    growth = 1.0
    for g in word:
        W = W @ R[g]
        growth *= max(1.0, np.linalg.norm(R[g], 2))
    return W, growth


# ---------------------------------------------------------------------------
def body_cosine(case, ctx):
    B, sig = describe(ctx, case)
    M = case["M"]
    n = len(M)
    G, names = build_group(case)
    idx = lib_index(G, names)
    ctx.check(list(G.ordered_gens[i] for i in idx) == names, "ordered_gens and generator_index "
              "agree", ordered=list(G.ordered_gens), names=names)
    cm = np.asarray(G.coxeter_matrix)
    ctx.check(cm.shape == (n, n), "coxeter_matrix shape", got=cm.shape)
    want = np.array(M)
    ctx.check(np.array_equal(cm[np.ix_(idx, idx)], want), "coxeter_matrix holds the labels "
              "that were given", got=cm, want=want, idx=idx)
    got = np.asarray(G.bilinear_form())
    ctx.check(got.dtype == np.float64, "bilinear_form() is float64", dtype=str(got.dtype))
    ctx.close("bilinear_form() is the cosine matrix -cos(pi/m) (-1 for infinity)",
              got[np.ix_(idx, idx)], B, rtol=0, atol=1e-12)
    ctx.check(np.array_equal(np.asarray(G.coxeter_matrix), cm), "bilinear_form() leaves the "
              "Coxeter matrix alone")


def body_geometric(case, ctx):
    B, sig = describe(ctx, case)
    M = case["M"]
    n = len(M)
    G, names = build_group(case)
    rep = G.geometric_representation()
    R = gens(rep, names, ctx, "geometric", n)
    for i in range(n):
        ctx.close("geometric: rho(s_i) = I - 2 e_i (B e_i)^T in the harness' generator order",
                  permuted(R[i], G, names), X.reflection(2 * B, i), rtol=0, atol=1e-12, i=i)
    Rp = [permuted(r, G, names) for r in R]
    check_relations(ctx, "geometric", Rp, M)
    for i in range(n):
        ctx.close("geometric: rho(s)^T B rho(s) = B", Rp[i].T @ B @ Rp[i], B, rtol=0,
                  atol=1e-10)
    for w in case["words"]:
        lib = np.asarray(rep[[names[g] for g in w]]) if w else np.eye(n)
        W, growth = word_matrix(R, w, n)
        ctx.close("geometric: rho(word) is the product of the generators", lib, W, rtol=0,
                  atol=1e-12 * growth)
        Wp = permuted(lib, G, names)
        ctx.close("geometric: rho(w)^T B rho(w) = B", Wp.T @ B @ Wp, B, rtol=0,
                  atol=1e-11 * max(1.0, np.linalg.norm(Wp, 2)) ** 2, word=w)
        ctx.label("wordlen=%d" % min(len(w), 8))


def permuted(mat, G, names):
    """matrix of the library (library generator order) rewritten in the harness' order"""
    idx = lib_index(G, names)
    return np.asarray(mat)[np.ix_(idx, idx)]


def body_canonical(case, ctx):
    B, sig = describe(ctx, case)
    M = case["M"]
    n = len(M)
    G, names = build_group(case)
    geo = G.geometric_representation()
    can = G.canonical_representation()
    Rg = gens(geo, names, ctx, "geometric", n)
    Rc = gens(can, names, ctx, "canonical", n)
    for i in range(n):
        ctx.close("canonical generator = inverse transpose of the geometric one",
                  Rc[i] @ Rg[i].T, np.eye(n), rtol=0, atol=1e-10 * np.linalg.norm(Rg[i], 2) ** 2)
        ctx.close("canonical: rho*(s_i) = I - 2 (B e_i) e_i^T",
                  permuted(Rc[i], G, names), X.reflection(2 * B, i).T, rtol=0, atol=1e-11)
    check_relations(ctx, "canonical", [permuted(r, G, names) for r in Rc], M, exact=True)
    for w in case["words"]:
        if not w:
            continue
        nm = [names[g] for g in w]
        a = np.asarray(can[nm])
        b = np.asarray(geo[nm])
        ctx.close("canonical(word) = inverse transpose of geometric(word)", a @ b.T, np.eye(n),
                  rtol=0, atol=1e-11 * (np.linalg.norm(a, 2) * np.linalg.norm(b, 2)), word=w)
    # the ball of the group in both representations through ONE automaton object (first the
    # geometric, then the canonical one): what the first enumeration computed belongs to it
    if n <= 3 and all(len(nm_) == 1 for nm_ in names):
        aut = G.automaton()
        ga, gw = geo.automaton_accepted(aut, 3, with_words=True)
        ca, cw = can.automaton_accepted(aut, 3, with_words=True)
        ctx.check(list(gw) == list(cw), "the same automaton gives the same words for both "
                  "representations")
        for w_, a_, c_ in zip(gw, np.asarray(ga), np.asarray(ca)):
            ctx.close("canonical image of an enumerated word = inverse transpose of its "
                      "geometric image", c_ @ a_.T, np.eye(n), rtol=0,
                      atol=1e-10 * np.linalg.norm(a_, 2) * np.linalg.norm(c_, 2), word=w_)
        ctx.label("two-representations-one-automaton")
    # "the canonical representation is its dual", through the public dual() of the geometric
    # representation object that has just evaluated these words (what it computed for itself
    # is not what its dual answers), and the dual of the dual
    dual = geo.dual()
    back = dual.dual()
    for w in [[i] for i in range(n)] + [w for w in case["words"] if w]:
        nm = [names[g] for g in w]
        a = np.asarray(can[nm])
        d_ = np.asarray(dual[nm])
        sc = max(1.0, np.linalg.norm(a, 2)) ** 2
        ctx.close("geometric.dual()(word) = canonical(word)", d_, a, rtol=0, atol=1e-10 * sc,
                  word=w)
        ctx.close("geometric.dual().dual()(word) = geometric(word)", np.asarray(back[nm]),
                  np.asarray(geo[nm]), rtol=0, atol=1e-10 * sc, word=w)


def body_diagonalised(case, ctx):
    B, (pos, neg, zero, mn, ev) = describe(ctx, case)
    M = case["M"]
    n = len(M)
    G, names = build_group(case)
    if zero or mn < 1e-3:
        ctx.label("skipped:degenerate-form")
        return
    ctx.label("diagonalised")
    kappa = float(np.abs(ev).max() / mn)
    D = np.diag(np.sign(ev))                      # ascending eigenvalues: negative first
    geo = G.geometric_representation()
    dia = G.geometric_representation(diagonalize=True)
    Rd = gens(dia, names, ctx, "diagonalised", n)
    check_relations(ctx, "diagonalised", Rd, M)
    for i in range(n):
        nr = max(1.0, np.linalg.norm(Rd[i], 2))
        ctx.close("diagonalised: rho(s)^T D rho(s) = D for D = diag(-1.., +1..)",
                  Rd[i].T @ D @ Rd[i], D, rtol=0, atol=1e-10 * kappa * nr ** 2)
    for w in case["words"]:
        nm = [names[g] for g in w]
        if not w:
            continue
        a = np.asarray(dia[nm])
        b = np.asarray(geo[nm])
        sc = max(1.0, np.linalg.norm(a, 2), np.linalg.norm(b, 2))
        ctx.close("diagonalised: conjugate to the geometric representation (trace of a word)",
                  np.trace(a), np.trace(b), rtol=0, atol=1e-10 * kappa * sc * n, word=w)
        ctx.close("diagonalised: rho(w)^T D rho(w) = D", a.T @ D @ a, D, rtol=0,
                  atol=1e-10 * kappa * sc ** 2, word=w)
    # the canonical representation with the same documented keyword: the dual of the
    # diagonalised geometric representation, so it preserves D as well
    cand = G.canonical_representation(diagonalize=True)
    Rc = gens(cand, names, ctx, "canonical(diagonalize=True)", n)
    check_relations(ctx, "canonical(diagonalize=True)", Rc, M)
    for i in range(n):
        nr = max(1.0, np.linalg.norm(Rd[i], 2))
        ctx.close("canonical(diagonalize=True)[s] is the inverse transpose of "
                  "geometric(diagonalize=True)[s]", Rc[i] @ Rd[i].T, np.eye(n), rtol=0,
                  atol=1e-10 * kappa * nr ** 2, i=i)
        ctx.close("canonical(diagonalize=True)[s] preserves diag(-1.., +1..)",
                  Rc[i].T @ D @ Rc[i], D, rtol=0, atol=1e-10 * kappa * nr ** 2, i=i)
    if neg != 1:
        ctx.label("skipped-hyperbolic:signature")
        return
    ctx.label("hyperbolic")
    J = np.diag([-1.0] + [1.0] * (n - 1))
    if n >= 3:
        # the documented 'minkowski' ordering through cartan_representation: for signature
        # (n-1, 1) the timelike basis vector comes first
        idx = lib_index(G, names)
        Clib = np.zeros((n, n))
        Clib[np.ix_(idx, idx)] = 2 * B
        mk = G.cartan_representation(Clib.copy(), diagonalize=True,
                                     order_eigenvalues="minkowski")
        for i, r_ in enumerate(gens(mk, names, ctx, "cartan_representation(minkowski)", n)):
            nr = max(1.0, np.linalg.norm(r_, 2))
            ctx.close("cartan_representation(diagonalize, 'minkowski') preserves diag(-1,1..1)",
                      r_.T @ J @ r_, J, rtol=0, atol=1e-10 * kappa * nr ** 2, i=i)
    hyp = G.hyperbolic_rep()
    ctx.check(isinstance(hyp, hyperbolic.HyperbolicRepresentation), "hyperbolic_rep() type",
              got=type(hyp).__name__)
    for i, nmi in enumerate(names):
        iso = hyp[[nmi]]
        ctx.check(isinstance(iso, hyperbolic.Isometry), "hyperbolic_rep()[s] is an Isometry",
                  got=type(iso).__name__)
        A = np.asarray(iso.matrix)
        ctx.check(A.dtype == np.float64 and A.shape == (n, n), "hyperbolic generator is a "
                  "float64 (d+1)x(d+1) matrix", dtype=str(A.dtype), shape=A.shape)
        nr = max(1.0, np.linalg.norm(A, 2))
        tol = 1e-10 * kappa * nr ** 2
        ctx.close("hyperbolic generator lies in O(d,1)", A @ J @ A.T, J, rtol=0, atol=tol)
        ctx.close("hyperbolic generator has determinant -1", np.linalg.det(A), -1.0, rtol=0,
                  atol=tol * n)
        ctx.close("hyperbolic generator is an involution", A @ A, np.eye(n), rtol=0, atol=tol)
        # a reflection: A - I has rank one and trace(A) = n - 2, i.e. eigenvalues (-1,1,..,1)
        sv = np.linalg.svd(A - np.eye(n), compute_uv=False)
        ctx.small("hyperbolic generator fixes a hyperplane pointwise (rank(A - I) = 1)",
                  sv[1] / max(sv[0], 1e-300), 1e-8 * kappa * nr, sv=sv)
        ctx.check(sv[0] > 0.5, "hyperbolic generator is not the identity")
        ctx.close("hyperbolic generator has eigenvalues (-1, 1, ..., 1)",
                  np.sort(np.linalg.eigvals(A).real), np.array([-1.0] + [1.0] * (n - 1)),
                  rtol=0, atol=1e-6 * kappa * nr)
        # it is the reflection across a wall with spacelike normal (it acts on H^d)
        u, s_, vt = np.linalg.svd(A - np.eye(n))
        nv = vt[0]
        ctx.check(X.mink(nv, nv) > 0 or X.mink(u[:, 0], u[:, 0]) > 0,
                  "the reflection has a spacelike normal", normal=nv)
    Rh = [np.asarray(hyp[[nm]].matrix).T for nm in names]
    check_relations(ctx, "hyperbolic", Rh, M)
    # label 2 means "commute": the library's own predicate on the generators says so, and
    # says the opposite for every other label
    if kappa < 1e3:
        for i in range(n):
            for j in range(i + 1, n):
                mij = M[i][j]
                com = bool(np.all(hyp[[names[i]]].commute(hyp[[names[j]]])))
                ctx.check(com == (mij == 2), "commute() of two generators <=> their label is 2",
                          i=i, j=j, label=mij, commute=com)
    # the inverse letters are generators too (each reflection is its own inverse), for the
    # representation itself and for what is derived from it
    moved = hyp.conjugate(hyperbolic.Point(np.full(n - 1, 0.2 / math.sqrt(n)),
                                           model="klein").origin_to())
    for i, nm in enumerate(names):
        inv_nm = nm.upper()
        ctx.close("hyperbolic_rep(): the inverse letter of a generator is the generator",
                  np.asarray(hyp[[inv_nm]].matrix).T, Rh[i], rtol=0,
                  atol=1e-9 * kappa * max(1.0, np.linalg.norm(Rh[i], 2)) ** 2, i=i)
        Am = np.asarray(moved[[inv_nm, nm]].matrix)
        ctx.close("conjugate of hyperbolic_rep(): inverse letter times letter is the identity",
                  Am, np.eye(n), rtol=0,
                  atol=1e-8 * kappa * max(1.0, np.linalg.norm(Rh[i], 2)) ** 2, i=i)
    # the walls of all generators at once: unit normals with Gram matrix (up to the sign of
    # each normal) the cosine matrix
    walls = hyperbolic.Hyperplane.from_reflection(hyp.isometries([[nm] for nm in names]))
    ctx.check(tuple(walls.shape) == (n,), "composite of walls: shape", got=walls.shape)
    nv = np.array(walls.spacelike_vector, dtype=float)
    ctx.check(nv.shape == (n, n), "composite of walls: normals", got=nv.shape)
    sq = np.einsum("ij,jk,ik->i", nv, J, nv)
    ctx.check(np.all(sq > 0), "walls of the generators have spacelike normals", sq=sq)
    un = nv / np.sqrt(np.abs(sq))[:, None]
    gram = un @ J @ un.T
    ctx.close("|Gram matrix| of the generators' wall normals is |cos(pi/m_ij)|", np.abs(gram),
              np.abs(B), rtol=0, atol=1e-8 * kappa ** 2 * max(
                  1.0, max(np.linalg.norm(r_, 2) for r_ in Rh)) ** 2)
    for i in range(n):
        Ri = np.asarray(walls[i].reflection_across().matrix).T
        ctx.close("reflection across wall i of the composite is generator i", Ri, Rh[i], rtol=0,
                  atol=1e-8 * kappa ** 2 * max(1.0, np.linalg.norm(Rh[i], 2)) ** 2, i=i)
    for w in case["words"]:
        if not w:
            continue
        nm = [names[g] for g in w]
        a = np.asarray(hyp[nm].matrix).T
        b = np.asarray(geo[nm])
        sc = max(1.0, np.linalg.norm(a, 2), np.linalg.norm(b, 2))
        ctx.close("hyperbolic: rho(word) preserves the Minkowski form", a.T @ J @ a, J, rtol=0,
                  atol=1e-10 * kappa * sc ** 2, word=w)
        ctx.close("hyperbolic: conjugate to the geometric representation (trace of a word)",
                  np.trace(a), np.trace(b), rtol=0, atol=1e-10 * kappa * sc * n, word=w)
        Wh, _ = word_matrix(Rh, w, n)
        ctx.close("hyperbolic: isometry of a word is the product of the generators", a, Wh,
                  rtol=0, atol=1e-10 * kappa * sc ** 2, word=w)


# ---------------------------------------------------------------------------
@st.composite
def cartan_case(draw):
    c = draw(coxeter_case(need_inf=True, p_inf=0.35))
    M = c["M"]
    n = len(M)
    params = []
    for i in range(n):
        for j in range(i + 1, n):
            if M[i][j] > 0:
                continue
            kind = draw(st.sampled_from(["none", "sym", "asym", "asym"]))
            if kind == "none":
                continue
            if kind == "sym":
                u = -draw(fl(2.0, 10.0))
                if draw(st.integers(0, 3)) == 0:
                    u = -2.0
                a, b = (i, j) if draw(st.booleans()) else (j, i)
                params.append(dict(i=a, j=b, u=u, v=None))
            else:
                u = -draw(fl(0.4, 10.0))
                prod = draw(st.one_of(st.just(4.0), fl(4.0, 40.0)))
                v = -prod / abs(u)
                if abs(v) > 100:
                    v = -100.0
                params.append(dict(i=i, j=j, u=u, v=v))
    c["params"] = params
    c["pformat"] = draw(st.sampled_from(["dict", "matrix"]))
    c["rename"] = draw(st.sampled_from([None, "alpha", "alphanum"]))
    return c


def body_cartan(case, ctx):
    B, sig = describe(ctx, case)
    M = case["M"]
    n = len(M)
    G, names = build_group(case)
    idx = lib_index(G, names)
    ctx.label("params=" + case["pformat"])
    # parameters are given in the library's generator indices
    want = 2 * B
    compare = np.ones((n, n), dtype=bool)
    pdict = {}
    pmat = np.zeros((n, n))
    honoured = True
    for p in case["params"]:
        i, j = p["i"], p["j"]
        if M[i][j] == 0:
            # an infinite edge written as 0 (the constructor documents 0 and negative alike;
            # cartan_matrix used to look at negative labels only - repaired, now asserted)
            ctx.label("cartan-parameter-on-0-coded-infinity")
        li, lj = idx[i], idx[j]
        pdict[(li, lj)] = p["u"]
        pmat[li, lj] = p["u"]
        if p["v"] is None:
            ctx.label("param=symmetric")
            if M[i][j] <= 0:
                want[i, j] = want[j, i] = p["u"]
        else:
            ctx.label("param=asymmetric")
            pdict[(lj, li)] = p["v"]
            pmat[lj, li] = p["v"]
            if M[i][j] <= 0:
                want[i, j], want[j, i] = p["u"], p["v"]
    if not case["params"]:
        ctx.label("param=none")
    params = pdict if case["pformat"] == "dict" else pmat
    C = np.asarray(G.cartan_matrix(params))
    ctx.check(C.dtype == np.float64 and C.shape == (n, n), "cartan_matrix is a float64 n x n "
              "matrix", dtype=str(C.dtype), shape=C.shape)
    Cp = C[np.ix_(idx, idx)]
    ctx.close("cartan_matrix: diagonal 2, finite edges -2cos(pi/m), parameters on (negative-"
              "coded) infinite edges", np.where(compare, Cp, 0.0), np.where(compare, want, 0.0),
              rtol=0, atol=1e-12)
    # whatever the parameters: a Cartan matrix of this Coxeter group
    for i in range(n):
        for j in range(i + 1, n):
            if X.is_inf(M[i][j]):
                ctx.check(Cp[i, j] * Cp[j, i] >= 4 - 1e-12 and Cp[i, j] < 0 and Cp[j, i] < 0,
                          "cartan_matrix: infinite edge has negative entries with product >= 4",
                          cij=Cp[i, j], cji=Cp[j, i])
    kw = {}
    out_names = names
    if case["rename"] is not None:
        kw = dict(rename_generators=True, generator_style=case["rename"])
        out_names = [None] * n
        for h in range(n):
            li = idx[h]
            out_names[h] = "abcdefgh"[li] if case["rename"] == "alpha" else "s%d" % li
        ctx.label("rename=" + case["rename"])
    tv = G.tits_vinberg_rep(params, **kw)
    R = [permuted(r, G, names) for r in gens(tv, out_names, ctx, "tits_vinberg", n)]
    for i in range(n):
        ctx.close("tits_vinberg: rho(s_i) = I - E_ii C for the Cartan matrix returned by "
                  "cartan_matrix", R[i], X.reflection(Cp, i), rtol=0, atol=1e-12)
    check_relations(ctx, "tits_vinberg", R, M, cartan=Cp)
    # crystallographic case (labels 2, 3, infinity; integral parameters): with dtype=int the
    # same representation comes back in exact integers
    if all(m_ in (1, 2, 3) or X.is_inf(m_) for row in M for m_ in row) and \
            np.allclose(Cp, np.round(Cp), rtol=0, atol=1e-12) and case["rename"] is None and \
            all(float(p_["u"]).is_integer() and (p_["v"] is None or float(p_["v"]).is_integer())
                for p_ in case["params"]):
        ctx.label("integral-cartan-matrix")
        tvi = G.tits_vinberg_rep(params, dtype=int)
        for i, nm in enumerate(names):
            Ai = np.asarray(tvi[nm] if len(nm) == 1 else tvi[[nm]])
            ctx.check(Ai.dtype.kind == "i", "tits_vinberg_rep(dtype=int): integer matrices",
                      dtype=str(Ai.dtype))
            ctx.check(np.array_equal(permuted(Ai, G, names), np.round(R[i]).astype(int)),
                      "tits_vinberg_rep(dtype=int) = the float representation, exactly",
                      got=permuted(Ai, G, names).tolist(), want=np.round(R[i]).tolist())
        # a change of basis with non-integral entries, applied to the integer-typed
        # representation: conjugates of the same reflections, not their integer parts
        Bf = np.eye(n) + 0.5 * np.triu(np.ones((n, n)), 1)
        tc = tvi.conjugate(Bf.copy())
        Bi = np.linalg.inv(Bf)
        for i, nm in enumerate(names):
            Ai = np.asarray(tvi[nm] if len(nm) == 1 else tvi[[nm]]).astype(float)
            Ac = np.asarray(tc[nm] if len(nm) == 1 else tc[[nm]], dtype=float)
            ctx.close("conjugate(B) of the integer-typed representation is B^-1 rho(s) B",
                      Ac, Bi @ Ai @ Bf, rtol=0, atol=1e-10 * max(1.0, np.abs(Ai).max()) * n)
            ctx.close("... and still an involution", Ac @ Ac, np.eye(n), rtol=0,
                      atol=1e-9 * max(1.0, np.abs(Ai).max()) ** 2 * n)
    # the same through cartan_representation on a harness-made Cartan matrix (all
    # parameters honoured, also on 0-coded edges)
    Cfull = 2 * B
    for p in case["params"]:
        i, j = p["i"], p["j"]
        Cfull[i, j] = p["u"]
        Cfull[j, i] = p["u"] if p["v"] is None else p["v"]
    Clib = np.zeros((n, n))
    Clib[np.ix_(idx, idx)] = Cfull
    cr = G.cartan_representation(Clib.copy(), **kw)
    R2 = [permuted(r, G, names) for r in gens(cr, out_names, ctx, "cartan_representation", n)]
    for i in range(n):
        ctx.close("cartan_representation: rho(s_i) = I - E_ii C", R2[i],
                  X.reflection(Cfull, i), rtol=0, atol=1e-12)
    check_relations(ctx, "cartan_representation", R2, M, cartan=Cfull)
    if honoured and case["params"]:
        ctx.label("parameters-honoured")


# ---------------------------------------------------------------------------
@st.composite
def routes_case(draw):
    c = draw(coxeter_case(min_rank=2, max_rank=5))
    c["route"] = "diagram"
    n = len(c["M"])
    pairs = n * (n - 1) // 2
    pool = draw(st.sampled_from([SINGLE_NAMES, MULTI_NAMES]))
    c["names"] = draw(st.permutations(pool))[:n]
    c["edge_order"] = draw(st.permutations(list(range(pairs))))
    c["flip"] = [draw(st.booleans()) for _ in range(pairs)]
    c["style"] = draw(st.sampled_from(["alpha", "alphanum"]))
    c["form"] = draw(st.sampled_from(["list", "array"]))
    # the same group with infinity written differently
    c["recode"] = draw(st.sampled_from([0, -1, -7]))
    c["words"] = draw(words_for(n, count=2, max_len=6))
    return c


def body_routes(case, ctx):
    B, (pos, neg, zero, mn, ev) = describe(ctx, case)
    M = case["M"]
    n = len(M)
    G1, names1 = build_group(case)                       # diagram
    c2 = dict(case, route="matrix",
              M=[[case["recode"] if m <= 0 else m for m in row] for row in M])
    G2, names2 = build_group(c2)                         # matrix, infinity recoded
    ctx.label("style=" + case["style"], "recode=%d" % case["recode"])
    ctx.close("diagram and matrix routes give the same cosine form",
              permuted(G1.bilinear_form(), G1, names1), permuted(G2.bilinear_form(), G2, names2),
              rtol=0, atol=1e-13)
    makers = [("geometric", lambda G: G.geometric_representation()),
              ("canonical", lambda G: G.canonical_representation())]
    if not zero and mn >= 1e-3:
        ctx.label("with-diagonalised")
        makers.append(("diagonalised", lambda G: G.geometric_representation(diagonalize=True)))
    for what, mk in makers:
        r1, r2 = mk(G1), mk(G2)
        for w in [[g] for g in range(n)] + [w for w in case["words"] if w]:
            a = np.asarray(r1[[names1[g] for g in w]])
            b = np.asarray(r2[[names2[g] for g in w]])
            ctx.check(a.dtype == np.float64 and b.dtype == np.float64, what + ": float64",
                      a=str(a.dtype), b=str(b.dtype))
            sc = max(1.0, np.linalg.norm(a, 2)) ** 2
            if what == "diagonalised":
                # the diagonalising basis is only defined up to the stabiliser of D when
                # eigenvalues repeat and depends on the generator order: compare invariants
                ctx.close(what + ": same trace through both routes", np.trace(a), np.trace(b),
                          rtol=0, atol=1e-9 * sc * n / mn)
            else:
                ctx.close(what + ": same matrices through both routes (generators matched by "
                          "name)", permuted(a, G1, names1), permuted(b, G2, names2), rtol=0,
                          atol=1e-11 * sc, word=w)
    # single-character names also work as plain strings
    if len(names1[0]) == 1:
        for w in case["words"]:
            if not w:
                continue
            r = G1.geometric_representation()
            ctx.check(np.array_equal(np.asarray(r["".join(names1[g] for g in w)]),
                                     np.asarray(r[[names1[g] for g in w]])),
                      "string words and list words agree for single-character names", word=w)
            ctx.label("string-word")
    # names of any length work in the documented star syntax (parse_simple=False): this is
    # the only string syntax for the "alphanum" naming style (s0, s1, ...)
    for (G_, names_) in ((G1, names1), (G2, names2)):
        r = G_.geometric_representation()
        for w in case["words"]:
            if not w:
                continue
            star = "*".join(names_[g] for g in w)
            ctx.check(np.array_equal(np.asarray(r.element(star, parse_simple=False)),
                                     np.asarray(r[[names_[g] for g in w]])),
                      "star-syntax words (parse_simple=False) and list words agree", word=star)
            if len(names_[0]) > 1:
                ctx.label("star-word-multichar")


# ---------------------------------------------------------------------------
def triangle_cases(tier):
    vals = [2, 3, 4, 5, 7, 12, 0] if tier == "quick" else list(range(2, 13)) + [0]
    out = []
    for k, (p, q, r) in enumerate(itertools.product(vals, repeat=3)):
        if not X.is_hyperbolic_triple(p, q, r):
            continue
        code = [0, -1, -2][k % 3]
        out.append(dict(pqr=[x if x > 0 else code for x in (p, q, r)],
                        route="triangle" if k % 2 == 0 else "matrix"))
    return [("hyperbolic triangle triples with entries in %s" % (
        "{2,3,4,5,7,12,inf}" if tier == "quick" else "{2..12,inf}"), out)]


def body_triangle(case, ctx):
    p, q, r = case["pqr"]
    ctx.label("route=" + case["route"])
    ninf = sum(1 for x in (p, q, r) if x <= 0)
    ctx.label("ideal-vertices=%d" % ninf, "nontrivial")
    if not X.is_hyperbolic_triple(p, q, r):
        raise HarnessError("not a hyperbolic triple")
    if case["route"] == "triangle":
        G = TriangleGroup((p, q, r))
    else:
        G = CoxeterGroup(matrix=[[1, p, r], [p, 1, q], [r, q, 1]])
    B = X.cosine_matrix([[1, p, r], [p, 1, q], [r, q, 1]])
    pos, neg, zero, mn, ev = X.signature(B)
    if (pos, neg, zero) != (2, 1, 0):
        raise HarnessError("cosine form of a hyperbolic triangle group is not (2,1)")
    kappa = float(np.abs(ev).max() / mn)
    hyp = G.hyperbolic_rep()
    iso = hyp.isometries(["ab", "bc", "ca"])
    ctx.check(iso.shape == (3,), "isometries(['ab','bc','ca']) shape", got=iso.shape)
    fp = iso.fixed_point()
    V = np.asarray(fp.coords("projective"), dtype=float)
    ctx.check(V.shape == (3, 3) and np.all(np.isfinite(V)), "fixed points are finite vectors",
              V=V)
    mats = np.asarray(iso.matrix)
    orders = [p, q, r]
    for k in range(3):
        v = V[k] / np.linalg.norm(V[k])
        img = v @ mats[k]                       # row convention
        # fixed as a projective point
        ctx.small("fixed_point() is fixed by the rotation", np.linalg.norm(
            np.cross(img, v)) / max(1.0, np.linalg.norm(mats[k], 2)), 1e-7 * kappa, k=k)
        nn = X.mink(v, v)
        if orders[k] <= 0:
            ctx.small("vertex with an infinite label is ideal (lightlike)", nn, 1e-6, k=k,
                      v=v)
            # ... and the library's own predicate agrees (measured |<v,v>|/|v|^2 <= 1e-10 over
            # all triples with labels in {2..12, inf}; the predicate's threshold is 1e-8)
            ctx.check(bool(hyperbolic.lightlike(V[k] / np.linalg.norm(V[k]))),
                      "hyperbolic.lightlike() denies that the vertex at an infinite label is "
                      "ideal", k=k, v=V[k], norm=nn)
        else:
            ctx.check(nn < -1e-9, "vertex with a finite label is an interior point", k=k, v=v,
                      norm=nn)
            ctx.check(not bool(hyperbolic.lightlike(v)) and bool(hyperbolic.timelike(v)),
                      "library predicates: a vertex with a finite label is timelike", k=k, v=v)
    for k in range(3):
        if orders[k] <= 0:
            continue
        ang = X.angle_at(V[k], V[(k + 1) % 3], V[(k + 2) % 3])
        if ninf == 0:
            ctx.close("interior angle at the fixed point of the rotation of order m is pi/m",
                      ang, math.pi / orders[k], rtol=0, atol=1e-6, k=k, pqr=[p, q, r])
        else:
            # a parabolic element of SO(2,1) is a single 3x3 Jordan block: its eigenvector
            # (the ideal vertex) is only determined to eps^(1/3) ~ 6e-6 by any eigen-solver
            ctx.close("interior angle pi/m at a finite vertex of a triangle with ideal "
                      "vertices", ang, math.pi / orders[k], rtol=0, atol=2e-4, k=k,
                      pqr=[p, q, r])
    # the same angles measured the way a user would: with the library's tangent vectors at
    # the reported fixed points (fresh Point objects, nothing queried on them before)
    if ninf == 0:
        for k in range(3):
            A_ = hyperbolic.Point(V[k].copy())
            t1 = A_.unit_tangent_towards(hyperbolic.Point(V[(k + 1) % 3].copy()))
            A2 = hyperbolic.Point(V[k].copy())
            t2 = A2.unit_tangent_towards(hyperbolic.Point(V[(k + 2) % 3].copy()))
            ctx.close("angle between the library's unit tangents at a vertex is pi/m",
                      float(t1.angle(t2)), math.pi / orders[k], rtol=0, atol=1e-6, k=k,
                      pqr=[p, q, r])
        # the sides as the library measures them between the reported vertices, and the
        # angles the hyperbolic law of cosines gives for them
        side = [float(np.asarray(hyperbolic.Point(V[(k + 1) % 3].copy()).distance(
            hyperbolic.Point(V[(k + 2) % 3].copy())))) for k in range(3)]
        ctx.check(all(math.isfinite(x) and x > 1e-3 for x in side), "the library's distances "
                  "between the three (distinct) vertices are positive", sides=side)
        for k in range(3):
            a_, b_, c_ = side[(k + 1) % 3], side[(k + 2) % 3], side[k]
            cs = (math.cosh(a_) * math.cosh(b_) - math.cosh(c_)) / (math.sinh(a_) * math.sinh(b_))
            ctx.close("law of cosines on the library's side lengths gives pi/m",
                      math.acos(max(-1.0, min(1.0, cs))), math.pi / orders[k], rtol=0,
                      atol=1e-6, k=k, sides=side)
        # all three at once, on the composite the library returned (its own representatives,
        # which need not lie on one sheet of the hyperboloid)
        nxt = fp[[1, 2, 0]]
        prv = fp[[2, 0, 1]]
        angs = np.asarray(fp.unit_tangent_towards(nxt).angle(fp.unit_tangent_towards(prv)),
                          dtype=float)
        ctx.check(angs.shape == (3,), "composite angle shape", got=angs.shape)
        ctx.close("angles of the composite of the three vertices are pi/p, pi/q, pi/r", angs,
                  np.array([math.pi / m for m in orders]), rtol=0, atol=1e-6, pqr=[p, q, r])
    # the three mirrors: each generator fixes the two vertices on its wall
    gens_ = hyp.isometries(["a", "b", "c"])
    gm = np.asarray(gens_.matrix)
    on_wall = {0: (0, 2), 1: (0, 1), 2: (1, 2)}    # a fixes vertices ab and ca, ...
    for g, vs in on_wall.items():
        for k in vs:
            v = V[k] / np.linalg.norm(V[k])
            img = v @ gm[g]
            ctx.small("a generator fixes the vertices on its mirror", np.linalg.norm(
                np.cross(img, v)) / max(1.0, np.linalg.norm(gm[g], 2)),
                2e-4 if orders[k] <= 0 else 1e-7 * kappa, g=g, k=k)


LAWS = [
    Law("cosine_form", coxeter_case(), body_cosine, nt, quick=200, thorough=2000,
        shards=(1, 2)),
    Law("relations_geometric_preserves_form", case_with_words(), body_geometric, nt, quick=150,
        thorough=1500, shards=(2, 6)),
    Law("canonical_is_dual", case_with_words(), body_canonical, nt, quick=150, thorough=1500,
        shards=(2, 6)),
    Law("diagonalised_and_hyperbolic", case_with_words(p_inf=0.3), body_diagonalised, nt,
        quick=150, thorough=1500, shards=(2, 8)),
    Law("cartan_tits_vinberg", cartan_case(), body_cartan, nt, quick=150, thorough=1500,
        shards=(2, 6)),
    Law("constructor_routes_agree", routes_case(), body_routes, nt, quick=100, thorough=1000,
        shards=(2, 4)),
    Law("triangle_angles", None, body_triangle, nt, exhaustive=triangle_cases),
]
