"""C09 - an automaton's three views stay coherent however it was built or edited.

A *history* is a JSON value {"init": <construction>, "nv": .., "nl": .., "steps":
[{"op": name, "a": [ints]}, ...]}.  Every integer is interpreted modulo the
current state of a plain set model (vt/oracles/fsa_model.GraphModel), so every
list of steps is a valid history; each step is applied to the library FSA and to
the model, and all three views are compared with the model after every step
(as multisets: an edge listed twice is a difference).  Results of non-in-place
operations and deep copies are kept as *shadows* together with a frozen model
and compared again after every later step (aliasing between an original and a
derived automaton shows up there).
"""
import os
import copy
import itertools
from hypothesis import strategies as st

from ..core import Law, HarnessError
from ..oracles import fsa_model as M
from ..oracles import kbmag_text as K
from ..oracles.fsa_model import GraphModel, check_views, check_pair_queries, snapshot, vkey

from geometry_tools.automata import fsa as fsa_mod
from geometry_tools.automata import gap_parse
from geometry_tools.automata.fsa import FSA, FSAException

RULE = ("histories: a construction (label->target dict with hidden target-only vertices, "
        "target->labels dict, empty automaton + incremental edits, free_automaton, builtin "
        "file, rendered kbmag record) followed by <= 40 steps drawn from add_vertices, "
        "add_edges (single / several / elist=True lists; new pair, already connected pair, "
        "label already present, brand-new vertex; ignore_redundant=False on new edges), "
        "delete_vertex, delete_vertices, recurrent, rename_generators (injective maps), "
        "remove_long_paths, automaton_multiple / even_automaton, deepcopy, start_vertices "
        "assignment (in-place or continuing on the result) and the read-only calls has_edge, "
        "edge_labels, edge_label, neighbors_*, edges_*, accepts, follow_word, "
        "initial_accepted_subword, enumerate_words on present and absent labels; all indices "
        "modulo the model state; universe <= 5 vertices, <= 4 labels; bounded-exhaustive over "
        "3 vertices / 2 labels: every history of depth <= 2 over a 66-step alphabet from 4 "
        "constructions (quick: + depth 3 from the empty automaton, 40-step alphabet; thorough: "
        "+ depth 3 from the empty automaton over all 66 steps and from the 3 dictionary "
        "constructions over 40 steps, + depth 4 from the empty automaton over a 24-step core "
        "alphabet).  kbmag records: 1-3 records, 1-6 states, 0-4 identifier names (optionally "
        "x^-1 style, optionally quoted), entries 0..n with all-zero and consecutive-run rows, "
        "[a..b] intervals, optional fields in rotated order, spacing from the parser's "
        "whitespace set at every token gap.  non-trivial history = >= 3 executed steps with an "
        "edit, containing an add between already connected vertices, a re-added present "
        "label, a delete after an add, an edit after a query, or a continuation on a derived "
        "automaton; non-trivial record = >= 2 states, a 0 entry and an interval or a second "
        "record.  distinct = distinct JSON case.")

ASSUMPTIONS = [
    "edits keep the automaton deterministic (documented class constraint): the model redirects "
    "an added label that already leaves the tail to its existing head (a redundant add)",
    "label lists given to add_edges(elist=True) and to the target->labels constructor are "
    "non-empty and duplicate-free; every vertex of a target->labels dictionary is a key",
    "the incoming view is read as a defaultdict: a missing top-level key and an empty entry "
    "are the same description of 'no incoming edges' (neighbors_in adds such an entry)",
    "rename maps are injective on the labels present; labels are strings, vertices ints/strings",
    "automaton_multiple is only applied when all labels have the same length (concatenated "
    "labels of mixed lengths can collide and make the product non-deterministic)",
    "kbmag text: tokens are atomic (no whitespace inside [a..b], rec( or :=), identifiers do "
    "not start with a digit, strings contain no double quote, LF line ends",
    "remove_long_paths(edge_ties=False) is checked against a validity predicate (any "
    "shortest-path tree) and its result adopted by the model",
]

CLAIM = dict(
    text="After every construction route and every history of edits and read-only calls "
         "explored, the label, outgoing and incoming views of an FSA list exactly the edge "
         "set of a set-based model, each edge once, on the same vertex set; kbmag records "
         "are loaded to exactly the table and start state in the text.",
    note="bounded-exhaustive over a 3-vertex / 2-label universe (depth <= 2 in full, depth 3 "
         "and 4 over reduced step alphabets), random histories up to 40 steps, all 18 "
         "builtin files, grammar-generated records; optional atheris campaign on the record "
         "parser in the thorough tier when atheris is installed under .deps",
    technique="model-based stateful testing (JSON histories modulo model state), "
              "bounded-exhaustive enumeration, grammar-based generation, coverage-guided "
              "fuzzing (atheris) with the same round-trip oracle",
)

EDIT_OPS = ["add_vertices", "add_edge", "add_edges", "add_elist", "delete_vertex",
            "delete_vertices", "recurrent", "rename", "rlp", "multiple", "copy", "set_start"]
QUERY_OPS = ["q_pairs", "q_nbrs", "q_word", "q_enum", "q_prefix"]
FOREIGN = "z"
SMALL_BUILTINS = ["f2.wa", "f2.geowa", "pentagon_ra.wa", "cone_torus.wa", "cox334.wa"]


# ---------------------------------------------------------------------------
# construction routes
def build_init(init, ctx, guards=None):
    """(library FSA, model) for an init description; `guards` collects (object handed to
    the constructor, deep copy made before): the caller's dictionary must stay as it was"""
    guards = guards if guards is not None else []
    route = init["route"]
    ctx.label("init=" + route)
    if route in ("dict", "alt"):
        m = GraphModel.from_pairs(init["graph"], start=init.get("start", []))
        if not m.is_deterministic():
            raise HarnessError("non-deterministic init graph")
        if route == "dict":
            if len(m.verts) > len(init["graph"]):
                ctx.label("hidden-vertices")
            src = M.pairs_to_graph_dict(init["graph"])
            guards.append((src, copy.deepcopy(src)))
            A = FSA(src, start_vertices=list(m.start))
        else:
            if init.get("omit_sink_keys") and any(
                    not m.nbrs_out(v) and m.nbrs_in(v) for v in m.verts):
                # family excluded from the claim (see ASSUMPTIONS / report): a target->labels
                # dictionary whose edge-less target vertices are not keys; counted, and built
                # with every vertex as a key instead
                ctx.label("alt-dict-with-target-only-vertex")
            src = M.model_to_alt_dict(m)
            if init.get("omit_sink_keys"):
                # (used to be excluded: the target->labels route omitted target-only vertices
                # from the outgoing and label views; repaired, now under test)
                for v in list(src):
                    if not m.nbrs_out(v) and m.nbrs_in(v):
                        del src[v]
            guards.append((src, copy.deepcopy(src)))
            A = FSA(src, start_vertices=list(m.start), graph_dict=False)
        return A, m
    if route == "empty":
        m = GraphModel(start=init.get("start", []))
        if init.get("noargs"):
            A = FSA()
            A.start_vertices = list(m.start)
        else:
            A = FSA({}, start_vertices=list(m.start))
        return A, m
    if route == "free":
        gens = init["gens"]
        A = fsa_mod.free_automaton("".join(gens) if init.get("as_string") else list(gens))
        return A, M.free_model(gens)
    if route == "builtin":
        name = init["name"]
        path = os.path.join(os.path.dirname(fsa_mod.__file__), "builtin", name)
        with open(path) as f:
            names, rows, k = K.regex_read(f.read())
        m = K.table_model(names, rows, k)
        A = fsa_mod.load_builtin(name)
        ctx.check(list(A.start_vertices) == [k], "start state of a builtin automaton",
                  got=list(A.start_vertices), want=[k], file=name)
        A.start_vertices = list(A.start_vertices)
        return A, m
    if route == "kbmag":
        spec = init["spec"]
        text = K.render(spec)
        rec = spec["records"][K.first_fsa(spec)]
        A = fsa_mod._from_gap_record(gap_parse.parse_record(text)[0])
        A.start_vertices = list(A.start_vertices)   # [k..k] is parsed to a range
        return A, K.table_model(rec["names"], rec["table"], rec["initial"])
    raise HarnessError("unknown init route %r" % (route,))


# ---------------------------------------------------------------------------
# the interpreter
class Machine:
    def __init__(self, case, ctx, allow_queries=True, strict_queries=True):
        self.ctx = ctx
        # strict_queries=False: a read-only step only has its answers compared; the views
        # are compared again after the next edit (law edits_after_queries: what an edit does
        # after read-only calls is a claim of its own, not hidden behind the purity check)
        self.strict_queries = strict_queries
        self.uv = list(range(case.get("nv", 3)))
        self.ul = list("abcd"[:case.get("nl", 2)])
        self.allow_queries = allow_queries
        self.guards = []
        self.fsa, self.m = build_init(case["init"], ctx, self.guards)
        self.shadows = []            # (fsa, frozen model, what)
        self.trace = ["init " + case["init"]["route"]]
        self.nexec = 0
        self.added = False
        self.queried = False
        self.fresh = 100
        self.where = "init"
        self.check_all()

    # -- resolution of indices -------------------------------------------
    def v_any(self, i):
        pool = self.m.verts + [u for u in self.uv if u not in self.m.verts]
        return pool[i % len(pool)]

    def v_cur(self, i):
        return self.m.verts[i % len(self.m.verts)] if self.m.verts else None

    def v_new(self):
        while self.fresh in self.m.verts:
            self.fresh += 1
        return self.fresh

    def label_pool(self):
        return self.ul + [l for l in self.m.labels() if l not in self.ul]

    def l_any(self, i):
        pool = self.label_pool()
        return pool[i % len(pool)]

    def pick_edge(self, mode, i, j, k):
        """(tail, head, label, class) for an add; deterministic by construction"""
        edges = self.m.sorted_edges()
        mode = mode % 4
        if mode in (1, 2) and not edges:
            mode = 0
        if mode == 0:
            t, h, l = self.v_any(i), self.v_any(j), self.l_any(k)
        elif mode == 1:                     # new label between connected vertices
            t, h, _ = edges[i % len(edges)]
            l = self.l_any(k)
        elif mode == 2:                     # re-add a present edge
            t, h, l = edges[i % len(edges)]
        else:                               # towards / from a brand-new vertex
            if j % 2 or not self.m.verts:
                t, h = self.v_any(i), self.v_new()
            else:
                t, h = self.v_new(), self.v_any(i)
            l = self.l_any(k)
        return t, h, l

    # -- checks -----------------------------------------------------------
    def check_all(self):
        check_views(self.fsa, self.m, self.ctx, where=self.where)
        for (F, fm, what) in self.shadows:
            check_views(F, fm, self.ctx, where="%s; shadow: %s" % (self.where, what),
                        accessors=False)

    def shadow(self, F, fm, what):
        self.shadows.append((F, fm.copy(), what))
        if len(self.shadows) > 3:
            self.shadows.pop(0)

    def derived(self, R, rm, switch, what):
        """a non-in-place operation returned R (predicted rm)"""
        self.ctx.check(isinstance(R, FSA), what + " returns an FSA", got=repr(R))
        check_views(R, rm, self.ctx, where=self.where + " (result)")
        check_views(self.fsa, self.m, self.ctx, where=self.where + " (receiver unchanged)")
        if switch % 2:
            self.shadow(self.fsa, self.m, "receiver of " + what)
            self.fsa, self.m = R, rm
            self.ctx.label("derived-switch", "switch:" + what.split("(")[0])
            if self.added:
                self.ctx.label("derived-after-edit")
        else:
            self.shadow(R, rm, "result of " + what)

    # -- steps ------------------------------------------------------------
    def run(self, steps):
        for n, s in enumerate(steps):
            op, a = s["op"], list(s.get("a", [])) + [0] * 8
            if op in QUERY_OPS and not self.allow_queries:
                continue
            self.where = "step %d: %s" % (n, op)
            done = getattr(self, "op_" + op)(a)
            if done is False:
                self.ctx.label("skipped")
                self.trace.append("skip " + op)
                continue
            self.nexec += 1
            self.ctx.label("op=" + op)
            self.where = "after step %d: %s" % (n, self.trace[-1])
            if op in QUERY_OPS:
                self.queried = True
                if not self.strict_queries:
                    continue
            elif op not in ("copy", "set_start"):
                if self.queried:
                    self.ctx.label("edit-after-query")
            self.check_all()
        for (src, ref) in self.guards:
            self.ctx.check(src == ref, "the dictionary handed to the constructor was modified by "
                           "the automaton built from it", now=repr(src)[:300],
                           was=repr(ref)[:300], trace=self.trace[-8:])
        if self.nexec >= 3:
            self.ctx.label("len>=3")
        if self.nexec >= 10:
            self.ctx.label("len>=10")

    def op_add_vertices(self, a):
        vs = [self.v_any(a[0]), self.v_any(a[1])][:1 + a[2] % 2]
        self.trace.append("add_vertices(%r)" % (vs,))
        self.fsa.add_vertices(list(vs))
        self.m.add_vertices(vs)

    def _classify_add(self, t, h, l):
        if (t, h, l) in self.m.edges:
            self.ctx.label("readd-present")
        elif self.m.labels_between(t, h):
            self.ctx.label("add-on-connected")
        elif t in self.m.verts and h in self.m.verts:
            self.ctx.label("add-new-pair")
        else:
            self.ctx.label("add-new-vertex")
        self.added = True

    def _resolve_single(self, a, extra=()):
        """a deterministic single edge; `extra` = edges already resolved in the same call"""
        t, h, l = self.pick_edge(a[0], a[1], a[2], a[3])
        for (t2, h2, l2) in list(extra) + list(self.m.edges):
            if t2 == t and l2 == l:
                h = h2
                break
        return t, h, l

    def op_add_edge(self, a):
        t, h, l = self._resolve_single(a)
        new = (t, h, l) not in self.m.edges
        kw = {}
        if a[4] % 5 == 0 and new:
            kw["ignore_redundant"] = False
        elif a[4] % 5 == 1:
            kw["elist"] = False
        self._classify_add(t, h, l)
        self.trace.append("add_edges([%r]%s)" % ((t, h, l), "".join(
            ", %s=%r" % kv for kv in kw.items())))
        self.fsa.add_edges([(t, h, l)], **kw)
        self.m.add_edge(t, h, l)

    def op_add_edges(self, a):
        # a[0]: count; entry c: mode a[1+c], tail a[4]+c*a[7], head a[5]+c, label a[6]+c
        cnt = 2 + a[0] % 2
        es = []
        for c in range(cnt):
            es.append(self._resolve_single([a[1 + c], a[4] + c * a[7], a[5] + c, a[6] + c], es))
        for e in es:
            self._classify_add(*e)
        self.trace.append("add_edges(%r)" % (es,))
        self.fsa.add_edges([tuple(e) for e in es])
        for e in es:
            self.m.add_edge(*e)

    def op_add_elist(self, a):
        # a[0]: count-1; entry 0: mode a[1], tail a[2], head a[3], label mask a[7];
        # entry 1: mode a[4], tail a[5], head a[6], label mask a[6] + a[7]
        cnt = 1 + a[0] % 2
        entries, flat = [], []
        for c in range(cnt):
            mode, i, j = a[1 + 3 * c], a[2 + 3 * c], a[3 + 3 * c]
            mk = a[7] + (a[6] if c else 0)
            t, h, l0 = self.pick_edge(mode, i, j, mk)
            pool = self.label_pool()
            p = min(len(pool), 4)
            mask = 1 + mk % (2 ** p - 1)
            labs = [pool[x] for x in range(p) if mask >> x & 1]
            if mode % 4 == 2 and l0 not in labs:
                labs = [l0] + labs
            keep = []
            for l in labs:
                tgt = None
                for (t2, h2, l2) in flat + list(self.m.edges):
                    if t2 == t and l2 == l:
                        tgt = h2
                        break
                if tgt is None or tgt == h:
                    keep.append(l)
            if not keep:
                # an empty label list adds nothing (it used to leave a phantom neighbour)
                self.ctx.label("elist-with-empty-label-list")
                entries.append((t, h, []))
                continue
            if mode % 8 == 5:
                # a label repeated inside the list is still one edge
                self.ctx.label("elist-with-repeated-label")
                keep = keep + keep[:1]
            entries.append((t, h, keep))
            flat.extend((t, h, l) for l in keep)
        if not entries:
            return False
        for e in flat:
            self._classify_add(*e)
        if any(len(labs) > 1 for (_, _, labs) in entries):
            self.ctx.label("elist-multi")
        if any((t, h, l) in self.m.edges for (t, h, l) in flat) and \
                any((t, h, l) not in self.m.edges for (t, h, l) in flat):
            self.ctx.label("elist-present-and-new")
        self.trace.append("add_edges(%r, elist=True)" % (entries,))
        self.fsa.add_edges([(t, h, list(labs)) for (t, h, labs) in entries], elist=True)
        for e in flat:
            self.m.add_edge(*e)
        for (t, h, labs) in entries:
            if not labs:        # add_edges adds the two vertices even when it adds no edge
                self.m.add_vertices([t, h])

    def op_delete_vertex(self, a):
        v = self.v_cur(a[0])
        if v is None:
            return False
        self.trace.append("delete_vertex(%r)" % (v,))
        if self.added:
            self.ctx.label("delete-after-add")
        if v in self.m.nbrs_out(v):
            self.ctx.label("delete-with-loop")
        self.fsa.delete_vertex(v)
        self.m.delete_vertex(v)

    def op_delete_vertices(self, a):
        if len(self.m.verts) < 2:
            return False
        v, w = self.v_cur(a[0]), self.v_cur(a[1])
        vs = [v] if v == w else [v, w]
        self.trace.append("delete_vertices(%r)" % (vs,))
        if self.added:
            self.ctx.label("delete-after-add")
        # the vertices to delete as a list, a tuple, a set, or a one-shot iterator
        how = (len(self.trace) + len(vs)) % 4
        arg = [list(vs), tuple(vs), iter(list(vs)), (x for x in vs)][how]
        if how >= 2:
            self.ctx.label("delete_vertices(iterator)")
        self.fsa.delete_vertices(arg)
        for x in vs:
            self.m.delete_vertex(x)

    def op_recurrent(self, a):
        rm = self.m.recurrent()
        if len(rm.verts) < len(self.m.verts):
            self.ctx.label("recurrent-prunes")
        if a[0] % 2:
            self.trace.append("recurrent(inplace=True)")
            r = self.fsa.recurrent(inplace=True)
            self.ctx.check(r is None, "recurrent(inplace=True) returns None", got=repr(r))
            self.m = rm
        else:
            self.trace.append("recurrent(inplace=False)")
            R = self.fsa.recurrent(inplace=False) if a[2] % 2 else self.fsa.recurrent()
            self.derived(R, rm, a[1], "recurrent()")

    def op_rename(self, a):
        pool = sorted(set(self.m.labels()) | set(self.ul) | {"x", "y"}, key=vkey)
        shift = a[0] % len(pool)
        mp = {pool[i]: pool[(i + shift) % len(pool)] for i in range(len(pool))}
        if a[3] % 2:      # only the labels present (the documented minimum)
            mp = {l: mp[l] for l in self.m.labels()}
        rm = self.m.renamed(mp)
        if rm.edges != self.m.edges:
            self.ctx.label("rename-changes")
        if a[1] % 2:
            self.trace.append("rename_generators(%r, inplace=True)" % (mp,))
            r = (self.fsa.rename_generators(dict(mp), inplace=True) if a[4] % 2
                 else self.fsa.rename_generators(dict(mp)))
            self.ctx.check(r is None, "rename_generators(inplace=True) returns None",
                           got=repr(r))
            self.m = rm
        else:
            self.trace.append("rename_generators(%r, inplace=False)" % (mp,))
            R = self.fsa.rename_generators(dict(mp), inplace=False)
            self.derived(R, rm, a[2], "rename_generators()")

    def _start_ok(self):
        return len(self.m.start) == 1 and self.m.start[0] in self.m.verts

    def op_rlp(self, a):
        root = self.v_cur(a[0])
        if root is None:
            return False
        ties = bool(a[1] % 2)
        kw = {}
        if a[3] % 3 == 0 and self._start_ok():
            root = self.m.start[0]
        else:
            kw["root"] = root
        if not ties or a[4] % 2:
            kw["edge_ties"] = ties
        self.trace.append("remove_long_paths(%s)" % ", ".join("%s=%r" % kv for kv in kw.items()))
        R = self.fsa.remove_long_paths(**kw)
        if ties:
            rm = self.m.shortest_path_model(root)
        else:
            self.ctx.check(isinstance(R, FSA), "remove_long_paths returns an FSA")
            got = [(t, h, l) for t, nb in R.graph_dict.items() for l, h in nb.items()]
            msg = self.m.check_shortest_tree(root, got)
            self.ctx.check(msg is None, "remove_long_paths(edge_ties=False) is not a "
                           "shortest-path tree", why=msg, got=got, where=self.where)
            rm = GraphModel(start=[])
            rm.verts = list(self.m.verts)
            rm.edges = set(got)
        if len(rm.edges) < len(self.m.edges):
            self.ctx.label("rlp-prunes")
        # the result has no start vertices (documented in CONVENTIONS): its list must be empty
        self.derived(R, rm, a[2], "remove_long_paths()")

    def op_multiple(self, a):
        if not self._start_ok():
            return False
        if len({len(l) for l in self.m.labels()}) > 1:
            return False      # concatenations of labels of mixed lengths are ambiguous
        k = 1 + a[0] % 3
        if len(self.m.labels()) ** k > 64:
            k = 1
        rm = self.m.multiple(k)
        if a[2] % 2 and k == 2:
            self.trace.append("even_automaton()")
            R = self.fsa.even_automaton()
        else:
            self.trace.append("automaton_multiple(%d)" % k)
            R = self.fsa.automaton_multiple(k)
        if k > 1 and rm.edges:
            self.ctx.label("multiple-k>1")
        self.derived(R, rm, a[1], "automaton_multiple()")

    def op_copy(self, a):
        self.trace.append("deepcopy")
        R = copy.deepcopy(self.fsa)
        self.derived(R, self.m.copy(), a[0], "deepcopy()")

    def op_set_start(self, a):
        v = self.v_cur(a[0])
        new = [] if (v is None or a[1] % 5 == 0) else [v]
        self.trace.append("start_vertices = %r" % (new,))
        self.fsa.start_vertices = list(new)
        self.m.start = list(new)

    # -- read-only steps --------------------------------------------------
    def _pure(self, before, what):
        if not self.strict_queries:
            return
        after = snapshot(self.fsa)
        if after != before:
            self.ctx.fail("a read-only call changed a view", call=what,
                          before=repr(before)[:700], after=repr(after)[:700],
                          trace=self.trace[-8:])

    def op_q_pairs(self, a):
        if not self.m.verts:
            return False
        before = snapshot(self.fsa)
        if a[2] % 2:
            vs = self.m.verts[:6]
            self.trace.append("has_edge/edge_labels/edge_label on all pairs of %r" % (vs,))
            pairs = [(t, h) for t in vs for h in vs]
        else:
            pairs = [(self.v_cur(a[0]), self.v_cur(a[1]))]
            self.trace.append("has_edge/edge_labels/edge_label%r" % (pairs[0],))
        for (t, h) in pairs:
            if not self.m.labels_between(t, h):
                self.ctx.label("query-non-adjacent")
            check_pair_queries(self.fsa, self.m, self.ctx, t, h, where=self.where)
        self._pure(before, self.trace[-1])

    def op_q_nbrs(self, a):
        v = self.v_cur(a[0])
        if v is None:
            return False
        before = snapshot(self.fsa)
        self.trace.append("neighbors/edges in/out of %r" % (v,))
        no = list(self.fsa.neighbors_out(v))
        ni = list(self.fsa.neighbors_in(v))
        eo = list(self.fsa.edges_out(v))
        ei = list(self.fsa.edges_in(v))
        self.ctx.check(sorted(no, key=vkey) == sorted(self.m.nbrs_out(v), key=vkey) and
                       sorted(ni, key=vkey) == sorted(self.m.nbrs_in(v), key=vkey),
                       "neighbors_out / neighbors_in differ from the model", vertex=v, out=no,
                       into=ni, where=self.where)
        self.ctx.check(sorted(eo, key=repr) == sorted((e for e in self.m.edges if e[0] == v),
                                                      key=repr) and
                       sorted(ei, key=repr) == sorted((e for e in self.m.edges if e[1] == v),
                                                      key=repr),
                       "edges_out / edges_in differ from the model", vertex=v, out=eo, into=ei,
                       where=self.where)
        self._pure(before, self.trace[-1])

    def _word(self, a):
        pool = [FOREIGN] + self.label_pool()      # index 0 is always the absent label
        n = a[2] % 5
        return [pool[(a[3 + i] + (a[1] if i else 0)) % len(pool)] for i in range(n)]

    def op_q_word(self, a):
        v = self.v_cur(a[0])
        if v is None:
            return False
        word = self._word(a)
        kw = {}
        if a[7] % 3 == 0 and self._start_ok():
            v = self.m.start[0]
        else:
            kw["start_vertex"] = v
        arg = "".join(word) if (a[7] % 2 and all(len(l) == 1 for l in word)) else list(word)
        before = snapshot(self.fsa)
        self.trace.append("accepts/follow_word(%r%s)" % (arg, "".join(
            ", %s=%r" % kv for kv in kw.items())))
        end, _ = self.m.follow(word, v)
        if FOREIGN in word:
            self.ctx.label("query-absent-label")
        self.ctx.label("word-accepted" if end is not None else "word-rejected")
        got = self.fsa.accepts(arg, **kw)
        try:
            res = ("end", self.fsa.follow_word(arg, **kw))
        except FSAException:
            res = ("rejected", None)
        self._pure(before, self.trace[-1])
        self.ctx.check(got is (end is not None), "accepts differs from the model", word=arg,
                       start=v, got=repr(got), want=end is not None, trace=self.trace[-8:])
        want = ("end", end) if end is not None else ("rejected", None)
        self.ctx.check(res == want, "follow_word differs from the model", word=arg, start=v,
                       got=repr(res), want=repr(want), trace=self.trace[-8:])

    def op_q_prefix(self, a):
        if not self._start_ok():
            return False
        word = self._word(a)
        arg = "".join(word) if (a[7] % 2 and all(len(l) == 1 for l in word)) else list(word)
        before = snapshot(self.fsa)
        self.trace.append("initial_accepted_subword(%r)" % (arg,))
        _, n = self.m.follow(word, self.m.start[0])
        got = self.fsa.initial_accepted_subword(arg)
        self.ctx.check(got == "".join(word[:n]), "initial_accepted_subword differs from the "
                       "model", word=arg, got=got, want="".join(word[:n]))
        self._pure(before, self.trace[-1])

    def op_q_enum(self, a):
        v = self.v_cur(a[0])
        if v is None:
            return False
        L = a[1] % 3
        if len(self.m.labels()) ** L > 64:
            L = 1
        before = snapshot(self.fsa)
        self.trace.append("enumerate_words(%d, start_vertex=%r, with_states=True)" % (L, v))
        got = list(self.fsa.enumerate_words(L, start_vertex=v, with_states=True))
        want = [("".join(w), e) for n in range(L + 1) for (w, e) in self.m.paths(v, n)]
        self.ctx.check(sorted(got, key=repr) == sorted(want, key=repr),
                       "enumerate_words differs from the model", start=v, L=L,
                       got=sorted(got, key=repr)[:12], want=sorted(want, key=repr)[:12])
        self._pure(before, self.trace[-1])


def run_history(case, ctx, allow_queries=True, strict_queries=True):
    mach = Machine(case, ctx, allow_queries=allow_queries, strict_queries=strict_queries)
    try:
        mach.run(case["steps"])
    except Exception as e:
        # make the resolved operations visible in the report, whatever went wrong
        if hasattr(e, "detail") and isinstance(getattr(e, "detail"), dict):
            e.detail.setdefault("trace", mach.trace[-12:])
        else:
            try:
                e.add_note("history: " + " ; ".join(mach.trace[-12:]))
            except Exception:
                pass
        raise
    return mach


def body_history(case, ctx):
    if case.get("fan"):
        return body_fan(case, ctx)
    run_history(case, ctx, allow_queries=True)


def body_fan(case, ctx):
    """bounded-exhaustive batches: the history `steps` extended by every single step of
    the named alphabet (each extension is replayed from the construction on a fresh
    automaton; a failure reports the full extended history)"""
    import traceback
    from ..core import Violation
    from ..engine import classify_exception
    alphabet = FAN_ALPHABETS[case["fan"]]
    ctx.label("fan=" + case["fan"])
    for last in alphabet:
        full = dict(nv=case["nv"], nl=case["nl"], init=case["init"],
                    steps=list(case["steps"]) + [last])
        try:
            run_history(full, ctx, allow_queries=True)
        except Violation as v:
            v.detail["history"] = full
            raise
        except HarnessError:
            raise
        except Exception as e:
            if classify_exception(e) != "library":
                raise
            ctx.fail("%s: %s (library exception in an enumerated history)"
                     % (type(e).__name__, e), history=full,
                     traceback=traceback.format_exc(limit=-4))


def body_history_edits(case, ctx):
    run_history(case, ctx, allow_queries=False)


def body_history_lenient(case, ctx):
    run_history(case, ctx, allow_queries=True, strict_queries=False)


def nt_history(labels):
    if "len>=3" not in labels:
        return False
    if not any(l.startswith("op=") and l[3:] in EDIT_OPS[:10] for l in labels):
        return False
    return bool({"add-on-connected", "readd-present", "delete-after-add", "edit-after-query",
                 "derived-switch"} & set(labels))


# ---------------------------------------------------------------------------
# strategies
import functools


@functools.lru_cache(maxsize=None)
def _keys_st(nv, min_keys):
    return st.lists(st.integers(0, nv - 1), min_size=min_keys, max_size=nv, unique=True)


@functools.lru_cache(maxsize=None)
def _rows_st(nv, nl, lo):
    return st.lists(st.lists(st.integers(lo, nv - 1), min_size=nl, max_size=nl),
                    min_size=nv, max_size=nv)


@st.composite
def graph_pairs(draw, nv, nl, min_keys=0):
    """[[v, [[label, head], ...]], ...]: a deterministic label->target dictionary
    over vertices 0..nv-1 and labels 'abcd'[:nl]; heads need not be keys"""
    keys = draw(_keys_st(nv, min_keys))
    lo = draw(st.sampled_from([-3 * nv, -nv, -1, 0]))       # negative = no edge: density
    rows = draw(_rows_st(nv, nl, lo))
    return [[v, [[l, h] for l, h in zip("abcd"[:nl], row) if h >= 0]]
            for v, row in zip(keys, rows)]


def _verts_of(graph):
    vs = []
    for v, nb in graph:
        if v not in vs:
            vs.append(v)
    for v, nb in graph:
        for _, h in nb:
            if h not in vs:
                vs.append(h)
    return vs


@st.composite
def start_for(draw, verts):
    if not verts or draw(st.integers(0, 7)) == 0:
        return []
    return [draw(st.sampled_from(verts))]


_EXTRAS_ST = st.lists(st.sampled_from(
    ["alphabet.type", "alphabet.size", "alphabet.format", "states", "flags", "accepting",
     "ratio", "word", "table.format", "table.numTransitions"]), unique=True, max_size=10)
_STRINGS_ST = st.lists(st.sampled_from(
    ["DFA", "minimized", "BFS", "accessible", "trim", "", "a,b", "rec(", ")", "]", "[1..3]",
     "x := y", "dense deterministic", "two words", ";", " lead", "trail ", " ",
     "tab\tinside"]), max_size=4)
_IDENT_ST = st.builds(lambda c, rest, inv: c + rest + ("^-1" if inv == 0 else ""),
                      st.sampled_from("abcdxyzABXYrst_"),
                      st.text(alphabet="abAB019_rxe", max_size=3), st.integers(0, 5))
_NAME_ST = st.one_of(st.sampled_from(["a", "A", "b", "B", "c", "r", "rec"]), _IDENT_ST)
_NAMES_ST = st.lists(_NAME_ST, unique=True, max_size=4)
_KINDS_ST = st.lists(st.integers(0, 5), min_size=6, max_size=6)
_RAW_ST = st.lists(st.lists(st.integers(-3, 6), min_size=5, max_size=5), min_size=6, max_size=6)
_HEAD_ST = st.tuples(st.sampled_from([0, 0, 1, 12]), st.integers(0, 7),   # ratio
                     st.sampled_from([0, 1, 2, 2, 3]),                     # at least .. names
                     st.integers(0, 11),                                   # number of states
                     st.booleans(), st.booleans(),                         # quote, interval rows
                     st.integers(0, 5), st.integers(0, 3), st.integers(0, 7))
WS_ATOM = st.text(alphabet=K.WS, max_size=3)
_WS_LIST_ST = st.lists(st.one_of(WS_ATOM, st.sampled_from(list(K.WS) + ["", "\n  "])),
                       min_size=2, max_size=12)
_REC_NAMES_ST = st.permutations(["_RWS.wa", "_RWS.geowa", "_RWS.diff2", "_RWS_Sub1.wa", "G.gm",
                                 "x", "rws"])


@st.composite
def kbmag_rec(draw, fsa=True, max_states=6, max_names=4):
    (r0, r1, min_names, nsel, quote, ivrows, init, init_iv, rot) = draw(_HEAD_ST)
    rec = dict(fsa=fsa, extras=sorted(draw(_EXTRAS_ST)), strings=draw(_STRINGS_ST),
               ratio=[r0, r1])
    if not fsa:
        return rec
    names = draw(_NAMES_ST)[:max_names]
    for x in ["a", "b", "A"]:                    # pad up to the wanted minimum
        if len(names) < min(min_names, max_names) and x not in names:
            names.append(x)
    states = [1] + list(range(2, max_states + 1)) * 2
    n = states[nsel % len(states)]
    m = len(names)
    kinds = draw(_KINDS_ST)[:n]
    raw = draw(_RAW_ST)[:n]
    table = []
    for kind, r in zip(kinds, raw):
        s0 = abs(r[4])
        if kind == 0:
            row = [0] * m
        elif kind == 1 and m >= 1 and n - m + 1 >= 1:
            s0 = 1 + s0 % (n - m + 1)                  # consecutive run s..s+m-1 <= n
            row = list(range(s0, s0 + m))
        elif kind == 2 and n - m >= 0:
            s0 = s0 % (n - m + 1)                      # run starting with the failure state
            row = list(range(s0, s0 + m))
        else:
            row = [0 if x < 0 else x % (n + 1) for x in r[:m]]   # negative = failure state
        table.append(row)
    rec.update(names=names, quote_names=quote, table=table, interval_rows=ivrows,
               initial=1 + init % n, initial_interval=init_iv == 0, rot=rot)
    return rec


@st.composite
def kbmag_spec(draw, max_records=3, **kw):
    nrec = draw(st.sampled_from([1, 1, 1, 2, 2, 3][:2 * max_records]))
    which = draw(st.integers(0, nrec - 1))        # this one is an FSA for sure
    recs = []
    names = draw(_REC_NAMES_ST)[:nrec]
    for j in range(nrec):
        is_fsa = (j == which) or draw(st.booleans())
        r = draw(kbmag_rec(fsa=is_fsa, **kw))
        r["name"] = names[j]
        recs.append(r)
    style = draw(st.integers(0, 5))
    if style == 0:
        ws = [""]
    elif style == 1:
        ws = [" "]
    else:
        ws = draw(_WS_LIST_ST)
    return dict(records=recs, ws=ws, lead=draw(WS_ATOM), tail=draw(WS_ATOM))


@st.composite
def init_case(draw, nv, nl, routes=("dict", "dict", "alt", "alt", "empty", "free", "builtin",
                                    "kbmag")):
    route = draw(st.sampled_from(routes))
    if route in ("dict", "alt"):
        g = draw(graph_pairs(nv, nl))
        c = dict(route=route, graph=g, start=draw(start_for(_verts_of(g))))
        if route == "alt":
            c["omit_sink_keys"] = draw(st.booleans())
        return c
    if route == "empty":
        return dict(route="empty", start=[], noargs=draw(st.booleans()))
    if route == "free":
        # (a generating set may name a generator by its capital letter: 'aB' generates the
        # same free group, with B the generator and b its inverse)
        gens = draw(st.sampled_from([["a"], ["a", "b"], ["b", "c"], ["a", "b", "c"],
                                     ["a", "B"], ["B"], ["A", "B"], ["x", "Y", "z"]]))
        return dict(route="free", gens=gens, as_string=draw(st.booleans()))
    if route == "builtin":
        return dict(route="builtin", name=draw(st.sampled_from(SMALL_BUILTINS)))
    spec = draw(kbmag_spec(max_records=1, max_states=4, max_names=3))
    return dict(route="kbmag", spec=spec)


def step_strategy(ops):
    return st.tuples(st.sampled_from(ops), st.binary(min_size=8, max_size=8)).map(
        lambda t: {"op": t[0], "a": [x % 12 for x in t[1]]})


EDIT_WEIGHTED = (["add_vertices", "add_edge", "add_edge", "add_edge", "add_edges", "add_elist",
                  "add_elist", "delete_vertex", "delete_vertex", "delete_vertices", "recurrent",
                  "rename", "rlp", "multiple", "copy", "set_start"])
QUERY_WEIGHTED = ["q_pairs", "q_pairs", "q_nbrs", "q_word", "q_word", "q_enum", "q_prefix"]


@st.composite
def history_case(draw, ops, max_steps=40):
    nv = draw(st.integers(2, 5))
    nl = draw(st.integers(1, 4))
    init = draw(init_case(nv, nl))
    lo = draw(st.sampled_from([0, 2, 4, 8, 16]))
    steps = draw(st.lists(step_strategy(ops), min_size=lo, max_size=max_steps))
    return dict(nv=nv, nl=nl, init=init, steps=steps)


# ---------------------------------------------------------------------------
# bounded-exhaustive histories over 3 vertices / 2 labels
def _s(op, *a):
    return {"op": op, "a": list(a) + [0] * (8 - len(a))}


def exhaustive_alphabet(reduced=False):
    """every concrete step over the universe {0,1,2} x {a,b}: vertex indices 0..2
    cover the pool (current vertices first, then the absent ones), label
    indices 0..1 the labels"""
    A = []
    for t in range(3):
        for h in range(3):
            for l in range(2):
                A.append(_s("add_edge", 0, t, h, l, 2))
            # elist: mask index b[2] -> mask = 1 + b[2] % 3: {a}, {b}, {a,b}
            for msk in ((0, 2) if not reduced else (2,)):
                A.append(_s("add_elist", 0, 0, t, h, 0, 0, 0, msk))
    for v in range(3):
        A.append(_s("delete_vertex", v))
        A.append(_s("q_word", v, 0, 1, 0, 0, 0, 0, 1))       # "z" from vertex v
        if not reduced:
            A.append(_s("rlp", v, 1, 1, 1))
            A.append(_s("add_vertices", v, v, 0))
            A.append(_s("q_nbrs", v))
            A.append(_s("rlp", v, 0, 1, 1))
    A.append(_s("recurrent", 1))
    A.append(_s("recurrent", 0, 1))
    A.append(_s("rename", 1, 1))           # pool a,b,x,y rotated by one: a->b, b->x
    A.append(_s("multiple", 1, 1))
    A.append(_s("copy", 1))
    A.append(_s("q_pairs", 0, 0, 1))
    A.append(_s("q_word", 0, 0, 2, 1, 2, 0, 0, 1))           # "ab" from vertex 0
    if not reduced:
        A.append(_s("recurrent", 0, 0))
        A.append(_s("rename", 1, 0, 1))
        A.append(_s("multiple", 1, 0))
        A.append(_s("copy", 0))
        A.append(_s("set_start", 0, 1))
    return A


EXH_INITS = [
    dict(route="empty", start=[0]),
    dict(route="dict", graph=[[0, [["a", 1]]]], start=[0]),                       # hidden 1
    dict(route="alt", graph=[[0, [["a", 1], ["b", 1]]], [1, [["a", 0]]]], start=[0]),
    dict(route="dict", graph=[[0, [["a", 1]]], [1, [["a", 2]]], [2, []], [3, [["a", 0]]]],
         start=[0]),
]


def _core_alphabet():
    return [s for s in exhaustive_alphabet(True)
            if s["op"] in ("add_edge", "delete_vertex", "q_pairs", "recurrent")]


FAN_ALPHABETS = {"full": exhaustive_alphabet(False), "reduced": exhaustive_alphabet(True),
                 "core": _core_alphabet()}


def exhaustive_histories(tier):
    full, red, core = FAN_ALPHABETS["full"], FAN_ALPHABETS["reduced"], FAN_ALPHABETS["core"]
    doms = []

    def hist(init, steps, fan=None):
        c = dict(nv=3, nl=2, init=init, steps=list(steps))
        if fan:
            c["fan"] = fan
        return c
    d1 = [hist(i, s) for i in EXH_INITS for s in itertools.product(full, repeat=1)]
    d2 = [hist(i, s) for i in EXH_INITS for s in itertools.product(full, repeat=2)]
    doms.append(("all histories of depth <= 2 over 3 vertices / 2 labels, %d-step alphabet, "
                 "4 constructions" % len(full), d1 + d2))
    if tier == "quick":
        d3 = [hist(EXH_INITS[0], s, "reduced") for s in itertools.product(red, repeat=2)]
        doms.append(("all histories of depth 3 from the empty automaton, %d-step alphabet "
                     "(one case = a depth-2 prefix extended by each of the %d steps)"
                     % (len(red), len(red)), d3))
    else:
        d3 = [hist(EXH_INITS[0], s, "full") for s in itertools.product(full, repeat=2)]
        doms.append(("all histories of depth 3 from the empty automaton, %d-step alphabet (one "
                     "case = a depth-2 prefix extended by each of the %d steps)"
                     % (len(full), len(full)), d3))
        d3r = [hist(i, s, "reduced") for i in EXH_INITS[1:]
               for s in itertools.product(red, repeat=2)]
        doms.append(("all histories of depth 3 from 3 dictionary constructions, %d-step "
                     "alphabet (one case = a depth-2 prefix extended by each of the %d steps)"
                     % (len(red), len(red)), d3r))
        d4 = [hist(EXH_INITS[0], s, "core") for s in itertools.product(core, repeat=3)]
        doms.append(("all histories of depth 4 from the empty automaton, %d-step core alphabet "
                     "(one case = a depth-3 prefix extended by each of the %d steps)"
                     % (len(core), len(core)), d4))
    # pruning to the recurrent core on EVERY functional graph on 4 vertices (each vertex has
    # at most one outgoing edge, label 'a'; 5^4 = 625 graphs, every shape of dead-end chain in
    # every position of the insertion order), in place and copying, followed by a query
    rec = []
    for tgt in itertools.product([None, 0, 1, 2, 3], repeat=4):
        graph = [[v, ([["a", tgt[v]]] if tgt[v] is not None else [])] for v in range(4)]
        for inplace in (0, 1):
            rec.append(dict(nv=4, nl=1, init=dict(route="dict", graph=graph, start=[0]),
                            steps=[dict(op="recurrent", a=[inplace, 0, 0, 0, 0, 0, 0, 0]),
                                   dict(op="q_pairs", a=[0, 1, 2, 3, 0, 0, 0, 0])]))
    doms.append(("recurrent() in place / copying on all 625 functional graphs on 4 vertices",
                 rec))
    return doms


# ---------------------------------------------------------------------------
# kbmag laws
def body_kbmag(case, ctx):
    ctx.check(set(gap_parse.WHITESPACE) == set(K.WS),
              "the parser's whitespace set is the one spacing is drawn from",
              got=repr(gap_parse.WHITESPACE))
    spec = case
    K.check_roundtrip(spec, ctx, file_io=True)
    recs = spec["records"]
    ctx.label("records=%d" % len(recs))
    f = recs[K.first_fsa(spec)]
    n, m = len(f["table"]), len(f["names"])
    ctx.label("states=%d" % n if n < 4 else "states>=4", "names=%d" % m)
    if any(0 in row for row in f["table"]):
        ctx.label("zero-entry")
    if any(row and not any(row) for row in f["table"]):
        ctx.label("all-zero-row")
    if f["interval_rows"] and any(K.is_run(r) for r in f["table"]):
        ctx.label("interval-row")
    if f["initial_interval"] or "accepting" in f["extras"]:
        ctx.label("interval-field")
    if f["quote_names"]:
        ctx.label("quoted-names")
    if any("^" in x for x in f["names"]):
        ctx.label("inverse-style-name")
    if K.first_fsa(spec) > 0:
        ctx.label("fsa-not-first")
    if any(not r["fsa"] for r in recs):
        ctx.label("non-fsa-record")
    if any(w == "" for w in spec["ws"]) and any(w != "" for w in spec["ws"]):
        ctx.label("mixed-spacing")
    if spec["ws"] == [""]:
        ctx.label("no-spacing")
    if any("\t" in w or "\n" in w for w in spec["ws"]):
        ctx.label("tab-or-newline")
    if f["rot"] % 7:
        ctx.label("rotated-fields")
    if m == 0:
        ctx.label("empty-alphabet")


def nt_kbmag(labels):
    return ("states=1" not in labels and "zero-entry" in labels and
            bool({"interval-row", "interval-field", "records=2", "records=3"} & set(labels)))


def body_builtin(case, ctx):
    """every builtin file: loaded automaton == regex reading, views coherent,
    and the file re-spaced at token boundaries still loads to the same automaton"""
    name = case["name"]
    ctx.label("file=" + name)
    path = os.path.join(os.path.dirname(fsa_mod.__file__), "builtin", name)
    with open(path) as f:
        text = f.read()
    names, rows, k = K.regex_read(text)
    model = K.table_model(names, rows, k)
    ctx.check(name in fsa_mod.list_builtins(), "list_builtins names the file", file=name)
    A = fsa_mod.load_builtin(name)
    ctx.check(list(A.start_vertices) == [k], "start state", got=list(A.start_vertices), want=[k])
    A.start_vertices = list(A.start_vertices)
    check_views(A, model, ctx, where="load_builtin(%s)" % name)
    B = fsa_mod.load_kbmag_file(path)
    B.start_vertices = list(B.start_vertices)
    check_views(B, model, ctx, where="load_kbmag_file(%s)" % name, accessors=False)
    model2, C = K.check_respaced(text, case["ws"], ctx, case.get("lead", ""),
                                 case.get("tail", ""))
    C.start_vertices = list(C.start_vertices)
    check_views(C, model2, ctx, where="re-spaced %s" % name, accessors=False)
    if len(model.verts) >= 30:
        ctx.label("states>=30")
    if case["ws"] not in ([" "], [""]):
        ctx.label("respaced")


def builtin_names():
    d = os.path.join(os.path.dirname(fsa_mod.__file__), "builtin")
    return sorted(x for x in os.listdir(d) if x.endswith(".wa") or x.endswith(".geowa"))


@st.composite
def builtin_case(draw):
    names = builtin_names()
    small = [x for x in names if os.path.getsize(os.path.join(
        os.path.dirname(fsa_mod.__file__), "builtin", x)) < 2500]
    return dict(name=draw(st.sampled_from(small)),
                ws=draw(st.lists(WS_ATOM, min_size=1, max_size=9)),
                lead=draw(WS_ATOM), tail=draw(WS_ATOM))


def exhaustive_builtins(tier):
    return [("all builtin .wa/.geowa files, canonical text and two re-spacings",
             [dict(name=x, ws=ws) for x in builtin_names()
              for ws in ([" "], [""], ["\n", "", "\t ", " \n\t"])])]


# ---------------------------------------------------------------------------
# optional coverage-guided campaign (thorough tier, only when atheris is installed)
def exhaustive_atheris(tier):
    from ..fuzz import campaign
    if tier != "thorough" or not campaign.available():
        return []
    seed = campaign.base_seed()
    return [("atheris campaign on the kbmag round-trip target (4 x %d runs)" % campaign.RUNS,
             [dict(runs=campaign.RUNS, seed=seed * 16 + j) for j in range(4)])]


def body_atheris(case, ctx):
    from ..fuzz import campaign
    res = campaign.run(case["runs"], case["seed"])
    ctx.label("atheris", "executed" if res["ran"] else "not-run")
    if res.get("spec") is not None:
        # replay the failing input through the plain law body: the deciding run
        ctx.label("atheris-crash")
        if res["mode"] == "spec":
            body_kbmag(res["spec"], ctx)
        else:
            body_builtin(res["spec"], ctx)
    ctx.check(res["returncode"] in (0, None), "atheris target crashed on an input that the "
              "plain law body accepts", output=res.get("tail", ""), spec=res.get("spec"))


# ---------------------------------------------------------------------------
_machine_edits = Law("views_machine_edits", history_case(EDIT_WEIGHTED), body_history_edits,
                     nt_history, quick=220, thorough=1000, shards=(2, 8))
_machine_all = Law("views_machine_queries", history_case(EDIT_WEIGHTED + QUERY_WEIGHTED),
                   body_history, nt_history, quick=220, thorough=1000, shards=(3, 8))
_after = Law("edits_after_queries",
             history_case(["add_edge", "add_elist", "delete_vertex", "delete_vertices",
                           "recurrent", "rlp", "multiple", "rename", "copy"] +
                          ["q_pairs", "q_pairs", "q_nbrs", "q_word", "q_enum"] * 2, max_steps=16),
             body_history_lenient, lambda l: "edit-after-query" in l and "len>=3" in l,
             quick=200, thorough=1000, shards=(2, 6))
_exh = Law("bounded_exhaustive_histories", None, body_history, nt_history,
           exhaustive=exhaustive_histories)
_exh.ex_shards = {"quick": 6, "thorough": 16}
_kb = Law("kbmag_roundtrip", kbmag_spec(), body_kbmag, nt_kbmag, quick=300, thorough=1500,
          shards=(2, 8))
_bi = Law("builtins_load_and_cohere", builtin_case(), body_builtin, lambda l: True, quick=25,
          thorough=150, shards=(1, 2), exhaustive=exhaustive_builtins)
_bi.ex_shards = {"quick": 3, "thorough": 6}
_ath = Law("kbmag_atheris_campaign", None, body_atheris, lambda l: "executed" in l,
           exhaustive=exhaustive_atheris)
_ath.ex_shards = {"quick": 1, "thorough": 4}

LAWS = [_machine_edits, _machine_all, _after, _exh, _kb, _bi, _ath]
