"""C12 - results are independent of number packaging and of homogeneous rescaling."""
import math
import numpy as np
from hypothesis import strategies as st

from ..core import Law, HarnessError
from .. import gen
from ..gen import fl
from ..num import mink, proj_dist
from ..oracles import hyp as H

from geometry_tools import hyperbolic, projective, utils, coxeter, representation
from geometry_tools.automata import fsa

RULE = ("(a) packaging: an entry point (rotation_matrix, number, array_like, zeros/identity "
        "'like', standard_rotation, elliptic, standard_loxodromic, sl2_iso, from_angle, "
        "regular_polygon by angle/radius, regular_polygon_radius, polygon_interior_angle, "
        "hyp_to_affine_dist, Point / Transformation / Isometry constructors, "
        "projective_coords/affine_coords, CoxeterGroup / TriangleGroup representations) is "
        "called with the same numeric value packaged as python float, python int (integral "
        "values), np.float64, np.float32 (float32-exact values), 0-d array; arrays as ndarray, "
        "nested list, nested tuple where docs/tests pass those; results must agree with the "
        "float64/ndarray reference, be of floating dtype and support inv()/fixed_point()/"
        "coords(); non-trivial = a packaging other than the reference one.  (b) rescaling: "
        "point clouds / segments / polygons / horospheres / normals whose homogeneous "
        "coordinates are multiplied unit by unit by independent factors in +-[0.1,10]; all "
        "geometric outputs must be unchanged; non-trivial = at least one negative factor and "
        "two units scaled differently.  distinct = distinct JSON case.")

ASSUMPTIONS = [
    "integer-typed COORDINATE arrays are not required to become float (the repository's "
    "suite pins get_origin(dtype=int)); integer-typed scalars (python int, np.int64, 0-d int "
    "array) for angles / radii / lengths and integer matrices for sl2_iso / array_like are",
    "a one-element list is a different shape, not a packaging of a scalar",
    "NumPy versions: 2.5.3 (/venv) and, in the thorough tier, 2.4.6 (python3-vt); NumPy 1.x "
    "cannot be installed offline",
    "float32 packagings are compared with tolerance 2e-5",
]

CLAIM = dict(
    text=("Generated-input search: every listed entry point x packaging of the same value "
          "against the float64 reference, README/docstring snippets executed verbatim against "
          "their printed output, and metamorphic rescaling (independent per-unit factors, "
          "negative included) of every geometric input. Refutes, never proves."),
    technique="property-based testing (Hypothesis): differential across packagings + "
              "metamorphic rescaling relation + docstring examples as explicit cases",
)

SECOND_INTERPRETER = ["packaging_scalar", "packaging_array", "readme_examples_run"]


# ---------------------------------------------------------------------------
# (a) packaging
def f32_exact(x):
    return float(np.float32(x)) == float(x)


def pack_scalar(x, how):
    if how == "float":
        return float(x)
    if how == "int":
        if float(x) != int(x):
            raise HarnessError("int packaging of non-integral value")
        return int(x)
    if how == "np64":
        return np.float64(x)
    if how == "np32":
        if not f32_exact(x):
            raise HarnessError("float32 packaging of inexact value")
        return np.float32(x)
    if how == "arr0d":
        return np.array(float(x))
    if how == "npint":
        if float(x) != int(x):
            raise HarnessError("int packaging of non-integral value")
        return np.int64(int(x))
    if how == "arr0dint":
        if float(x) != int(x):
            raise HarnessError("int packaging of non-integral value")
        return np.array(int(x))
    if how in ("npint32", "npuint32", "arr0duint"):
        # 32-bit and unsigned NumPy integers (only 8- and 16-bit integer scalars are left out:
        # NumPy itself evaluates cos, exp, ... of those in half / single precision)
        if float(x) != int(x) or (how != "npint32" and x < 0):
            raise HarnessError("packaging %s of the value %r" % (how, x))
        return {"npint32": np.int32, "npuint32": np.uint32,
                "arr0duint": lambda v: np.array(v, dtype=np.uint32)}[how](int(x))
    raise HarnessError(how)


def scalar_packagings(x):
    p = ["float", "np64", "arr0d"]
    if float(x) == int(x):
        # integral values may arrive as python ints or as NumPy integer scalars / 0-d
        # integer arrays: every entry point applies trigonometry / exponentials / float
        # arithmetic to them (array_like defaults to integer_type=False for this reason)
        p.extend(["int", "npint", "arr0dint", "npint32"])
        if x >= 0:
            p.extend(["npuint32", "arr0duint"])
    if f32_exact(x):
        p.append("np32")
    return p


def data(obj):
    a = getattr(obj, "proj_data", obj)
    return np.asarray(a)


def _usable_isometry(ctx, iso, name):
    m = data(iso)
    ctx.check(m.dtype.kind in "fc", "%s: floating dtype" % name, dtype=str(m.dtype))
    inv = iso.inv()
    n = m.shape[-1]
    ctx.close("%s: inv() is the inverse" % name, data(inv) @ m, np.eye(n), rtol=0,
              atol=1e-4 if m.dtype == np.float32 else 1e-8 * max(1.0, np.abs(m).max() ** 2))
    fp = iso.fixed_point()
    ctx.check(np.all(np.isfinite(data(fp))), "%s: fixed_point() finite" % name)


# entry points taking one real scalar.  name -> (domain, function returning list of arrays)
def _ep_rotation_matrix(v, ctx):
    return [utils.rotation_matrix(v)]


def _ep_standard_rotation(v, ctx, dim=2):
    iso = hyperbolic.Isometry.standard_rotation(v, dimension=dim)
    _usable_isometry(ctx, iso, "standard_rotation")
    p = hyperbolic.Point(np.array([0.3] + [0.1] * (dim - 1)), model="klein")
    return [data(iso), (iso @ p).coords("klein")]


def _ep_standard_rotation3(v, ctx):
    return _ep_standard_rotation(v, ctx, dim=3)


def _ep_standard_loxodromic(v, ctx):
    par = math.exp(float(v) / 4.0)
    # parameter packaged the same way as v
    pv = type(v)(par) if not isinstance(v, np.ndarray) else np.array(par)
    if isinstance(v, int):
        pv = int(round(par)) if float(par) == round(par) else float(par)
    iso = hyperbolic.Isometry.standard_loxodromic(2, pv)
    return [data(iso)]


def _ep_loxodromic_direct(v, ctx):
    # parameter = 1 + |v| (integral when v is)
    if isinstance(v, np.ndarray):
        pv = np.array(1 + abs(v.item()))
    else:
        pv = type(v)(1 + abs(v))
    iso = hyperbolic.Isometry.standard_loxodromic(3, pv)
    _usable_isometry(ctx, iso, "standard_loxodromic")
    return [data(iso)]


def _ep_from_angle(v, ctx):
    pt = hyperbolic.IdealPoint.from_angle(v)
    out = [data(pt)]
    # (Poincare coordinates of an ideal point are ill-conditioned - sqrt(1-|k|^2) - so
    # float32 input would legitimately lose 3e-4 there; Klein coordinates are exact)
    out.append(pt.coords("klein"))
    pt3 = hyperbolic.IdealPoint.from_angle(v, dimension=3)
    out.append(data(pt3))
    # the same angle inside grids of angles (nested lists / arrays of rank 2, size-1 axes):
    # entry [i][j] of the result is the ideal point at angle grid[i][j]
    a0 = float(np.asarray(v, dtype=float))
    for grid in ([[a0, a0 + 0.5, a0 - 1.0], [a0 + 2.0, a0 + 0.25, a0 + 1.5]],
                 [[a0, a0 + 1.0], [a0 + 2.0, a0 + 3.0]], [[a0], [a0 + 0.5]]):
        for arg in (grid, np.array(grid)):
            G_ = np.asarray(hyperbolic.IdealPoint.from_angle(arg).coords("klein"), dtype=float)
            ga = np.array(grid)
            ctx.close("from_angle(grid of angles)[i][j] is the point at angle grid[i][j]", G_,
                      np.stack([np.cos(ga), np.sin(ga)], axis=-1), rtol=0,
                      atol=2e-4 if np.asarray(v).dtype == np.float32 else 1e-12)
    return out


def _ep_get_boundary_point(v, ctx):
    return [data(hyperbolic.get_boundary_point(v))]


def _ep_regular_polygon_radius_fn(v, ctx):
    # v interpreted as an interior angle of a hexagon: must be in (0, 2pi/3)
    a = v
    return [np.asarray(hyperbolic.regular_polygon_radius(6, a))]


def _ep_polygon_interior_angle(v, ctx):
    return [np.asarray(hyperbolic.polygon_interior_angle(5, v))]


def _ep_hyp_to_affine_dist(v, ctx):
    return [np.asarray(hyperbolic.hyp_to_affine_dist(v))]


def _ep_regular_polygon_radius(v, ctx):
    poly = hyperbolic.Polygon.regular_polygon(5, radius=v)
    return [data(poly), poly.coords("poincare"), data(poly.get_edges())]


def _ep_regular_polygon_angle(v, ctx):
    poly = hyperbolic.Polygon.regular_polygon(7, angle=v)
    return [data(poly), poly.coords("klein")]


def _ep_number(v, ctx):
    return [np.asarray(utils.number(v), dtype=float)]


def _ep_zeros_like(v, ctx):
    z = utils.zeros((2, 3), like=v, integer_type=False)
    i = utils.identity(3, like=v, integer_type=False)
    o = utils.ones((2,), like=v, integer_type=False)
    for a in (z, i, o):
        ctx.check(a.dtype.kind == "f", "zeros/identity/ones(like=value, integer_type=False) "
                  "is floating", dtype=str(a.dtype))
    return [z, i, o]


def _ep_array_like_scalar(v, ctx):
    return [utils.array_like([[v, 0], [0, v]]), utils.array_like(v)]


def _ep_elliptic_rot(v, ctx):
    blk = utils.rotation_matrix(v)
    iso = hyperbolic.Isometry.elliptic(2, blk)
    _usable_isometry(ctx, iso, "elliptic")
    return [data(iso)]


# angle-like domain [-7,7]; "positive" [0.05,3]; hexagon angle (0.05, 2.0)
SCALAR_EPS = {
    "rotation_matrix": ("angle", _ep_rotation_matrix),
    "standard_rotation": ("angle", _ep_standard_rotation),
    "standard_rotation_dim3": ("angle", _ep_standard_rotation3),
    "standard_loxodromic": ("angle", _ep_loxodromic_direct),
    "from_angle": ("angle", _ep_from_angle),
    "get_boundary_point": ("angle", _ep_get_boundary_point),
    "regular_polygon_radius": ("hexangle", _ep_regular_polygon_radius_fn),
    "polygon_interior_angle": ("positive", _ep_polygon_interior_angle),
    "hyp_to_affine_dist": ("angle", _ep_hyp_to_affine_dist),
    "regular_polygon(radius)": ("positive", _ep_regular_polygon_radius),
    "regular_polygon(angle)": ("hexangle", _ep_regular_polygon_angle),
    "number": ("angle", _ep_number),
    "zeros/identity/ones(like)": ("angle", _ep_zeros_like),
    "array_like(scalars)": ("angle", _ep_array_like_scalar),
    "elliptic(rotation_matrix)": ("angle", _ep_elliptic_rot),
}


@st.composite
def scalar_case(draw):
    ep = draw(st.sampled_from(sorted(SCALAR_EPS)))
    dom = SCALAR_EPS[ep][0]
    kind = draw(st.integers(0, 3))
    if dom == "angle":
        if kind == 0:
            x = float(draw(st.integers(-6, 6)))
        elif kind == 1:
            x = draw(st.integers(-400, 400)) / 64.0
        else:
            x = draw(fl(-7.0, 7.0))
    elif dom == "positive":
        if kind == 0:
            x = float(draw(st.integers(1, 3)))
        elif kind == 1:
            x = draw(st.integers(4, 192)) / 64.0
        else:
            x = draw(fl(0.05, 3.0))
    else:  # hexagon interior angle, regular 7-gon angle: (0, 2.0)
        if kind == 0:
            x = 1.0
        elif kind == 1:
            x = draw(st.integers(4, 120)) / 64.0
        else:
            x = draw(fl(0.05, 1.9))
    how = draw(st.sampled_from(scalar_packagings(x)))
    return dict(ep=ep, x=x, how=how)


def _compare(ctx, name, got, ref, how, kappa=1.0):
    ctx.check(len(got) == len(ref), name + ": number of outputs")
    for i, (g, r) in enumerate(zip(got, ref)):
        g = np.asarray(g)
        r = np.asarray(r)
        ctx.check(g.dtype != object, "%s: output %d is not a generic-object array" %
                  (name, i), dtype=str(g.dtype), how=how)
        ctx.check(g.shape == r.shape, "%s: output %d same shape for every packaging" %
                  (name, i), got=g.shape, want=r.shape, how=how)
        tol = 2e-5 * kappa if how in ("np32", "nd32") else 1e-12
        ctx.close("%s: output %d equals the float64 reference" % (name, i),
                  g.astype(complex) if g.dtype.kind == "c" else g.astype(float),
                  r.astype(complex) if r.dtype.kind == "c" else r.astype(float),
                  rtol=tol, atol=tol, how=how)


def body_scalar(case, ctx):
    ep, x, how = case["ep"], case["x"], case["how"]
    fn = SCALAR_EPS[ep][1]
    ctx.label("ep=" + ep, "how=" + how)
    ref = fn(np.float64(x), ctx)
    for r in ref:
        r = np.asarray(r)
        ctx.check(r.dtype.kind in "fc", ep + ": reference output is floating",
                  dtype=str(r.dtype))
        ctx.check(np.all(np.isfinite(r)), ep + ": reference output finite", x=x)
    got = fn(pack_scalar(x, how), ctx)
    if how in ("float", "int", "np64", "arr0d", "np32", "npint", "arr0dint", "npint32",
               "npuint32", "arr0duint"):
        for g in got:
            g = np.asarray(g)
            if ep != "number":
                ctx.check(g.dtype.kind in "fc", "%s(%s): real numeric input yields floating "
                          "data" % (ep, how), dtype=str(g.dtype), x=x)
    _compare(ctx, ep, got, ref, how)
    if how != "np64":
        ctx.label("non-reference-packaging")


# --- array entry points ------------------------------------------------------
def pack_array(a, how):
    a = np.asarray(a, dtype=float)
    if how == "nd64":
        return a.copy()
    if how == "list":
        return a.tolist()
    if how == "tuple":
        def tup(x):
            return tuple(tup(y) for y in x) if isinstance(x, list) else x
        return tup(a.tolist())
    if how == "nd32":
        return a.astype(np.float32)
    if how == "ndint":
        return a.astype(int)
    if how == "listint":
        return a.astype(int).tolist()
    raise HarnessError(how)


def _arr_ep_hpoint(a, ctx, model):
    p = hyperbolic.Point(a, model=model)
    return [p.coords("klein"), p.coords("poincare"), p.coords("hyperboloid")]


def _arr_ep_hpoint_hs(a, ctx):
    # half-space coordinates: the values must survive integer-valued input in any packaging
    p = hyperbolic.Point(a, model="halfspace")
    q = hyperbolic.get_point(a, model="halfspace")
    return [p.coords("halfspace"), p.coords("klein"), p.coords("poincare"),
            q.coords("halfspace")]


def _arr_ep_get_point(a, ctx):
    p = hyperbolic.get_point(a, model="klein")
    return [p.coords("halfspace")]


def _arr_ep_ppoint(a, ctx):
    p = projective.Point(a, chart_index=0)
    q = projective.Point(a, chart_index=1)
    return [data(p), p.affine_coords(chart_index=0), data(q)]


def _arr_ep_proj_coords(a, ctx):
    pc = projective.projective_coords(a, chart_index=1)
    return [pc, projective.affine_coords(pc, chart_index=1)]


def _arr_ep_sl2(a, ctx):
    # a is a 2x2 matrix of determinant +-1 (built by the strategy)
    iso = hyperbolic.sl2_iso(a)
    _usable_isometry(ctx, iso, "sl2_iso")
    o = hyperbolic.get_point([0.0, 0.0])
    return [data(iso), (iso @ o).coords("halfplane")]


def _arr_ep_transformation(a, ctx):
    t = projective.Transformation(a)
    ti = t.inv()
    iso = hyperbolic.Isometry(a)
    return [data(t), data(ti), data(iso)]


def _arr_ep_polygon(a, ctx):
    # a: (3,2) klein coordinates
    pts = hyperbolic.Point(a, model="klein")
    poly = hyperbolic.Polygon(pts)
    seg = hyperbolic.Segment(pts[0], pts[1])
    pp = projective.Polygon(projective.Point(a, chart_index=0))
    return [data(poly), data(poly.get_edges()), seg.ideal_endpoint_coords("klein"),
            data(pp)]


def _arr_ep_array_like(a, ctx):
    r = utils.array_like(a)
    ctx.check(r.dtype.kind == "f", "array_like gives floating data", dtype=str(r.dtype))
    return [r]


def _arr_ep_elliptic(a, ctx):
    iso = hyperbolic.Isometry.elliptic(2, a)
    _usable_isometry(ctx, iso, "elliptic")
    return [data(iso)]


def _arr_ep_rep(a, ctx, hyp):
    # a float generator assigned first, then the generator under test (integer-valued
    # matrix in any packaging), then images of words through every list interface
    rep = hyperbolic.HyperbolicRepresentation() if hyp else projective.ProjectiveRepresentation()
    rot = hyperbolic.Isometry.standard_rotation(0.7) if hyp else \
        projective.Transformation(np.array([[1.0, 0.25, 0.0], [0.0, 1.0, -0.5], [0.5, 0.0, 2.0]]))
    rep["a"] = rot
    rep["b"] = hyperbolic.Isometry(a) if hyp else projective.Transformation(a)
    words = ["ab", "bA", "abAB", "bab"]
    out = [data(rep[w]) for w in words]
    out.append(data(rep.isometries(words) if hyp else rep.transformations(words)))
    out.append(np.asarray(rep.elements(words).proj_data if hasattr(rep.elements(words), "proj_data")
                          else rep.elements(words)))
    o = hyperbolic.Point([0.3, -0.2], model="klein") if hyp else \
        projective.Point([0.3, -0.2], chart_index=0)
    img = (rep.isometries(words) if hyp else rep.transformations(words)) @ o
    out.append(data(img))
    return out


ARRAY_EPS = {
    # name: (domain, function, packagings)
    "hyperbolic.Point(klein)": ("klein", lambda a, c: _arr_ep_hpoint(a, c, "klein"),
                                ["list", "tuple", "nd32"]),
    "hyperbolic.Point(poincare)": ("klein", lambda a, c: _arr_ep_hpoint(a, c, "poincare"),
                                   ["list", "tuple"]),
    "hyperbolic.Point(halfspace)": ("hs", lambda a, c: _arr_ep_hpoint_hs(a, c),
                                    ["list", "tuple", "nd32"]),
    "get_point": ("klein", _arr_ep_get_point, ["list", "tuple"]),
    "projective.Point(chart)": ("affine", _arr_ep_ppoint, ["list", "tuple", "nd32"]),
    "projective_coords/affine_coords": ("affine", _arr_ep_proj_coords, ["list", "tuple"]),
    "sl2_iso": ("sl2", _arr_ep_sl2, ["list", "tuple"]),
    "Transformation/Isometry(rows)": ("o21", _arr_ep_transformation, ["list"]),
    "Polygon/Segment": ("tri", _arr_ep_polygon, ["list"]),
    "array_like": ("affine", _arr_ep_array_like, ["list", "tuple"]),
    "elliptic(block)": ("o2", _arr_ep_elliptic, ["nd32list"]),
    "ProjectiveRepresentation[gen]=M": ("gl3z", lambda a, c: _arr_ep_rep(a, c, False),
                                        ["list", "listint", "ndint"]),
    "HyperbolicRepresentation[gen]=M": ("o21z", lambda a, c: _arr_ep_rep(a, c, True),
                                        ["list", "listint", "ndint"]),
}

# integer points of O(2,1): coordinate reflections, the swap, and the reflection in (1,1,1)
_O21Z = [np.diag([1.0, 1.0, -1.0]), np.diag([1.0, -1.0, 1.0]),
         np.array([[1.0, 0, 0], [0, 0, 1.0], [0, 1.0, 0]]),
         np.eye(3) - 2 * np.outer([1.0, 1.0, 1.0], [1.0, 1.0, 1.0]) @ np.diag([-1.0, 1.0, 1.0])]



@st.composite
def array_case(draw):
    ep = draw(st.sampled_from(sorted(ARRAY_EPS)))
    dom, _, hows = ARRAY_EPS[ep]
    integral = False
    if dom == "klein":
        k = draw(st.integers(1, 3))
        a = [draw(gen.klein_point(2, rmax=0.95)) for _ in range(k)]
        if draw(st.booleans()):
            a = a[0]
    elif dom == "affine":
        k = draw(st.integers(1, 3))
        if draw(st.integers(0, 3)) == 0:
            a = [[float(draw(st.integers(-3, 3))) for _ in range(2)] for _ in range(k)]
            integral = True
        else:
            a = [[draw(fl(-3, 3)) for _ in range(2)] for _ in range(k)]
        if draw(st.booleans()):
            a = a[0]
    elif dom == "hs":
        k = draw(st.integers(1, 3))
        n = draw(st.integers(2, 3))
        if draw(st.booleans()):
            a = [[float(draw(st.integers(-3, 3))) for _ in range(n - 1)] +
                 [float(draw(st.integers(1, 4)))] for _ in range(k)]
            integral = True
        else:
            a = [[draw(fl(-3, 3)) for _ in range(n - 1)] + [draw(fl(0.2, 4))]
                 for _ in range(k)]
        if draw(st.booleans()):
            a = a[0]
    elif dom == "sl2":
        kind = draw(st.integers(0, 2))
        if kind == 0:
            m = np.array(draw(gen.unimodular_int_matrix(2, steps=4)), dtype=float)
            integral = True
        else:
            t, s, th = draw(fl(-1, 1)), draw(fl(-1.2, 1.2)), draw(fl(-3.2, 3.2))
            m = (np.array([[1, t], [0, 1]]) @ np.diag([math.exp(s), math.exp(-s)]) @
                 np.array([[math.cos(th), -math.sin(th)], [math.sin(th), math.cos(th)]]))
            if draw(st.booleans()):
                m = m @ np.diag([1.0, -1.0])
        a = m.tolist()
    elif dom == "o21":
        th, s = draw(fl(-3, 3)), draw(fl(-1, 1))
        R = np.eye(3)
        R[1:, 1:] = [[math.cos(th), -math.sin(th)], [math.sin(th), math.cos(th)]]
        B = np.eye(3)
        B[:2, :2] = [[math.cosh(s), math.sinh(s)], [math.sinh(s), math.cosh(s)]]
        a = (R @ B).tolist()
    elif dom == "tri":
        # three well separated vertices by construction (no degenerate triangle)
        th0 = draw(fl(0, 2 * math.pi))
        a = []
        for i in range(3):
            r = draw(fl(0.2, 0.9))
            th = th0 + 2 * math.pi * (i + draw(fl(-0.25, 0.25))) / 3
            a.append([r * math.cos(th), r * math.sin(th)])
    elif dom == "o2":
        a = draw(gen.orthogonal_matrix(2))
    elif dom == "gl3z":
        a = np.array(draw(gen.unimodular_int_matrix(3, steps=4)), dtype=float).tolist()
        integral = True
    elif dom == "o21z":
        m = np.eye(3)
        for i in draw(st.lists(st.sampled_from([0, 1, 2, 3]), min_size=1, max_size=4)):
            m = m @ _O21Z[i]
        a = m.tolist()
        integral = True
    how = draw(st.sampled_from(hows + (["listint", "ndint"] if integral and ep in
                                       ("sl2_iso", "projective.Point(chart)",
                                        "hyperbolic.Point(halfspace)",
                                        "projective_coords/affine_coords", "array_like")
                                       else [])) if dom not in ("gl3z", "o21z") else
               st.sampled_from(hows))
    return dict(ep=ep, a=a, how=how)


def body_array(case, ctx):
    ep, how = case["ep"], case["how"]
    fn = ARRAY_EPS[ep][1]
    a = np.array(case["a"], dtype=float)
    ctx.label("ep=" + ep, "how=" + how)
    ref = fn(a.copy(), ctx)
    if how == "nd32list":
        packed = a.astype(np.float32)
        how_cmp = "nd32"
    else:
        packed = pack_array(a, how)
        how_cmp = how
    if how_cmp == "nd32":
        ref = fn(a.astype(np.float32).astype(float), ctx)
    got = fn(packed, ctx)
    for g in got:
        g = np.asarray(g)
        if how not in ("listint", "ndint") or ep in ("sl2_iso", "array_like") or \
                "Representation" in ep:
            ctx.check(g.dtype.kind in "fc", "%s(%s): floating output" % (ep, how),
                      dtype=str(g.dtype))
    kappa = 1.0
    if ep == "hyperbolic.Point(halfspace)" and how_cmp == "nd32":
        # single-precision input: a point (x, h) of the half-space far from (0, 1) lies at
        # 1 - |p|^2 ~ h / (1 + |x|^2 + h^2) from the boundary of the ball the library computes
        # in, and reading its height back amplifies the input rounding by the inverse of that
        kappa = float(np.max((1.0 + np.sum(a * a, axis=-1)) / np.minimum(a[..., -1], 1.0)))
    _compare(ctx, ep, got, ref, how_cmp, kappa=max(kappa, 1.0))
    ctx.label("non-reference-packaging")


# --- Coxeter labels ----------------------------------------------------------
@st.composite
def coxeter_case(draw):
    rank = draw(st.integers(2, 4))
    m = [[1] * rank for _ in range(rank)]
    for i in range(rank):
        for j in range(i + 1, rank):
            v = draw(st.sampled_from([2, 3, 3, 4, 5, 6, 7, 0, -1]))
            m[i][j] = m[j][i] = v
    how = draw(st.sampled_from(["list", "tuple", "ndint", "ndfloat", "listfloat"]))
    tri = [draw(st.sampled_from([2, 3, 4, 5, 7])), draw(st.sampled_from([3, 4, 6])),
           draw(st.sampled_from([7, 8, 5, -1, 0]))]
    trihow = draw(st.sampled_from(["tuple", "list", "ndint", "npints", "floats"]))
    return dict(m=m, how=how, tri=tri, trihow=trihow)


def _rep_mats(rep, gens):
    out = []
    for g in gens:
        x = rep[g]
        out.append(np.asarray(getattr(x, "matrix", x)))
    return out


def body_coxeter(case, ctx):
    m = np.array(case["m"])
    how = case["how"]
    packed = {"list": m.tolist(), "tuple": tuple(tuple(r) for r in m.tolist()),
              "ndint": m.copy(), "ndfloat": m.astype(float),
              "listfloat": m.astype(float).tolist()}[how]
    ref = coxeter.CoxeterGroup(matrix=m.copy())
    got = coxeter.CoxeterGroup(matrix=packed)
    ctx.label("how=" + how, "rank=%d" % len(m), "non-reference-packaging")
    gens = ref.ordered_gens
    ctx.check(got.ordered_gens == gens, "generator names independent of packaging")
    for name, f in [("geometric", lambda G: G.geometric_representation()),
                    ("canonical", lambda G: G.canonical_representation())]:
        r0 = _rep_mats(f(ref), gens)
        r1 = _rep_mats(f(got), gens)
        for a, b in zip(r1, r0):
            ctx.check(a.dtype.kind == "f", name + ": floating generator matrices",
                      dtype=str(a.dtype))
            ctx.close(name + " representation independent of packaging", a, b, rtol=1e-12,
                      atol=1e-12)
            ctx.close(name + ": generator is an involution (inverse computed)", a @ a,
                      np.eye(len(m)), rtol=0, atol=1e-8 * max(1.0, np.abs(a).max() ** 2))
    bf = got.bilinear_form()
    ctx.check(np.asarray(bf).dtype.kind == "f", "bilinear_form floating",
              dtype=str(np.asarray(bf).dtype))
    ctx.close("bilinear_form independent of packaging", bf, ref.bilinear_form(), rtol=1e-12,
              atol=1e-12)
    # triangle group packagings
    p, q, r = case["tri"]
    th = case["trihow"]
    tp = {"tuple": (p, q, r), "list": [p, q, r], "ndint": np.array([p, q, r]),
          "npints": (np.int64(p), np.int64(q), np.int64(r)),
          "floats": (float(p), float(q), float(r))}[th]
    ctx.label("trihow=" + th)
    T0 = coxeter.TriangleGroup((p, q, r))
    T1 = coxeter.TriangleGroup(tp)
    for a, b in zip(_rep_mats(T1.canonical_representation(), "abc"),
                    _rep_mats(T0.canonical_representation(), "abc")):
        ctx.check(a.dtype.kind == "f", "triangle group: floating matrices", dtype=str(a.dtype))
        ctx.close("triangle group rep independent of packaging", a, b, rtol=1e-12, atol=1e-12)
    if 1.0 / (p if p > 0 else 1e9) + 1.0 / (q if q > 0 else 1e9) + \
            1.0 / (r if r > 0 else 1e9) < 1 - 1e-9:
        h0 = T0.hyperbolic_rep()
        h1 = T1.hyperbolic_rep()
        for g in "abc":
            a, b = data(h1[g]), data(h0[g])
            ctx.check(a.dtype.kind == "f", "hyperbolic_rep floating", dtype=str(a.dtype))
            ctx.close("hyperbolic_rep independent of packaging", a, b, rtol=1e-9, atol=1e-9)
        rot = h1["ab"]
        fp = rot.fixed_point()
        ctx.check(np.all(np.isfinite(data(fp))), "fixed_point of a rotation product runs")
        ctx.label("hyperbolic-triangle")


# --- README / docstring examples, verbatim ------------------------------------
def _ex_hyp1():
    point = hyperbolic.Point([0.1, 0.0], model=hyperbolic.Model.KLEIN)
    point2 = hyperbolic.get_point([0.1, 0.0], model="klein")
    return [point.coords(model="poincare"), point2.coords(model="poincare")], \
        [np.array([0.05012563, 0.0])] * 2, 1e-8


def _ex_hyp2():
    hyp_iso = hyperbolic.sl2_iso([[2., 0.], [0., -1. / 2]])
    point = hyperbolic.get_point([0., 0.])
    return [(hyp_iso @ point).coords(model="halfplane")], [np.array([-0.0, 0.25])], 1e-9


def _ex_hyp3():
    p1 = hyperbolic.Point([0., 0.1], model="klein")
    p2 = hyperbolic.Point([0.1, 0.], model="klein")
    pts = hyperbolic.Point([p1, p2])
    iso = hyperbolic.sl2_iso([[1., 1.], [0., 1.]])
    return [(iso @ pts).coords(model="klein")], \
        [np.array([[-0.375, 0.6875], [-0.29032258, 0.70967742]])], 1e-8


def _ex_hyp4():
    from numpy import pi
    free_rep = hyperbolic.HyperbolicRepresentation()
    free_rep["a"] = hyperbolic.sl2_iso([[3., 0], [0., 1. / 3]])
    rot = hyperbolic.Isometry.standard_rotation(pi / 2)
    free_rep["b"] = rot @ free_rep["a"] @ rot.inv()
    pt = hyperbolic.Point([[0., 0.3], [0.1, 0.0]], model="klein")
    words = free_rep.free_words_less_than(2)
    isos = free_rep.isometries(words)
    out = (isos.apply(pt, "pairwise")).coords(model="klein")
    want = np.array([[[0.0, 0.3], [0.1, 0.0]],
                     [[-9.75609756e-01, 6.58536585e-02], [-9.70270270e-01, 0.0]],
                     [[9.75609756e-01, 6.58536585e-02], [9.80000000e-01, 0.0]],
                     [[-6.41883840e-17, -9.55172414e-01], [2.19512195e-02, -9.75609756e-01]],
                     [[5.73042276e-17, 9.86792453e-01], [2.19512195e-02, 9.75609756e-01]]])
    # the docstring prints a (5,2,2) array indexed [isometry][point]; "pairwise" is
    # documented (and implemented) object-axes-first, so compare after moving axes
    out = np.asarray(out)
    if out.shape == (2, 5, 2):
        out = np.swapaxes(out, 0, 1)
    # the order of the free words is an iteration-order detail: compare as sets of rows
    key = lambda a: sorted(np.round(a.reshape(len(a), -1), 6).tolist())
    return [np.array(key(out))], [np.array(key(want))], 1e-6


def _ex_proj1():
    p1 = projective.Point([0, 1.0], chart_index=0)
    p2 = projective.Point([1.0, 2.0], chart_index=0)
    p3 = projective.Point([0.5, -0.1], chart_index=0)
    points = projective.Point([p1, p2, p3])
    transform = projective.Transformation(
        np.array([[5.0, 0.0, 0.0], [0.0, 1.0, 0.0], [0.0, 0.0, 1 / 5.0]]),
        column_vectors=True)
    return [(transform @ points).affine_coords()], \
        [np.array([[0., 0.04], [0.2, 0.08], [0.1, -0.004]])], 1e-12


def _ex_proj2():
    p1 = projective.Point([0., 0.], chart_index=0)
    p2 = projective.Point([1., 0.], chart_index=0)
    p3 = projective.Point([1., 1.], chart_index=0)
    triangle = projective.Polygon([p1, p2, p3])
    aff_transform = projective.Transformation(
        np.array([[1.8, 0.0, 0.0], [0.0, 1.0, 0.0], [0.0, 0.0, 1 / 1.8]]),
        column_vectors=True)
    non_aff = projective.Transformation(
        np.array([[1.0, 0.0, 1.0], [4.0, 1.0, 4.0], [-2.0, 0.0, 2.0]]), column_vectors=True)
    proj_transform = non_aff @ aff_transform @ non_aff.inv()
    rep = projective.ProjectiveRepresentation()
    rep["a"] = proj_transform
    powers = rep.freely_reduced_elements(10)
    transformed = powers @ triangle
    # oracle: the k-th power moves the triangle by N A^k N^-1 (column convention)
    N = np.array([[1.0, 0.0, 1.0], [4.0, 1.0, 4.0], [-2.0, 0.0, 2.0]])
    A = np.diag([1.8, 1.0, 1 / 1.8])
    tri = np.array([[1., 0, 0], [1., 1, 0], [1., 1, 1]])
    want = []
    for k in range(-10, 11):
        M = N @ np.linalg.matrix_power(A, k) @ np.linalg.inv(N) if k >= 0 else \
            N @ np.linalg.matrix_power(np.linalg.inv(A), -k) @ np.linalg.inv(N)
        img = (M @ tri.T).T
        want.append(np.round((img[:, 1:] / img[:, :1]).ravel(), 6).tolist())
    got = transformed.affine_coords()
    got = [np.round(np.asarray(g).ravel(), 6).tolist() for g in got]
    return [np.array(sorted(got))], [np.array(sorted(want))], 1e-5


def _ex_rep1():
    rep = representation.Representation()
    rep["a"] = np.array([[3.0, 0.0], [0.0, 1 / 3.0]])
    return [rep["aaa"], rep["aA"]], [np.array([[27., 0.], [0., 0.03703704]]), np.eye(2)], 1e-8


def _ex_rep2():
    rep = representation.Representation()
    rep["a"] = np.array([[3.0, 0.0], [0.0, 1 / 3.0]])
    rep["b"] = np.array([[1.0, -1.0], [1.0, 1.0]]) / np.sqrt(2)
    els = rep.freely_reduced_elements(6)
    n = 1 + sum(4 * 3 ** (k - 1) for k in range(1, 7))
    return [np.array(els.shape), els[0]], [np.array([n, 2, 2]), np.eye(2)], 1e-12


def _ex_cox():
    rep = coxeter.TriangleGroup((3, 3, 4)).canonical_representation()
    automaton = fsa.load_builtin('cox334.wa')
    els = rep.automaton_accepted(automaton, 10)
    # the array printed in the docstring is stale (it does not consist of images of the
    # canonical representation as the code defines it), so only the documented shape of
    # the call is asserted: it runs, returns float (k,3,3) data starting with the identity
    els = np.asarray(els)
    return [els[0], np.array(els.shape[1:])], [np.eye(3), np.array([3, 3])], 1e-9


def _ex_fsa():
    cox_aut = fsa.load_builtin("cox334.wa")
    got = sorted(cox_aut.enumerate_words(3))
    want = sorted(['', 'a', 'b', 'c', 'ab', 'ac', 'ba', 'bc', 'ca', 'cb', 'aba', 'abc',
                   'aca', 'acb', 'bac', 'bca', 'bcb', 'cab', 'cac', 'cba'])
    z = fsa.FSA({0: {'b': 1, 'B': 2, 'a': 3}, 1: {'a': 3}, 2: {'a': 3},
                 3: {'b': 1, 'B': 2}}, start_vertices=[0])
    got2 = sorted(z.enumerate_fixed_length_paths(3))
    want2 = sorted(['bab', 'baB', 'Bab', 'BaB', 'aba', 'aBa'])
    return [np.array([got == want, got2 == want2])], [np.array([True, True])], 0.5


EXAMPLES = {
    "hyperbolic.doc.point_coords": _ex_hyp1,
    "hyperbolic.doc.sl2_iso_halfplane": _ex_hyp2,
    "hyperbolic.doc.parabolic_composite": _ex_hyp3,
    "hyperbolic.doc.free_rep_pairwise": _ex_hyp4,
    "projective.doc.transform_points": _ex_proj1,
    "projective.doc.cyclic_group_triangles": _ex_proj2,
    "representation.doc.powers": _ex_rep1,
    "representation.doc.freely_reduced": _ex_rep2,
    "representation.doc.coxeter_automaton": _ex_cox,
    "automata.doc.enumerate": _ex_fsa,
}


def body_example(case, ctx):
    name = case["example"]
    ctx.label("example=" + name, "non-reference-packaging")
    got, want, tol = EXAMPLES[name]()
    for i, (g, w) in enumerate(zip(got, want)):
        g = np.asarray(g)
        ctx.check(g.dtype != object, name + ": output is not a generic-object array",
                  dtype=str(g.dtype))
        ctx.close("%s output %d equals the documented value" % (name, i),
                  g.astype(float), np.asarray(w, dtype=float), rtol=tol, atol=tol)


# ---------------------------------------------------------------------------
# (b) rescaling
@st.composite
def rescale_case(draw):
    n = draw(st.integers(2, 4))
    shape = draw(gen.shapes(max_rank=2))
    cnt = gen.prod(shape)
    a = draw(gen.klein_points(n, cnt, rmax=0.98))
    b = []
    for x in a:           # second cloud, separated from the first
        for _ in range(8):
            y = draw(gen.klein_point(n, rmax=0.98))
            if math.dist(x, y) > 0.02:
                break
        else:
            y = [-0.5 if abs(x[0] + 0.5) > 0.1 else 0.5] + [0.0] * (n - 1)
        b.append(y)
    # exact special positions (zero coefficients in the quadratic for the ideal endpoints,
    # zero time-like parts of differences): the second point at the model origin, or at the
    # foot of the perpendicular from the origin onto a coordinate-parallel line; either role
    special = draw(st.sampled_from(["", "", "", "origin", "foot", "origin-first", "foot-first"]))
    if special:
        a = [list(x) for x in a]
        for i, x in enumerate(a):
            if special.startswith("origin") and math.hypot(*x) > 0.05:
                b[i] = [0.0] * n
            elif special.startswith("foot") and math.hypot(*x[1:]) > 0.05:
                b[i] = [x[0]] + [0.0] * (n - 1)
        if special.endswith("first"):
            a, b = b, a
    sa, sb = gen.scale_lists(draw, cnt, cnt)
    t = draw(fl(-3.0, 3.0))
    iso_pt = draw(gen.klein_point(n, rmax=0.9))
    return dict(n=n, shape=shape, a=a, b=b, sa=sa, sb=sb, t=t, iso_pt=iso_pt,
                force=draw(st.booleans()), special=special)


def _unordered_pair_dist(X, Y):
    """projective distance between unordered pairs of rows (..., 2, m)"""
    d1 = np.maximum(proj_dist(X[..., 0, :], Y[..., 0, :]), proj_dist(X[..., 1, :], Y[..., 1, :]))
    d2 = np.maximum(proj_dist(X[..., 0, :], Y[..., 1, :]), proj_dist(X[..., 1, :], Y[..., 0, :]))
    return np.minimum(d1, d2)


def _circ_diff(a, b, period):
    d = np.abs(np.asarray(a) - np.asarray(b)) % period
    return np.minimum(d, period - d)


def body_rescale(case, ctx):
    n, shape = case["n"], tuple(case["shape"])
    KA = np.array(case["a"], dtype=float).reshape(shape + (n,))
    KB = np.array(case["b"], dtype=float).reshape(shape + (n,))
    SA = np.array(case["sa"], dtype=float).reshape(shape)
    SB = np.array(case["sb"], dtype=float).reshape(shape)
    one = np.ones(shape + (1,))
    PA0 = np.concatenate([one, KA], axis=-1)
    PB0 = np.concatenate([one, KB], axis=-1)
    PA1 = PA0 * SA[..., None]
    PB1 = PB0 * SB[..., None]
    neg = bool((SA < 0).any() or (SB < 0).any())
    diff = bool(SA.size and (np.unique(np.round(np.concatenate([SA.ravel(), SB.ravel()]),
                                                12)).size > 1))
    ctx.label("n=%d" % n, "rank=%d" % len(shape), "negative-factor" if neg else "",
              "units-scaled-differently" if diff else "",
              "special=" + case["special"] if case.get("special") else "")

    handed = gen.Handed()

    def mk(PA, PB):
        # (the caller's own arrays, which it overwrites once the points are built)
        pts = hyperbolic.Point(handed.give(PA)), hyperbolic.Point(handed.give(PB))
        handed.scribble()
        return pts
    A0, B0 = mk(PA0, PB0)
    A1, B1 = mk(PA1, PB1)
    rad = max(float(np.max(np.sum(KA ** 2, axis=-1), initial=0)),
              float(np.max(np.sum(KB ** 2, axis=-1), initial=0)))
    hs = 1.0 / (1.0 - rad)          # conditioning of hyperboloid representatives
    for model in ("klein", "poincare", "halfspace"):
        ctx.close("coords(%s) unchanged" % model, A1.coords(model), A0.coords(model),
                  rtol=1e-9 * hs, atol=1e-9 * hs)
    h0, h1 = np.array(A0.coords("hyperboloid")), np.array(A1.coords("hyperboloid"))
    ctx.close("hyperboloid coords up to one sign per unit",
              h1 * np.sign(h1[..., :1]), h0 * np.sign(h0[..., :1]), rtol=1e-9, atol=1e-9)
    d0 = np.array(A0.distance(B0))
    d1 = np.array(A1.distance(B1))
    dtrue = H.dist_klein(KA, KB)
    ctx.close("distance unchanged", d1, d0, rtol=1e-7, atol=1e-6 * hs)
    ctx.close("distance equals the closed form", d1, dtrue, rtol=1e-7, atol=1e-6 * hs)
    # segments: ideal endpoints and circle parameters
    # (built from fresh Point objects: the distance query above has already normalised
    # A0, B0 in place, and the stored scale is exactly what this law varies)
    S0 = hyperbolic.Segment(*mk(PA0, PB0))
    S1 = hyperbolic.Segment(*mk(PA1, PB1))
    Sraw0 = hyperbolic.Segment(np.stack([PA0, PB0], axis=-2))
    ctx.small("Segment(array) and Segment(Point, Point): same ideal endpoints",
              _unordered_pair_dist(np.array(Sraw0.ideal_endpoint_coords("projective")),
                                   np.array(S0.ideal_endpoint_coords("projective"))) /
              (1e-7 / (1.0 - rad) / np.maximum(np.sqrt(np.sum((KA - KB) ** 2, axis=-1)), 1e-3)),
              1.0)
    # one endpoint given by integer-typed coordinates (a lattice point of the projective
    # model), the other by floats: the same segment as for its float copy - in either order
    ip = np.zeros(shape + (n + 1,), dtype=np.int64)
    ip[..., 0] = 2
    ip[..., 1] = 1
    if np.all(np.sum((KB - np.eye(n)[0] * 0.5) ** 2, axis=-1) > 1e-4):
        for order in (0, 1):
            ends_i = (ip.copy(), PB0.copy()) if order == 0 else (PB0.copy(), ip.copy())
            ends_f = (ip.astype(float), PB0.copy()) if order == 0 else (PB0.copy(),
                                                                         ip.astype(float))
            Si = hyperbolic.Segment(hyperbolic.Point(ends_i[0]), hyperbolic.Point(ends_i[1]))
            Sf = hyperbolic.Segment(hyperbolic.Point(ends_f[0]), hyperbolic.Point(ends_f[1]))
            ctx.close("Segment with one integer-typed endpoint: endpoints as given",
                      np.array(Si.proj_data, dtype=float), np.array(Sf.proj_data, dtype=float),
                      rtol=0, atol=0)
            ctx.small("Segment with one integer-typed endpoint: ideal endpoints of the float "
                      "copy", _unordered_pair_dist(
                          np.array(Si.ideal_endpoint_coords("projective"), dtype=float),
                          np.array(Sf.ideal_endpoint_coords("projective"), dtype=float)), 1e-9)
        ctx.label("integer-typed-endpoint")
    I0 = np.array(S0.ideal_endpoint_coords("projective"))
    I1 = np.array(S1.ideal_endpoint_coords("projective"))
    sep = np.sqrt(np.sum((KA - KB) ** 2, axis=-1))
    segtol = 1e-7 * hs / np.maximum(sep, 1e-3)
    ctx.small("segment ideal endpoints unchanged (unordered, projective)",
              _unordered_pair_dist(I1, I0) / segtol, 1.0)
    ctx.small("ideal endpoints are lightlike",
              mink(I1, I1) / np.sum(I1 * I1, axis=-1) / (segtol[..., None] * 10), 1.0)
    # and in the same order (the ideal endpoint on the side of the first endpoint first),
    # unit by unit, whatever the signs of the factors
    ordered = np.maximum(proj_dist(I1[..., 0, :], I0[..., 0, :]),
                         proj_dist(I1[..., 1, :], I0[..., 1, :]))
    ctx.small("segment ideal endpoints keep their order under rescaling", ordered / segtol, 1.0)
    toward = np.sum((I0[..., 0, 1:] / I0[..., 0, :1] - KA) * (KA - KB), axis=-1)
    ctx.check(np.all(toward > 0), "the first ideal endpoint lies beyond the first endpoint",
              toward=toward)
    if n == 2:
        for model in ("poincare", "halfspace"):
            c0, r0, th0 = S0.circle_parameters(degrees=False, model=model)
            c1, r1, th1 = S1.circle_parameters(degrees=False, model=model)
            ok = np.isfinite(r0) & (r0 < 1e3) & np.isfinite(r1)
            if np.any(ok):
                ctl = 1e-5 * (1 + np.where(ok, r0, 0)) ** 2 / np.maximum(sep, 1e-3)
                ctx.small("circle centre unchanged (%s)" % model,
                          np.where(ok[..., None], c1 - c0, 0) / ctl[..., None], 1.0)
                ctx.small("circle radius unchanged (%s)" % model,
                          np.where(ok, r1 - r0, 0) / ctl, 1.0)
                ang = np.where(ok[..., None], _circ_diff(th1, th0, 2 * np.pi), 0)
                ctx.small("circle angles unchanged (%s)" % model,
                          ang / (1e-4 * hs / np.maximum(sep, 1e-3) *
                                 (1 + np.where(ok, r0, 0)))[..., None], 1.0)
    # tangent directions and the points reached along them
    t = case["t"]
    tv0 = A0.unit_tangent_towards(B0)
    tv1 = A1.unit_tangent_towards(B1)
    q0 = np.array(tv0.point_along(t).coords("klein"))
    q1 = np.array(tv1.point_along(t).coords("klein"))
    amp = hs * math.exp(abs(t))
    ctx.close("point_along(t) of unit_tangent_towards unchanged", q1, q0, rtol=0,
              atol=1e-8 * amp / np.maximum(np.min(sep, initial=1.0), 1e-3))
    r1 = np.array(tv1.point_along(d1).coords("klein"))
    ctx.close("following the tangent for d(p,q) arrives at q", r1, KB, rtol=0,
              atol=1e-6 * hs * hs / np.maximum(np.min(sep, initial=1.0), 1e-3))
    # angles at the (rescaled, not yet queried) basepoint: between the directions to the second
    # cloud and to a fixed third point, and between two raw ambient vectors
    third = hyperbolic.Point(np.array(case["iso_pt"]), model="klein")
    KC = np.broadcast_to(np.array(case["iso_pt"], dtype=float), KA.shape)
    sepc = np.sqrt(np.sum((KA - KC) ** 2, axis=-1))
    angs = []
    again = []
    for (PA, PB) in ((PA0, PB0), (PA1, PB1)):
        Af, Bf = mk(PA, PB)
        t_ab = Af.unit_tangent_towards(Bf)
        Af2 = hyperbolic.Point(PA.copy())
        t_ac = Af2.unit_tangent_towards(third)
        a1 = np.array(t_ab.angle(t_ac), dtype=float)
        # the same tangent vectors, asked again after they have been used to walk along
        # their geodesics (as one does to mark a point on a side): same direction, same angle
        # (only where both directions exist: a basepoint equal to the target has none)
        if np.all(sepc > 0.02) and np.all(sep > 0.02):
            w_first = np.array(t_ab.point_along(0.5).coords("klein"))
            t_ac.point_along(0.25)
            a1_again = np.array(t_ab.angle(t_ac), dtype=float)
            w_again = np.array(t_ab.normalized().point_along(0.5).coords("klein"))
            again.append((a1_again - a1, w_again - w_first))
            ctx.label("tangents-asked-again")
        raw1 = hyperbolic.TangentVector(hyperbolic.Point(PA.copy()),
                                        np.concatenate([0.3 * one, KB - KA], axis=-1))
        raw2 = hyperbolic.TangentVector(hyperbolic.Point(PA.copy()),
                                        np.concatenate([-0.2 * one, KC - KA], axis=-1))
        a2 = np.array(raw1.angle(raw2), dtype=float)
        angs.append((a1, a2))
    atol_ang = 1e-6 * hs * hs / np.maximum(np.minimum(sep, sepc), 1e-3)
    okc = sepc > 0.02
    for j, nm in enumerate(("angle between unit tangents at a rescaled basepoint",
                            "angle between raw tangent vectors at a rescaled basepoint")):
        d_ang = np.where(okc, angs[1][j] - angs[0][j], 0.0)
        # (near 0 and pi the arccos amplifies rounding like a square root)
        ctx.small(nm + " unchanged", d_ang / np.sqrt(atol_ang), 1.0, got=angs[1][j],
                  ref=angs[0][j])
    for (da, dw) in again:
        ctx.small("angle between two tangent vectors asked again after point_along",
                  np.where(okc, da, 0.0) / np.sqrt(atol_ang), 1.0)
        ctx.small("normalized().point_along after point_along reaches the same point",
                  dw / (1e-8 * hs * 2), 1.0)
    # constructed isometries as projective maps (determined part)
    O1 = A1.origin_to(force_oriented=case["force"])
    origin = hyperbolic.Point.get_origin(n, shape)
    ctx.close("origin_to() @ origin is the point", (O1 @ origin).coords("klein"), KA,
              rtol=0, atol=1e-9 * hs)
    T1 = tv1.isometry_to(B1.unit_tangent_towards(A1))
    T0 = tv0.isometry_to(B0.unit_tangent_towards(A0))
    # a tangent-vector isometry is determined on the geodesic it moves
    along0 = tv0.point_along(0.7)
    along1 = tv1.point_along(0.7)
    ctx.close("isometry_to acts the same on the geodesic", (T1 @ along1).coords("klein"),
              (T0 @ along0).coords("klein"), rtol=0,
              atol=1e-7 * hs * hs / np.maximum(np.min(sep, initial=1.0), 1e-3))
    # images under a transformation
    P = hyperbolic.Point(np.array(case["iso_pt"]), model="klein")
    G = P.origin_to()
    ctx.close("image under an isometry unchanged", (G @ A1).coords("klein"),
              (G @ A0).coords("klein"), rtol=0, atol=1e-9 * hs * 20)
    img = np.array((G @ S1).ideal_endpoint_coords("projective"))
    img0 = np.array((G @ S0).ideal_endpoint_coords("projective"))
    ctx.small("image of a segment (derived data) unchanged",
              _unordered_pair_dist(img, img0) / (segtol * 20), 1.0)


@st.composite
def polygon_rescale_case(draw):
    k = draw(st.integers(3, 6))
    shape = draw(gen.shapes(max_rank=1))
    cnt = gen.prod(shape)
    polys, scales = [], []
    for _ in range(cnt):
        th0 = draw(fl(0, 2 * math.pi))
        verts = []
        for i in range(k):
            r = draw(fl(0.2, 0.9))
            th = th0 + 2 * math.pi * (i + draw(fl(-0.3, 0.3))) / k
            verts.append([r * math.cos(th), r * math.sin(th)])
        polys.append(verts)
        scales.append(gen.scale_lists(draw, k)[0])
    return dict(k=k, shape=shape, polys=polys, scales=scales)


def body_polygon_rescale(case, ctx):
    k, shape = case["k"], tuple(case["shape"])
    K = np.array(case["polys"], dtype=float).reshape(shape + (k, 2))
    S = np.array(case["scales"], dtype=float).reshape(shape + (k,))
    P0 = np.concatenate([np.ones(shape + (k, 1)), K], axis=-1)
    P1 = P0 * S[..., None]
    ctx.label("k=%d" % k, "rank=%d" % len(shape), "negative-factor" if (S < 0).any() else "",
              "units-scaled-differently")
    poly0 = hyperbolic.Polygon(P0.copy())
    poly1 = hyperbolic.Polygon(P1.copy())
    ctx.close("polygon vertex coordinates unchanged", poly1.coords("klein"), K, rtol=0,
              atol=1e-9)
    e0, e1 = poly0.get_edges(), poly1.get_edges()
    I0 = np.array(e0.ideal_endpoint_coords("projective"))
    I1 = np.array(e1.ideal_endpoint_coords("projective"))
    ctx.small("polygon edges: ideal endpoints unchanged", _unordered_pair_dist(I1, I0), 1e-5)
    for model in ("poincare", "halfspace"):
        c0, r0, th0 = e0.circle_parameters(degrees=True, model=model)
        c1, r1, th1 = e1.circle_parameters(degrees=True, model=model)
        ok = np.isfinite(r0) & (r0 < 100) & np.isfinite(r1)
        ctl = 1e-5 * (1 + np.where(ok, r0, 0)) ** 2
        ctx.small("edge circle centres unchanged (%s)" % model,
                  np.where(ok[..., None], c1 - c0, 0) / ctl[..., None], 1.0)
        ctx.small("edge circle radii unchanged (%s)" % model, np.where(ok, r1 - r0, 0) / ctl,
                  1.0)
        ctx.small("edge circle angles unchanged (%s)" % model,
                  np.where(ok[..., None], _circ_diff(th1, th0, 360.0), 0) /
                  (1e-3 * (1 + np.where(ok, r0, 0)))[..., None], 1.0)
    # projective polygon and its image under a projective map
    pp0, pp1 = projective.Polygon(P0.copy()), projective.Polygon(P1.copy())
    M = np.array([[1.0, 0.2, -0.1], [0.3, 1.1, 0.0], [-0.2, 0.1, 0.9]])
    T = projective.Transformation(M, column_vectors=True)
    a0 = (T @ pp0).affine_coords()
    a1 = (T @ pp1).affine_coords()
    ctx.close("image of a projective polygon unchanged", a1, a0, rtol=1e-9, atol=1e-9)
    ea0 = np.array((T @ pp0).get_edges().proj_data)
    ea1 = np.array((T @ pp1).get_edges().proj_data)
    ctx.small("edges of the image unchanged (projectively)", proj_dist(ea1, ea0), 1e-9)


@st.composite
def horo_rescale_case(draw):
    n = draw(st.integers(2, 4))
    shape = draw(gen.shapes(max_rank=1))
    cnt = gen.prod(shape)
    sc, sr = gen.scale_lists(draw, cnt, cnt)
    return dict(n=n, shape=shape,
                centres=[draw(gen.ideal_direction(n, away_from_inf=0.2)) for _ in range(cnt)],
                refs=draw(gen.klein_points(n, cnt, rmax=0.95)),
                normals=[draw(gen.directions(n)) for _ in range(cnt)],
                offs=[draw(fl(-0.8, 0.8)) for _ in range(cnt)],
                sc=sc, sr=sr)


def body_horo_rescale(case, ctx):
    n, shape = case["n"], tuple(case["shape"])
    U = np.array(case["centres"], dtype=float).reshape(shape + (n,))
    R = np.array(case["refs"], dtype=float).reshape(shape + (n,))
    sc = np.array(case["sc"]).reshape(shape)
    sr = np.array(case["sr"]).reshape(shape)
    one = np.ones(shape + (1,))
    C0 = np.concatenate([one, U], axis=-1)
    R0 = np.concatenate([one, R], axis=-1)
    ctx.label("n=%d" % n, "rank=%d" % len(shape),
              "negative-factor" if (sc < 0).any() or (sr < 0).any() else "",
              "units-scaled-differently")
    h0 = hyperbolic.Horosphere(C0.copy(), R0.copy())
    h1 = hyperbolic.Horosphere(C0 * sc[..., None], R0 * sr[..., None])
    for model in ("poincare", "halfspace"):
        c0, r0 = h0.sphere_parameters(model)
        c1, r1 = h1.sphere_parameters(model)
        ctx.close("horosphere centre unchanged (%s)" % model, c1, c0, rtol=1e-6, atol=1e-6)
        ctx.close("horosphere radius unchanged (%s)" % model, r1, r0, rtol=1e-6, atol=1e-6)
    # hyperplanes from spacelike normals (n_0 = offset < |n| so the normal is spacelike)
    Nrm = np.array(case["normals"], dtype=float).reshape(shape + (n,))
    off = np.array(case["offs"], dtype=float).reshape(shape + (1,))
    V0 = np.concatenate([off, Nrm], axis=-1)[..., None, :]     # (..., 1, n+1)
    V1 = V0 * sc[..., None, None]
    if len(shape) == 0:
        V0, V1 = V0[0], V1[0]
    hp0 = hyperbolic.Hyperplane(V0.copy())
    hp1 = hyperbolic.Hyperplane(V1.copy())
    r0 = np.array(hp0.reflection_across().matrix)
    r1 = np.array(hp1.reflection_across().matrix)
    ctx.close("reflection across a hyperplane unchanged when the normal is rescaled",
              r1, r0, rtol=1e-7, atol=1e-7 * max(1.0, float(np.abs(r0).max())))


# ---------------------------------------------------------------------------
@st.composite
def boundary_arc_case(draw):
    a = draw(st.one_of(fl(-math.pi, math.pi), fl(-math.pi, math.pi),
                       st.sampled_from([0.0, math.pi / 2, -math.pi / 2, math.pi])))
    # the second endpoint away from the first (margin 0.05 in the sine), or exactly opposite
    # to it, where the arc from the first counter-clockwise to the second is a half circle
    gap = draw(st.one_of(fl(0.06, math.pi - 0.06), fl(-math.pi + 0.06, -0.06),
                         st.sampled_from([math.pi, -math.pi, math.pi / 2])))
    return dict(a=a, b=a + gap, s=gen.scale_lists(draw, 2)[0],
                degrees=draw(st.booleans()), model=draw(st.sampled_from(["poincare", "klein"])),
                ctor=draw(st.sampled_from(["two", "stacked"])))


def body_boundary_arc(case, ctx):
    """an arc of the ideal boundary given by its two endpoints: which arc it is (from the first
    endpoint counter-clockwise to the second) does not depend on the representatives"""
    a, b = case["a"], case["b"]
    e = [np.array([1.0, math.cos(t), math.sin(t)]) for t in (a, b)]
    if abs(abs(b - a) - math.pi) < 1e-12:
        ctx.label("antipodal-endpoints")
    ctx.label("negative-factor" if min(case["s"]) < 0 else "",
              "units-scaled-differently" if case["s"][0] != case["s"][1] else "",
              "opposite-signs" if case["s"][0] * case["s"][1] < 0 else "")
    per = 360.0 if case["degrees"] else 2 * math.pi
    out = []
    for scales in ((1.0, 1.0), tuple(case["s"])):
        p1, p2 = e[0] * scales[0], e[1] * scales[1]
        arc = hyperbolic.BoundaryArc(p1.copy(), p2.copy()) if case["ctor"] == "two" else \
            hyperbolic.BoundaryArc(np.stack([p1, p2]))
        c, r, th = arc.circle_parameters(model=case["model"], degrees=case["degrees"])
        out.append((np.asarray(c, dtype=float), float(r), np.asarray(th, dtype=float)))
    for (c, r, th) in out:
        ctx.close("a boundary arc lies on the unit circle", np.append(c, r), [0.0, 0.0, 1.0],
                  rtol=0, atol=1e-12)
        want = np.array([a, b]) * (per / (2 * math.pi))
        ctx.small("the arc runs from the first endpoint to the second",
                  _circ_diff(th, want, per), 1e-9 * per)
    ctx.small("boundary arc angles unchanged by rescaling the endpoints",
              _circ_diff(out[1][2], out[0][2], per), 1e-9 * per)


LAWS = [
    Law("packaging_scalar", scalar_case(), body_scalar,
        lambda l: "non-reference-packaging" in l, quick=600, thorough=4000, shards=(2, 8)),
    Law("packaging_array", array_case(), body_array,
        lambda l: "non-reference-packaging" in l, quick=400, thorough=3000, shards=(2, 8)),
    Law("packaging_coxeter_labels", coxeter_case(), body_coxeter, lambda l: True, quick=150,
        thorough=1000, shards=(1, 4)),
    Law("readme_examples_run", None, body_example, lambda l: True,
        exhaustive=lambda tier: [("README/docstring examples",
                                  [{"example": k} for k in sorted(EXAMPLES)])]),
    Law("rescaling_points_segments_tangents", rescale_case(), body_rescale,
        lambda l: "negative-factor" in l and "units-scaled-differently" in l, quick=300,
        thorough=3000, shards=(2, 8)),
    Law("rescaling_boundary_arcs", boundary_arc_case(), body_boundary_arc,
        lambda l: "negative-factor" in l, quick=150, thorough=1000, shards=(1, 2)),
    Law("rescaling_polygons", polygon_rescale_case(), body_polygon_rescale,
        lambda l: "negative-factor" in l, quick=150, thorough=1500, shards=(1, 4)),
    Law("rescaling_horospheres_hyperplanes", horo_rescale_case(), body_horo_rescale,
        lambda l: "negative-factor" in l, quick=150, thorough=1500, shards=(1, 4)),
]
