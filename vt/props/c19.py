"""C19 - what is drawn is the object: the matplotlib artists added to drawing.ax have the
geometry of the hyperbolic / projective object after the drawing's transform."""
import os
import math
import contextlib

os.environ.setdefault("MPLBACKEND", "Agg")

import numpy as np
from hypothesis import strategies as st

import matplotlib.pyplot as plt
from matplotlib.patches import PathPatch, Arc, Rectangle
from matplotlib.collections import PolyCollection, LineCollection, EllipseCollection

from ..core import Law, Violation
from .. import gen
from ..gen import fl
from ..oracles import hyp as H
from ..oracles import draw as D

from geometry_tools import hyperbolic, projective, drawtools, GeometryError

# the documented constant drawtools.RADIUS_THRESHOLD (arcs of larger radius are drawn
# straight on purpose); pinned here, radii within BAND of it are not asserted either way
THRESH = 80.0
BAND = 0.02
MIN_EDGE = 1e-3          # model-coordinate edge length below which a polygon is not judged
XLIM_HP = (-6.0, 6.0)    # default half-plane view of HyperbolicDrawing
YLIM_HP = (-0.1, 8.0)
_WIN = {"x": XLIM_HP, "y": YLIM_HP}     # the half-plane window of the drawing of the current case


def _screen_x():
    (x0, x1) = _WIN["x"]
    return x0 - OFF * (x1 - x0), x1 + OFF * (x1 - x0)
OFF = 0.1                # OFFSCREEN_FACTOR

ARC_MODELS = ["poincare", "halfspace"]

# displayed ideal points (geodesic endpoints, horosphere centres) are either exactly the
# half-plane point at infinity (exact data, no transform) or at angular distance >= this
IDEAL_GAP = 0.06

RULE = ("cases: a drawing (model Poincare / half-plane / Klein, or a ProjectiveDrawing in chart "
        "0/1/2; figure size 1..8, created by the class or on caller-supplied axes) with a "
        "transform program of 0..3 steps (constructor transform=, set_transform, add_transform, "
        "precompose_transform; isometries = rotation*boost(rapidity<=1.2)*rotation[*reflection], "
        "projective maps = well-conditioned 3x3) and a composite object of shape (), (k,) or "
        "(a,b). Polygons (3..8 vertices) are constructed as the *displayed* shape in model "
        "coordinates - star-shaped with random radii (non-convex), randomly permuted "
        "(self-intersecting), regular about a random centre, with an edge on a diameter / "
        "vertical line, with an edge on a circle of radius 80(1+-d), d log-uniform in "
        "[0.021,1], or i.i.d. Klein points, or integer projective coordinates, or with some / all "
        "vertices ideal - and pulled back "
        "by the harness' inverse of the drawing transform, entered through Klein / Poincare / "
        "half-plane / projective coordinates with random (also negative) scales. The oracle "
        "recomputes transform @ object itself and reads the artists in drawing.ax. "
        "non-trivial = (>= 4 vertices and an edge reversed by the chaining heuristic) or a "
        "non-identity drawing transform or an edge above the radius threshold (polygons); a "
        "non-identity transform or composite shape (other laws); distinct = distinct JSON case.")

ASSUMPTIONS = [
    "backend Agg; one figure open per case (closed afterwards, also on failure) except in the "
    "laws *_own_axes, which open a second figure on purpose",
    "displayed polygon edges are >= 1e-3 long in model coordinates (the chaining heuristic's "
    "1e-4 threshold is not under test); polygons with a shorter edge are counted, not judged",
    "RADIUS_THRESHOLD is the documented constant 80; edges / geodesics whose harness radius is "
    "within 2% of it may be drawn either as an arc or straight",
    "half-plane straight pieces: the deliberate vertical-segment substitution is asserted only "
    "for endpoints inside the default view (|x| <= 7.2); the horizontal gap is reported in "
    "labels, not asserted; horocycles of Euclidean radius >= 0.98*80 with a finite centre are "
    "not judged",
    "interior vertices have Klein radius <= ~0.99996 after the drawing transform; every "
    "*displayed* ideal point (geodesic endpoint, horosphere centre, ideal polygon vertex) is "
    "either exactly the half-plane point at infinity (exact data (s,s,0), no transform) or at "
    "angular distance >= 0.06 from it: an ideal point equal to it only up to rounding has no "
    "well-conditioned half-plane coordinates (same bound as C01/C14); float64 only",
    "tolerances follow the conditioning measured in the harness (X = |centre|+radius, L = "
    "edge length, ||M|| = norm of the drawing transform): Poincare finite 1e-9(1+X); half-plane "
    "finite (1e-7(1+X)+1.2e-6(1+X^2)/min(L,1)) rho, rho = ratio of the Minkowski norms of the "
    "two representatives handed to the library, read from obj.proj_data for conditioning only "
    "(the library derives circles from ideal endpoints with sqrt(eps) rho height noise); "
    "objects with ideal points 5e-7(1+X^2)||M||; "
    "horocircles 1e-5(1+X)||M|| (Poincare), 1e-8(1+X^2)||M|| (half-plane); Arc centre / "
    "radius additionally x (1 + r/L); each >= 25 x the worst residual in 30-40 thousand "
    "random objects",
    "Drawing3D, draw_nonaff_polygon, draw_line, draw_boundary_arc, CP1Drawing are outside the "
    "statement",
]

CLAIM = dict(
    text=("For polygons (3..8 vertices, convex or not, composite), segments, geodesics, points, "
          "horospheres and horospherical arcs of H^2 and points / segments / polygons of RP^2, "
          "under random drawing-transform programs, the artists found in drawing.ax are: one "
          "closed continuous path per polygon visiting transform@vertices in order along the "
          "geodesic circles (arc chunks) or the deliberate straight substitute above the radius "
          "threshold; Arc patches with the centre, radius and counter-clockwise extent of the "
          "geodesic / horocycle; Line2D and collections at the model / chart coordinates. "
          "Objects of dimension 1 or 3 raise GeometryError and add nothing."),
    note=("expected geometry is computed by the harness alone (own Klein->Poincare->half-plane "
          "maps, own orthogonal circle through two points, Busemann function for horocycles); "
          "paths are parsed by their codes into chunks"),
    technique="property-based testing (Hypothesis) with a geometric oracle over matplotlib artists",
)


# ---------------------------------------------------------------------------
# figures
@contextlib.contextmanager
def make_drawing(cls, figspec, **kw):
    """A drawing of class `cls`; every figure is closed on exit, also on failure."""
    box = {}
    try:
        size = figspec.get("size", 1)
        if figspec.get("own"):
            fig, ax = plt.subplots(figsize=(size, size))
            d = cls(fig=fig, ax=ax, **kw)
        else:
            d = cls(figsize=size, **kw)
        if figspec.get("decoy"):
            dfig = plt.figure(figsize=(1, 1))
            box["decoy_ax"] = dfig.add_subplot()
        d._vt = box
        # transformation objects the caller hands to the drawing stay the caller's: what the
        # drawing does to its own transform later must not show in them
        box["given"] = []
        if kw.get("transform") is not None:
            remember(d, kw["transform"])
        if kw.get("xlim") is not None:
            # the lines that stand for infinity (where the straight pieces towards ideal or
            # far-away points end) belong to the window that is drawn
            f = drawtools.OFFSCREEN_FACTOR
            (x0, x1), (y0, y1) = kw["xlim"], kw["ylim"]
            want = dict(left_infinity=x0 - f * (x1 - x0), right_infinity=x1 + f * (x1 - x0),
                        up_infinity=y1 + f * (y1 - y0), down_infinity=y0 - f * (y1 - y0))
            got = {k: float(getattr(d, k)) for k in want}
            if any(abs(got[k] - want[k]) > 1e-9 for k in want) or \
                    tuple(d.ax.get_xlim()) != tuple(kw["xlim"]):
                raise Violation("the drawing's lines at infinity are not those of the window "
                                "it was given", {"got": got, "want": want,
                                                 "xlim": list(d.ax.get_xlim())})
        yield d
    finally:
        plt.close("all")


def remember(d, T):
    d._vt["given"].append((T, np.array(T.matrix, copy=True)))


def given_unchanged(d, after):
    for (T, M0) in d._vt["given"]:
        if not np.array_equal(np.array(T.matrix), M0):
            raise Violation("a transformation handed to the drawing was changed by the drawing "
                            "(%s)" % after, {"before": M0.tolist(),
                                             "after": np.array(T.matrix).tolist()})


def hyp_drawing(case, model, init=None):
    al = MODEL_ALIASES[model]
    kw = dict(model=al[case["fig"].get("alias", 0) % len(al)])
    if init is not None:
        kw["transform"] = hyperbolic.Isometry(np.array(init, dtype=float))
    _WIN["x"], _WIN["y"] = XLIM_HP, YLIM_HP
    if model == "halfspace" and case["fig"].get("size", 1) in (2, 3):
        # a window of the caller's choosing (wider than the default one and off centre)
        kw["xlim"], kw["ylim"] = (-9.0, 21.0), (0.0, 24.0)
        _WIN["x"], _WIN["y"] = kw["xlim"], kw["ylim"]
    return make_drawing(drawtools.HyperbolicDrawing, case["fig"], **kw)


def apply_program(d, prog, wrap):
    for op, M in prog:
        if op == "init":
            continue
        T = wrap(np.array(M, dtype=float))
        remember(d, T)
        if op == "set":
            d.set_transform(T)
        elif op == "add":
            d.add_transform(T)
        elif op == "pre":
            d.precompose_transform(T)
        given_unchanged(d, op)


def init_of(prog):
    return prog[0][1] if prog and prog[0][0] == "init" else None


def n_artists(ax):
    return (len(ax.patches) + len(ax.collections) + len(ax.lines) + len(ax.texts)
            + len(ax.images))


# ---------------------------------------------------------------------------
# strategies: transforms, figures, shapes
ANG = st.one_of(fl(-math.pi, math.pi),
                st.sampled_from([0.0, math.pi / 2, math.pi, -math.pi / 2]))

FIG = st.fixed_dictionaries(dict(size=st.sampled_from([1, 1, 1, 2, 2, 3, 8]),
                                 own=st.booleans(), alias=st.integers(0, 3)))

# the names a caller may use for a model (strings incl. aliases, enum members)
MODEL_ALIASES = {
    "poincare": ["poincare", hyperbolic.Model.POINCARE],
    "halfspace": ["halfspace", "halfplane", hyperbolic.Model.HALFSPACE,
                  hyperbolic.Model.HALFPLANE],
    "klein": ["klein", hyperbolic.Model.KLEIN],
}

SHAPES = st.sampled_from([[], [], [1], [2], [3], [4], [1, 2], [2, 2], [2, 1]])

STYLE = st.sampled_from([{}, {}, {"facecolor": "lightgreen"},
                         {"edgecolor": "darkred", "linewidth": 2}])


@st.composite
def iso_matrix(draw, tmax=1.2):
    kind = draw(st.integers(0, 7))
    if kind == 0:
        return np.eye(3).tolist()
    a = draw(ANG)
    if kind == 1:
        return D.rot3(a).tolist()
    t = draw(fl(0.0, tmax))
    b = draw(ANG)
    flip = draw(st.booleans())
    return D.iso_from_params(a, t, b, flip).tolist()


@st.composite
def program(draw, mat):
    k = draw(st.sampled_from([0, 1, 1, 1, 2, 2, 3]))
    prog = []
    for i in range(k):
        ops = ["init", "set", "add", "pre"] if i == 0 else ["set", "add", "pre"]
        prog.append([draw(st.sampled_from(ops)), draw(mat)])
    if k >= 2 and draw(st.integers(0, 2)) == 0:
        # the constructor's transform composed with a later one - the combination in which
        # the drawing's own transform is the object the caller handed over
        prog[0][0] = "init"
        prog[1][0] = draw(st.sampled_from(["pre", "add"]))
    return prog


def is_identity(M):
    M = np.asarray(M, float)
    return bool(np.allclose(M, np.eye(len(M)), atol=1e-12)
                or np.allclose(M, -np.eye(len(M)), atol=1e-12))


def cis(a):
    return np.array([math.cos(a), math.sin(a)])


# ---------------------------------------------------------------------------
# strategies: displayed polygons in model coordinates
@st.composite
def star_points(draw, model, n):
    """n points around a centre with angular gaps >= 2 pi 0.25/n and radii in [0.3,1] of
    the room available: pairwise distances >= ~1e-2 by construction"""
    gaps = [draw(fl(0.25, 1.0)) for _ in range(n)]
    tot = sum(gaps)
    acc = draw(ANG)
    angs = []
    for g in gaps:
        angs.append(acc)
        acc += 2 * math.pi * g / tot
    if model == "halfspace":
        x0 = draw(fl(-4.0, 4.0))
        y0 = math.exp(draw(fl(math.log(0.2), math.log(6.0))))
        rmax = 0.85 * y0
    else:
        cr = draw(fl(0.0, 0.75))
        ca = draw(ANG)
        x0, y0 = cr * math.cos(ca), cr * math.sin(ca)
        rmax = 0.95 - cr
    pts = []
    for a in angs:
        r = rmax * draw(fl(0.3, 1.0))
        pts.append([x0 + r * math.cos(a), y0 + r * math.sin(a)])
    if draw(st.integers(0, 3)) == 0:
        pts = list(draw(st.permutations(pts)))
    if draw(st.booleans()):
        pts = pts[::-1]
    return pts


@st.composite
def straight_edge(draw, model):
    """two model points whose geodesic is a Euclidean straight line"""
    if model == "halfspace":
        x0 = draw(fl(-5.0, 5.0))
        y1 = math.exp(draw(fl(math.log(0.1), math.log(5.0))))
        y2 = y1 * draw(fl(1.2, 5.0))
        A, B = [x0, y1], [x0, y2]
    else:
        u = cis(draw(ANG))
        a = draw(fl(0.05, 0.9))
        if draw(st.booleans()):
            b = -draw(fl(0.05, 0.9))          # the origin lies on the edge
        else:
            b = a * draw(fl(0.2, 0.8))
        A, B = (a * u).tolist(), (b * u).tolist()
    return (A, B) if draw(st.booleans()) else (B, A)


@st.composite
def threshold_radius(draw, thr=THRESH):
    d = math.exp(draw(fl(math.log(0.021), math.log(1.0))))
    if draw(st.booleans()):
        return thr * (1 + d)
    return thr * (1 - min(d, 0.9))


@st.composite
def threshold_edge(draw, model, thr=THRESH):
    """two model points on a geodesic circle of Euclidean radius R close to the threshold"""
    R = draw(threshold_radius(thr))
    if model == "halfspace":
        x0 = draw(fl(-4.0, 4.0))
        side = draw(st.sampled_from([-1.0, 1.0]))
        y1 = min(math.exp(draw(fl(math.log(0.3), math.log(4.0)))), 0.5 * R)
        y2 = min(y1 * draw(fl(1.15, 3.0)), 0.9 * R)
        pts = []
        for y in (y1, y2):
            th = math.asin(y / R)
            pts.append([x0 - side * 2 * R * math.sin(th / 2) ** 2, y])
        A, B = pts
    else:
        phi = draw(ANG)
        alpha = math.atan(1.0 / R)
        w = draw(fl(0.05, 1.0)) * min(1.0, 1.2 * R * alpha)
        half = w / (2 * R)
        mid = draw(fl(-1.0, 1.0)) * (0.85 * alpha - half)
        c = math.sqrt(1 + R * R) * cis(phi)
        A = (c + R * cis(math.pi + phi + mid - half)).tolist()
        B = (c + R * cis(math.pi + phi + mid + half)).tolist()
    return (A, B) if draw(st.booleans()) else (B, A)


POLY_KINDS = ["star", "star", "star", "regular", "straight", "threshold", "threshold", "iid"]


@st.composite
def displayed_polygon(draw, model, n, kind):
    """Klein coordinates (n,2) of the polygon that should appear, or None for kind iid"""
    if kind == "star":
        return D.from_model(np.array(draw(star_points(model, n))), model)
    if kind == "regular":
        rho = draw(fl(0.1, 0.95))
        ph = draw(ANG)
        Q0 = np.array([rho * cis(ph + 2 * math.pi * k / n) for k in range(n)])
        S = np.array(draw(iso_matrix(tmax=1.0)))
        return D.act_klein(Q0, S)
    if kind in ("straight", "threshold"):
        A, B = draw(straight_edge(model) if kind == "straight" else threshold_edge(model))
        rest = draw(star_points(model, n - 2)) if n > 3 else \
            [draw(star_points(model, 3))[0]]
        i = draw(st.integers(0, len(rest)))
        pts = rest[:i] + [A, B] + rest[i:]
        return D.from_model(np.array(pts), model)
    raise ValueError(kind)


def pull_back(QK, M):
    """input Klein points P with act(P, M) = QK (harness inverse), kept inside the disc"""
    P = D.act_klein(QK, D.iso_inverse(M))
    r = np.sqrt(np.sum(P * P, axis=-1, keepdims=True))
    lim = 1 - 1e-9
    return np.where(r > lim, P * (lim / np.maximum(r, 1e-300)), P)


SRCS = ["klein", "klein", "poincare", "halfspace", "projective", "projective"]


@st.composite
def source_spec(draw, count_pts):
    src = draw(st.sampled_from(SRCS))
    spec = dict(src=src)
    if src == "projective":
        mixed = draw(st.booleans())
        # one factor for the whole drawing, possibly of quite another order of magnitude
        # (a common factor costs no accuracy), times ordinary per-point factors
        common = draw(st.sampled_from(gen.COMMON_FACTORS))
        if mixed:
            spec["scales"] = [common * draw(gen.scalars_pm()) for _ in range(count_pts)]
        else:
            s = common * draw(gen.scalars_pm())
            spec["scales"] = [s] * count_pts
        spec["mixed"] = mixed
    return spec


@st.composite
def polygon_case(draw, model, kinds=POLY_KINDS):
    n = draw(st.sampled_from([3, 4, 4, 5, 5, 6, 7, 8]))
    shape = draw(SHAPES)
    count = gen.prod(shape)
    prog = draw(program(iso_matrix()))
    M = D.run_program(prog)
    verts, kl = [], []
    for _ in range(count):
        kind = draw(st.sampled_from(kinds))
        kl.append(kind)
        if kind == "iid":
            pts = draw(gen.klein_points(2, n, rmax=0.95, special=False))
            if draw(st.integers(0, 5)) == 0:      # one vertex at the origin
                pts[draw(st.integers(0, n - 1))] = [0.0, 0.0]
            verts.append(pts)
        else:
            QK = draw(displayed_polygon(model, n, kind))
            verts.append(pull_back(QK, M).tolist())
    case = dict(model=model, n=n, shape=shape, prog=prog, verts=verts, kinds=kl,
                fig=draw(FIG), style=draw(STYLE))
    case.update(draw(source_spec(count * n)))
    return case


@st.composite
def int_polygon_case(draw, model):
    """vertices with integer projective coordinates (W, x, y): exercises the float cast"""
    n = draw(st.sampled_from([3, 4, 5, 6]))
    shape = draw(SHAPES)
    count = gen.prod(shape)
    W = 20
    lattice = [(x, y) for x in range(-17, 18) for y in range(-17, 18)
               if x * x + y * y <= 17 * 17]
    verts = []
    for _ in range(count):
        pts = draw(st.lists(st.sampled_from(lattice), min_size=n, max_size=n, unique=True))
        verts.append([[x / W, y / W] for (x, y) in pts])
    prog = draw(program(iso_matrix()))
    return dict(model=model, n=n, shape=shape, prog=prog, verts=verts,
                kinds=["int"] * count, fig=draw(FIG), style=draw(STYLE), src="int", W=W)


# ---------------------------------------------------------------------------
# building library objects from a case
def build_points(K, spec):
    """hyperbolic.Point with the composite shape of K[..., :-1] from Klein coordinates K,
    entered through the coordinates named by spec['src']"""
    src = spec["src"]
    K = np.array(K, dtype=float)
    # (the coordinate arrays are the caller's: it overwrites them once the points exist)
    h = gen.Handed()
    try:
        if src == "klein":
            return hyperbolic.Point(h.give(K), model="klein")
        if src == "poincare":
            return hyperbolic.Point(h.give(H.klein_to_poincare(K)), model="poincare")
        if src == "halfspace":
            return hyperbolic.Point(h.give(H.klein_to_model(K, "halfspace")), model="halfspace")
        if src == "projective":
            s = np.array(spec["scales"], dtype=float).reshape(K.shape[:-1] + (1,))
            X = np.concatenate([np.ones(K.shape[:-1] + (1,)), K], axis=-1) * s
            return hyperbolic.Point(h.give(X))
    finally:
        h.scribble()
    if src == "int":
        W = spec["W"]
        X = np.concatenate([np.full(K.shape[:-1] + (1,), W), np.rint(K * W)],
                           axis=-1).astype(int)
        return hyperbolic.Point(X)
    raise ValueError(src)


def label_common(ctx, case, M):
    ctx.label("model=" + str(case.get("model")), "rank=%d" % len(case["shape"]),
              "src=" + case.get("src", "-"), "fig=%s%s" % (case["fig"]["size"],
                                                          "own" if case["fig"]["own"] else ""))
    ctx.label("prog=" + "+".join(op for op, _ in case["prog"]) if case["prog"] else "prog=none")
    if not is_identity(M):
        ctx.label("transform!=id")
    if case.get("mixed"):
        ctx.label("mixed-sign-representatives")


# ---------------------------------------------------------------------------
# tolerances (calibrated on 30-40 thousand random objects per formula, factor >= 25 above
# the worst residual seen; see DESIGN section 3: tolerances follow the conditioning)
def pos_tol(model, X, length=None, ideal_norm=None, rho=1.0):
    """Tolerance on positions (model coordinates) of drawn points of a geodesic.
    X = |centre| + radius of the circle (or the size of the coordinates for a straight
    piece), length = Euclidean distance of the two endpoints, rho = ratio (>= 1) of the
    Minkowski norms of the two representatives the library was given.
    * Poincare, finite endpoints: arcs are reproduced to ~1e-13 (1+X).
    * half-plane, finite endpoints: centre and radius are derived from the *ideal*
      endpoints of the edge's geodesic (a quadratic in the two representatives), whose
      heights carry sqrt(eps) noise, extrapolated from an edge of the given length:
      observed <= 5e-8 rho (1+X^2)/min(length,1) on 50 000 random segments.
    * ideal_norm = ||M||_2 of the drawing transform when the object itself has ideal
      points (geodesics, ideal polygon vertices): their Poincare / half-plane coordinates
      carry sqrt(eps) ||M|| noise: observed <= 1.9e-8 (1+X^2) ||M||."""
    X = float(X)
    tol = 1e-9 * (1 + X) * rho
    if model == "halfspace":
        L = 1.0 if length is None else min(float(length), 1.0)
        tol = (1e-7 * (1 + X) + 1.2e-6 * (1 + X * X) / max(L, 1e-12)) * rho
    if ideal_norm is not None:
        tol = max(tol, 5e-7 * (1 + X * X) * ideal_norm)
    return tol


def mink_ratio(rows):
    """rho >= 1 for consecutive pairs (v, w) of representative rows (.., n, 3): the spread
    sqrt(max/min) of |<v,v>|, |<w,w>|, |<v,w>| (lightlike rows contribute no square); for
    two interior points close to each other this is the ratio of their Minkowski norms"""
    rows = np.asarray(rows, dtype=float)
    nxt = np.roll(rows, -1, axis=-2)

    def mk(u, v):
        return -u[..., 0] * v[..., 0] + np.sum(u[..., 1:] * v[..., 1:], axis=-1)

    def eu(u):
        return np.sum(u * u, axis=-1)

    g11, g22, g12 = np.abs(mk(rows, rows)), np.abs(mk(nxt, nxt)), np.abs(mk(rows, nxt))
    l1 = g11 < 1e-10 * eu(rows)
    l2 = g22 < 1e-10 * eu(nxt)
    hi = np.maximum(g12, np.maximum(np.where(l1, 0.0, g11), np.where(l2, 0.0, g22)))
    lo = np.minimum(g12, np.minimum(np.where(l1, np.inf, g11), np.where(l2, np.inf, g22)))
    with np.errstate(all="ignore"):
        rho = np.sqrt(hi / lo)
    return np.where(np.isfinite(rho), np.maximum(rho, 1.0), 1.0)


def horo_tol(model, X, normM):
    """horocircle centre / radius: Poincare through the noisy ideal coordinates divided by
    (1 - u.p) (observed <= 3.5e-7 (1+X)||M||); half-plane only uses the accurate abscissa"""
    if model == "poincare":
        return 1e-5 * (1 + X) * normM
    return 1e-8 * (1 + X * X) * normM


# ---------------------------------------------------------------------------
# law: polygon paths (Poincare, half-plane)
def check_polygon_path(ctx, model, verts, path_vertices, path_codes, ideal_norm=None,
                       rhos=None):
    """verts: (n,2) expected model coordinates in order; the path must be n chunks"""
    n = len(verts)
    ctx.check(path_codes is not None, "polygon path has codes")
    try:
        chunks = D.parse_chunks(path_vertices, path_codes)
    except D.PathGrammarError as e:
        ctx.fail("polygon path is not one continuous outline of arc/straight chunks: %s" % e,
                 codes=[int(c) for c in path_codes], vertices=path_vertices)
    ctx.check(len(chunks) == n, "one chunk per edge", chunks=len(chunks), edges=n,
              codes=[int(c) for c in path_codes])
    for i, ch in enumerate(chunks):
        p, q = verts[i], verts[(i + 1) % n]
        c, r = D.geodesic_circle(p, q, model)
        pts = ch["pts"]
        vs = float(max(np.max(np.abs(p)), np.max(np.abs(q))))
        length = float(np.linalg.norm(np.asarray(p) - np.asarray(q)))
        if r < THRESH * (1 - BAND):
            ctx.check(ch["kind"] == "arc", "edge below the radius threshold is drawn as an arc",
                      edge=i, radius=r, kind=ch["kind"])
        elif r > THRESH * (1 + BAND):
            ctx.check(ch["kind"] == "line", "edge above the radius threshold is drawn straight",
                      edge=i, radius=r, kind=ch["kind"])
            ctx.label("straight-edge")
        else:
            ctx.label("radius-in-band")
        if ch["kind"] == "arc":
            ctx.label("arc-chunk")
            rho = 1.0 if rhos is None else float(rhos[i])
            tol = pos_tol(model, r + float(np.max(np.abs(c))), length, ideal_norm, rho)
            fr = D.ArcFrame(c, r, p, q, upper=(model == "halfspace"))
            if fr.sweep < 0:
                ctx.label("reversed-edge")
            ctx.small("arc chunk starts at vertex i", np.abs(pts[0] - p) / tol, 1.0,
                      edge=i, got=pts[0], want=p)
            ctx.small("arc chunk ends at vertex i+1", np.abs(pts[-1] - q) / tol, 1.0,
                      edge=i, got=pts[-1], want=q)
            m = (len(pts) - 1) // 3
            ctx.small("arc knots lie on the geodesic circle", fr.radial(pts[0::3]) / tol, 1.0,
                      edge=i, centre=c, radius=r)
            S = D.bezier_points(pts, 8)
            btol = tol + D.bezier_arc_error(r, 2 * fr.h / m)
            ctx.small("flattened arc stays on the geodesic circle", fr.radial(S) / btol, 1.0,
                      edge=i, centre=c, radius=r, cubics=m)
            atol = btol / r + 1e-9
            sg = fr.signed(S) * (1.0 if fr.sweep >= 0 else -1.0)
            ctx.check(np.all(np.abs(sg) <= fr.h + atol),
                      "arc samples stay inside the angular range of the edge", edge=i,
                      worst=float(np.max(np.abs(sg)) - fr.h), half_width=fr.h)
            ctx.check(np.all(np.diff(sg) >= -atol),
                      "arc is traversed monotonically from vertex i to vertex i+1", edge=i)
            ctx.check(D.in_region(S, model, tol), "arc samples lie in the model region",
                      edge=i)
        else:
            ctx.label("line-chunk")
            tol = pos_tol(model, vs, None, ideal_norm)
            if model == "poincare":
                ctx.small("straight chunk is the chord from vertex i to vertex i+1",
                          np.abs(pts - np.array([p, q])) / tol, 1.0, edge=i, got=pts,
                          want=[p, q], radius=r)
            else:
                lo, hi = _screen_x()
                if not (lo < p[0] < hi and lo < q[0] < hi):
                    ctx.label("excluded:offscreen-vertical")
                    continue
                want = np.array([p, [p[0], q[1]]])
                ctx.small("straight chunk is the vertical segment from vertex i to the "
                          "height of vertex i+1", np.abs(pts - want) / tol, 1.0, edge=i,
                          got=pts, want=want, radius=r)
                gap = abs(q[0] - p[0])
                ctx.label("vertical-gap" + ("<1e-3" if gap < 1e-3 else
                                            "<1e-1" if gap < 1e-1 else ">=1e-1"))


def draw_and_check_polygons(case, ctx, model, poly, Q, ideal_norm=None):
    """draw `poly` under the case's figure / transform program and compare every patch with
    the expected model vertices Q (count, n, 2)"""
    n = Q.shape[1]
    if Q.size and float(np.min(np.linalg.norm(Q - np.roll(Q, -1, axis=1), axis=-1))) < 1e-6:
        # (nearly) coincident consecutive vertices: not a polygon of the domain, and the
        # edge's geodesic is undefined - nothing is drawn or judged
        ctx.label("skipped:degenerate-edge")
        return
    with hyp_drawing(case, model, init_of(case["prog"])) as d:
        apply_program(d, case["prog"], hyperbolic.Isometry)
        d.draw_polygon(poly, **case["style"])
        patches = list(d.ax.patches)
        got = []
        for p in patches:
            pa = p.get_path()
            got.append((type(p), np.array(pa.vertices, dtype=float),
                        None if pa.codes is None else np.array(pa.codes), p.axes is d.ax))
        others = len(d.ax.collections) + len(d.ax.lines)
    ctx.check(len(got) == len(Q), "one patch per unit polygon", patches=len(got),
              polygons=len(Q))
    # conditioning only: Minkowski norms of the representatives handed to the library
    rhos = mink_ratio(np.array(poly.proj_data, dtype=float).reshape((-1, n, 3)))
    ctx.check(others == 0, "nothing but patches is added for a polygon", others=others)
    if n >= 4:
        ctx.label("n>=4")
    for k, (cls, V, C, mine) in enumerate(got):
        ctx.check(cls is PathPatch and mine, "polygon artist is a PathPatch of the drawing",
                  cls=cls.__name__)
        edges = np.linalg.norm(Q[k] - np.roll(Q[k], -1, axis=0), axis=-1)
        if float(np.min(edges)) < MIN_EDGE:
            ctx.label("skipped:short-edge")
            continue
        ctx.label("judged")
        check_polygon_path(ctx, model, Q[k], V, C, ideal_norm, rhos[k])


def body_polygon(case, ctx):
    model, n, shape = case["model"], case["n"], tuple(case["shape"])
    P = np.array(case["verts"], dtype=float).reshape(shape + (n, 2))
    M = D.run_program(case["prog"])
    Q = D.to_model(D.act_klein(P, M), model).reshape((-1, n, 2))
    poly = hyperbolic.Polygon(build_points(P, case))
    ctx.check(poly.shape == shape, "polygon composite shape", got=poly.shape, want=shape)
    label_common(ctx, case, M)
    ctx.label("n=%d" % n, *["kind=" + k for k in case["kinds"]])
    draw_and_check_polygons(case, ctx, model, poly, Q)


@st.composite
def ideal_polygon_case(draw, model):
    """polygons with ideal vertices (ideal triangles etc.), given by projective rows; the
    displayed ideal vertices keep angular distance >= IDEAL_GAP from the half-plane point
    at infinity"""
    n = draw(st.sampled_from([3, 3, 4, 5, 6]))
    shape = draw(SHAPES)
    count = gen.prod(shape)
    prog = draw(program(iso_matrix()))
    Minv = D.iso_inverse(D.run_program(prog))
    rows, flags = [], []
    for _ in range(count):
        gaps = [draw(fl(0.25, 1.0)) for _ in range(n + 1)]
        tot = sum(gaps)
        acc, angs = 0.0, []
        for g in gaps[:n]:
            acc += g
            angs.append(IDEAL_GAP + (2 * math.pi - 2 * IDEAL_GAP) * acc / tot)
        if model != "halfspace":
            off = draw(ANG)
            angs = [a + off for a in angs]
        if draw(st.booleans()):
            fl_ = [True] * n
        else:
            fl_ = [draw(st.booleans()) for _ in range(n)]
            fl_[draw(st.integers(0, n - 1))] = True
        K = []
        for a, ideal in zip(angs, fl_):
            if ideal:
                K.append(cis(a))
            else:
                K.append(H.poincare_to_klein(draw(fl(0.2, 0.9)) * cis(a)))
        K = np.array(K)
        if draw(st.booleans()):
            K, fl_ = K[::-1], fl_[::-1]
        X = np.concatenate([np.ones((n, 1)), K], axis=-1) @ Minv
        X = X / X[:, :1] * np.array([[draw(gen.scalars_pm())] for _ in range(n)])
        rows.append(X.tolist())
        flags.append(list(fl_))
    return dict(model=model, n=n, shape=shape, prog=prog, rows=rows, ideal=flags,
                fig=draw(FIG), style=draw(STYLE), src="projective")


def body_ideal_polygon(case, ctx):
    model, n, shape = case["model"], case["n"], tuple(case["shape"])
    X = np.array(case["rows"], dtype=float).reshape(shape + (n, 3))
    ideal = np.array(case["ideal"], dtype=bool).reshape((-1, n))
    M = D.run_program(case["prog"])
    Y = (X @ M).reshape((-1, n, 3))
    K = Y[..., 1:] / Y[..., :1]
    U = K / np.linalg.norm(K, axis=-1, keepdims=True)
    Q = np.where(ideal[..., None], D.ideal_to_model(U, model),
                 D.to_model(np.where(ideal[..., None], 0.0, K), model))
    poly = hyperbolic.Polygon(X.copy())
    ctx.check(poly.shape == shape, "polygon composite shape", got=poly.shape, want=shape)
    label_common(ctx, case, M)
    ctx.label("n=%d" % n, "all-ideal" if ideal.all() else "some-ideal")
    draw_and_check_polygons(case, ctx, model, poly, Q,
                            ideal_norm=float(np.linalg.norm(M, 2)))


# ---------------------------------------------------------------------------
# law: half-plane polygons with a vertex exactly at the point at infinity
@st.composite
def inf_vertex_case(draw):
    n = draw(st.integers(3, 6))
    # finite vertices in half-plane coordinates, x strictly monotone (so that no edge between
    # finite vertices is vertical), heights 0.3..2.5 or on the boundary (ideal)
    xs = sorted(draw(st.lists(fl(-3.0, 3.0), min_size=n - 1, max_size=n - 1)))
    xs = [x + 0.35 * i for i, x in enumerate(xs)]
    ys = [draw(st.one_of(fl(0.3, 2.5), st.just(0.0))) for _ in range(n - 1)]
    if draw(st.booleans()):
        xs, ys = xs[::-1], ys[::-1]
    return dict(n=n, xs=xs, ys=ys, pos=draw(st.integers(0, n - 1)), fig=draw(FIG),
                scale=[draw(gen.scalars_pm()) for _ in range(n)], style=draw(STYLE))


def body_inf_vertex(case, ctx):
    n, pos = case["n"], case["pos"]
    fin = [np.array([x, y]) for x, y in zip(case["xs"], case["ys"])]
    verts = fin[:pos] + [None] + fin[pos:]
    rows = []
    for v, sc in zip(verts, case["scale"]):
        if v is None:
            r = np.array([1.0, 1.0, 0.0])          # Poincare (1, 0): the point at infinity
        else:
            k = D.from_model(v, "halfspace") if v[1] > 0 else None
            if k is None:
                pc = H.halfspace_to_poincare(np.array([v[0], 0.0]))
                pc = pc / np.linalg.norm(pc)
                r = np.array([1.0, pc[0], pc[1]])
            else:
                r = np.array([1.0, k[0], k[1]])
        rows.append(r * sc)
    poly = hyperbolic.Polygon(np.array(rows))
    ctx.label("n=%d" % n, "infinity-at=%d" % pos,
              "ideal-finite-vertices" if any(y == 0 for y in case["ys"]) else "")
    with hyp_drawing(case, "halfspace") as d:
        d.draw_polygon(poly, **case["style"])
        patches = [pp for pp in d.ax.patches]
        paths = [(np.array(pp.get_path().vertices, dtype=float), pp.get_path().codes)
                 for pp in patches]
        top = float(d.ylim[1])
        width = float(d.xlim[1] - d.xlim[0])
    ctx.check(len(paths) == 1, "one patch for the polygon", patches=len(paths))
    V, C = paths[0]
    ctx.check(C is not None and int(C[0]) == D.MOVETO and list(C).count(D.MOVETO) == 1,
              "one continuous outline (a single MOVETO)")
    # sample the outline piece by piece (own Bezier evaluation)
    pieces = []
    cur, i = V[0], 1
    Cl = [int(c) for c in C]
    while i < len(V):
        if Cl[i] == D.LINETO:
            t = np.linspace(0, 1, 17)[:, None]
            pieces.append(cur * (1 - t) + V[i] * t)
            cur = V[i]
            i += 1
        elif Cl[i] == D.CURVE4:
            pieces.append(D.bezier_points(np.array([cur, V[i], V[i + 1], V[i + 2]]), per=16))
            cur = V[i + 2]
            i += 3
        elif Cl[i] == D.CLOSEPOLY:
            i += 1
        else:
            ctx.fail("unexpected path code", code=Cl[i])
    # every visible sampled point lies on an edge of the polygon: a vertical ray above the
    # finite neighbour of the vertex at infinity, or the half-circle arc between two finite
    # vertices (centre on the real axis), between their abscissae
    # ideal vertices are located through a square root of a rounding error (1e-8 in the
    # disc), amplified by the Cayley map like 1 + x^2: positions are compared to 1e-6 (1 + x^2)
    xmax = max(abs(f[0]) for f in fin)
    rho = float(np.max(mink_ratio(np.array(rows)[None])))
    has_ideal = any(y == 0 for y in case["ys"])
    # positions in the half-plane are compared with the documented accuracy of the library's
    # half-plane circles (pos_tol: centre and radius come from ideal endpoints located to
    # sqrt(eps), extrapolated from the edge), in units of 1e-6
    slack = max(1.0, pos_tol("halfspace", xmax + 3.0, 0.35, 3.0 if has_ideal else None, rho)
                / 1e-6) * (1.0 + xmax * xmax)

    def dist_to_edges(pt):
        best = np.inf
        for a in range(n):
            va, vb = verts[a], verts[(a + 1) % n]
            if va is None or vb is None:
                f = vb if va is None else va
                dd = (abs(pt[0] - f[0]) if pt[1] >= f[1] - 1e-6 * slack else
                      np.hypot(pt[0] - f[0], pt[1] - f[1])) / slack
            else:
                cx = (vb @ vb - va @ va) / (2 * (vb[0] - va[0]))
                r = np.hypot(va[0] - cx, va[1])
                lo, hi = min(va[0], vb[0]), max(va[0], vb[0])
                if lo - 1e-6 * slack <= pt[0] <= hi + 1e-6 * slack:
                    # (cubic Bezier approximation of an arc of at most a quarter turn per
                    # cubic: D.bezier_arc_error(r, pi/2) = 3.8e-3 r)
                    dd = abs(np.hypot(pt[0] - cx, pt[1]) - r) / D.bezier_arc_error(
                        r, math.pi / 2) * 1e-6 / slack
                else:
                    dd = np.inf
            best = min(best, dd)
        return best
    worst = 0.0
    nvis = 0
    for pc in pieces:
        for pt in pc:
            if pt[1] >= top or not np.all(np.isfinite(pt)):
                continue        # the join of the two rays, off screen
            nvis += 1
            worst = max(worst, dist_to_edges(pt))
    ctx.check(nvis >= 8 * (n - 1), "the visible outline is sampled", visible=nvis)
    ctx.small("every visible point of the outline lies on an edge of the polygon", worst, 1e-6,
              top=top)
    # the finite vertices are visited, in order (cyclically, either direction of storage)
    knots = [pc[0] for pc in pieces] + [pieces[-1][-1]]
    order = []
    for f in fin:
        dk = [np.hypot(*(k_ - f)) for k_ in knots]
        ctx.small("a finite vertex is a knot of the outline", min(dk), 1e-6 * slack)
        order.append(int(np.argmin(dk)))
    cyc = fin[pos:] + fin[:pos]
    idx = [int(np.argmin([np.hypot(*(k_ - f)) for k_ in knots])) for f in cyc]
    rot_ok = any(sorted(idx) == idx[r:] + idx[:r] for r in range(len(idx)))
    ctx.check(rot_ok, "finite vertices are visited in the polygon's cyclic order", knots=idx)


def nt_polygon(labels):
    if "judged" not in labels:
        return False
    return (("n>=4" in labels and "reversed-edge" in labels) or "transform!=id" in labels
            or "straight-edge" in labels)


# ---------------------------------------------------------------------------
# law: Klein polygons (PolyCollection)
def check_poly_collection(ctx, coll, want, what):
    ctx.check(isinstance(coll, PolyCollection), what + ": artist is a PolyCollection",
              cls=type(coll).__name__)
    paths = coll.get_paths()
    ctx.check(len(paths) == len(want), what + ": one path per unit polygon",
              paths=len(paths), polygons=len(want))
    for k, pa in enumerate(paths):
        V = np.array(pa.vertices, dtype=float)
        n = len(want[k])
        ctx.check(len(V) == n + 1 and pa.codes is not None and int(pa.codes[0]) == D.MOVETO
                  and all(int(c) == D.LINETO for c in pa.codes[1:n])
                  and int(pa.codes[n]) == D.CLOSEPOLY,
                  what + ": closed polyline through n vertices", vertices=V,
                  codes=None if pa.codes is None else [int(c) for c in pa.codes])
        sc = 1.0 + float(np.max(np.abs(want[k])))
        ctx.close(what + ": vertices in order", V[:n], want[k], rtol=0, atol=1e-9 * sc)
        ctx.close(what + ": path closes at the first vertex", V[n], want[k][0], rtol=0,
                  atol=1e-9 * sc)


def body_klein_polygon(case, ctx):
    n, shape = case["n"], tuple(case["shape"])
    P = np.array(case["verts"], dtype=float).reshape(shape + (n, 2))
    M = D.run_program(case["prog"])
    Q = D.act_klein(P, M).reshape((-1, n, 2))
    poly = hyperbolic.Polygon(build_points(P, case))
    label_common(ctx, case, M)
    ctx.label("n=%d" % n, *["kind=" + k for k in case["kinds"]])
    with hyp_drawing(case, "klein", init_of(case["prog"])) as d:
        apply_program(d, case["prog"], hyperbolic.Isometry)
        d.draw_polygon(poly, **case["style"])
        colls = list(d.ax.collections)
        others = len(d.ax.patches) + len(d.ax.lines)
        mine = all(c.axes is d.ax for c in colls)
    ctx.check(len(colls) == 1 and others == 0 and mine,
              "a Klein polygon adds exactly one collection", collections=len(colls),
              others=others)
    check_poly_collection(ctx, colls[0], Q, "Klein polygon")


def nt_transform_or_composite(labels):
    return "transform!=id" in labels or any(l in labels for l in ("rank=1", "rank=2"))


# ---------------------------------------------------------------------------
# law: geodesics and segments
@st.composite
def model_point(draw, model):
    if model == "halfspace":
        return [draw(fl(-5.0, 5.0)), math.exp(draw(fl(math.log(0.05), math.log(7.0))))]
    r = draw(fl(0.0, 0.95))
    return (r * cis(draw(ANG))).tolist()


@st.composite
def segment_pair(draw, model, kind, thr=THRESH):
    """displayed endpoints (model coordinates) of a segment with |p-q| >= 1e-2"""
    if kind == "straight":
        return list(draw(straight_edge(model)))
    if kind == "threshold":
        return list(draw(threshold_edge(model, thr)))
    p = draw(model_point(model))
    a = draw(ANG)
    if model == "halfspace":
        L = draw(fl(0.02, 3.0)) * p[1]
        q = [p[0] + L * math.cos(a), p[1] + L * math.sin(a)]
        if q[1] < 0.3 * p[1]:
            q[1] = 2 * 0.3 * p[1] - q[1] + 0.02 * p[1]
    else:
        L = draw(fl(0.02, 1.5))
        q = [p[0] + L * math.cos(a), p[1] + L * math.sin(a)]
        nr = math.hypot(*q)
        if nr > 0.95:      # reflect back inside instead of rejecting
            q = [-x * 0.9 / nr for x in q]
            if math.hypot(q[0] - p[0], q[1] - p[1]) < 0.02:
                q = [0.5 * p[1] + 0.1, -0.5 * p[0]]
    return [p, q]


@st.composite
def ideal_pair(draw, model, kind, thr=THRESH):
    """displayed ideal endpoints as angles on the unit circle.  Half-plane: every endpoint
    keeps angular distance >= IDEAL_GAP from the point at infinity (angle 0), except for
    kind 'infinity' where one endpoint is exactly there (only used without a transform)."""
    two = 2 * math.pi
    if kind == "infinity":            # half-plane only: a vertical line
        a = draw(fl(IDEAL_GAP, two - IDEAL_GAP))
        return [0.0, a] if draw(st.booleans()) else [a, 0.0]
    if kind == "straight" and model != "halfspace":
        a = draw(fl(0.0, two))
        return [a, a + math.pi]       # diameter
    if kind == "threshold":
        d = math.exp(draw(fl(math.log(0.021), math.log(1.0))))
        R = thr * (1 + d) if draw(st.booleans()) else thr * (1 - min(d, 0.9))
        if model == "halfspace":
            R = min(R, 16.0)          # |x| <= 37: angular distance from infinity >= 0.054
            x0 = draw(fl(-5.0, 5.0))
            x1 = x0 + draw(st.sampled_from([-2.0, 2.0])) * R
            # ideal point with half-plane coordinate x = -cot(a/2)
            ang = [(2 * math.atan2(-1.0, x)) % two for x in (x0, x1)]
        else:
            phi = draw(ANG)
            beta = math.atan(R)       # endpoints of the orthogonal circle of radius R
            ang = [phi + beta, phi - beta]
        return ang if draw(st.booleans()) else ang[::-1]
    if model == "halfspace":
        a = draw(fl(IDEAL_GAP, two - 2 * IDEAL_GAP))
        b = a + draw(fl(0.05, two - IDEAL_GAP - a))
    else:
        a = draw(fl(0.0, two))
        b = a + draw(fl(0.05, two - 0.05))
    return [a, b] if draw(st.booleans()) else [b, a]


GEO_KINDS = ["generic", "generic", "generic", "straight", "threshold", "threshold"]


@st.composite
def geodesic_case(draw):
    model = draw(st.sampled_from(["poincare", "halfspace", "klein"]))
    obj = draw(st.sampled_from(["segment", "segment", "geodesic"]))
    shape = draw(SHAPES)
    count = gen.prod(shape)
    exact_inf = draw(st.integers(0, 5)) == 0
    if exact_inf:       # vertical geodesics ending exactly at the point at infinity
        model, obj, prog = "halfspace", "geodesic", []
    else:
        prog = draw(program(iso_matrix()))
    thr = draw(st.sampled_from([None, None, None, 1.5, 10.0]))
    if obj == "geodesic" and model == "halfspace" and thr is None and not exact_inf \
            and draw(st.booleans()):
        thr = 10.0      # the default threshold is out of reach of well-conditioned endpoints
    M = D.run_program(prog)
    Minv = D.iso_inverse(M)
    gm = "poincare" if model == "klein" else model
    items, kinds = [], []
    for _ in range(count):
        kind = draw(st.sampled_from(GEO_KINDS))
        if obj == "geodesic" and gm == "halfspace":
            if exact_inf and draw(st.booleans()):
                kind = "infinity"
            elif kind == "straight" or (kind == "threshold" and thr is None):
                kind = "generic"
        kinds.append(kind)
        if obj == "segment":
            pq = np.array(draw(segment_pair(gm, kind, THRESH if thr is None else thr)))
            items.append(pull_back(D.from_model(pq, gm), M).tolist())
        else:
            ang = draw(ideal_pair(gm, kind, THRESH if thr is None else thr))
            U = np.array([[1.0, math.cos(t), math.sin(t)] for t in ang]) @ Minv
            items.append((U / U[:, :1]).tolist())
    case = dict(model=model, obj=obj, shape=shape, prog=prog, items=items, kinds=kinds,
                fig=draw(FIG), style=draw(st.sampled_from([{}, {}, {"color": "green"}])),
                thr=thr)
    if obj == "segment":
        case.update(draw(source_spec(count * 2)))
    else:
        case["src"] = "projective"
        case["scales"] = gen.scale_lists(draw, count * 2)[0]
    return case


def either_order(V, want):
    """worst coordinate difference between the two-point piece V and `want`, in the better
    of the two orders (a stand-alone straight piece has no direction)"""
    V = np.asarray(V, dtype=float)
    if V.shape != want.shape:
        return np.inf
    return min(float(np.max(np.abs(V - want))), float(np.max(np.abs(V[::-1] - want))))


def expected_arc(model, c, r, p, q):
    """(theta_start, extent) in radians of the counter-clockwise arc from p to q or q to p
    that is the geodesic between them"""
    if model == "poincare":
        fr = D.ArcFrame(c, r, p, q)
        return fr.ccw_first, 2 * fr.h
    a = math.atan2(max(p[1], 0.0), p[0] - c[0])
    b = math.atan2(max(q[1], 0.0), q[0] - c[0])
    return min(a, b), abs(a - b)


def body_geodesic(case, ctx):
    model, shape, obj = case["model"], tuple(case["shape"]), case["obj"]
    M = D.run_program(case["prog"])
    thr = THRESH if case["thr"] is None else float(case["thr"])
    normM = float(np.linalg.norm(M, 2))
    label_common(ctx, case, M)
    ctx.label("obj=" + obj, "thr=%s" % case["thr"], *["kind=" + k for k in case["kinds"]])
    if obj == "segment":
        P = np.array(case["items"], dtype=float).reshape(shape + (2, 2))
        lib = hyperbolic.Segment(build_points(P, case))
        QK = D.act_klein(P, M).reshape((-1, 2, 2))
        ends = D.to_model(QK, model)
    else:
        X = np.array(case["items"], dtype=float).reshape(shape + (2, 3))
        s = np.array(case["scales"], dtype=float).reshape(shape + (2, 1))
        lib = hyperbolic.Geodesic((X * s)[..., 0, :].copy(), (X * s)[..., 1, :].copy())
        Y = (X @ M).reshape((-1, 2, 3))
        U = Y[..., 1:] / Y[..., :1]
        U = U / np.linalg.norm(U, axis=-1, keepdims=True)
        ends = D.ideal_to_model(U, model)
    ctx.check(lib.shape == shape, "composite shape", got=lib.shape, want=shape)
    # conditioning only: Minkowski norms of the representatives handed to the library
    rhos = mink_ratio(np.array(lib.proj_data, dtype=float).reshape((-1, 2, 3)))[:, 0]
    kw = dict(case["style"])
    if case["thr"] is not None:
        kw["radius_threshold"] = thr
    with hyp_drawing(case, model, init_of(case["prog"])) as d:
        apply_program(d, case["prog"], hyperbolic.Isometry)
        d.draw_geodesic(lib, **kw)
        patches = []
        for p in d.ax.patches:
            if isinstance(p, Arc):
                patches.append(("arc", np.array(p.center, dtype=float), float(p.width),
                                float(p.height), float(p.theta1), float(p.theta2),
                                float(p.angle)))
            else:
                pa = p.get_path()
                patches.append(("path", type(p), np.array(pa.vertices, float),
                                None if pa.codes is None else [int(c) for c in pa.codes]))
        colls = [(type(c), [np.array(s) for s in c.get_segments()])
                 for c in d.ax.collections if isinstance(c, LineCollection)]
        ncoll = len(d.ax.collections)
        nlines = len(d.ax.lines)
        up_inf = d.ylim[1] + OFF * (d.ylim[1] - d.ylim[0])
    count = len(ends)
    if model == "klein":
        ctx.check(ncoll == 1 and len(colls) == 1 and not patches and nlines == 0,
                  "Klein geodesics add one LineCollection", collections=ncoll,
                  patches=len(patches))
        segs = colls[0][1]
        ctx.check(len(segs) == count, "one line per unit geodesic", got=len(segs), want=count)
        for k in range(count):
            ctx.close("Klein line joins the (ideal) endpoints", segs[k], ends[k], rtol=0,
                      atol=1e-9 * normM ** 2)
        return
    ctx.check(len(patches) == count and ncoll == 0 and nlines == 0,
              "one patch per unit geodesic", patches=len(patches), want=count)
    for k in range(count):
        p, q = ends[k]
        if obj == "segment":
            c, r = D.geodesic_circle(p, q, model)
        else:
            c, r = D.geodesic_circle_ideal(U[k][0], U[k][1], model)
        pa = patches[k]
        if r < thr * (1 - BAND):
            ctx.check(pa[0] == "arc", "geodesic below the radius threshold is an Arc", k=k,
                      radius=r, thr=thr)
        elif r > thr * (1 + BAND):
            ctx.check(pa[0] == "path", "geodesic above the radius threshold is drawn straight",
                      k=k, radius=r, thr=thr)
            ctx.label("straight")
        else:
            ctx.label("radius-in-band")
        ideal_norm = normM if obj == "geodesic" else None
        length = float(np.linalg.norm(np.asarray(p) - np.asarray(q)))
        rho = float(rhos[k]) if obj == "segment" else 1.0
        if pa[0] == "arc":
            ctx.label("arc")
            _, ctr, w, h, t1, t2, ang = pa
            tol = pos_tol(model, r + float(np.max(np.abs(c))), length, ideal_norm, rho)
            ctx.check(abs(w - h) <= 1e-12 * (1 + abs(w)) and ang == 0.0,
                      "Arc is an unrotated circle (width = height)", width=w, height=h,
                      angle=ang)
            # (1) what is drawn: the arc of radius width/2 about Arc.center from theta1
            #     counter-clockwise to theta2 is the geodesic between the endpoints
            a0, ext = expected_arc(model, c, r, p, q)
            t1r = math.radians(t1)
            got_ext = math.radians((t2 - t1) % 360.0)
            E1 = ctr + 0.5 * w * cis(t1r)
            E2 = ctr + 0.5 * w * cis(t1r + got_ext)
            ctx.small("drawn arc starts (theta1) at the counter-clockwise first endpoint",
                      np.abs(E1 - (c + r * cis(a0))) / tol, 1.0, k=k, theta1=t1,
                      want=math.degrees(a0), got=E1)
            ctx.small("drawn arc ends (theta2) at the other endpoint",
                      np.abs(E2 - (c + r * cis(a0 + ext))) / tol, 1.0, k=k, theta1=t1,
                      theta2=t2, want=math.degrees(a0 + ext), got=E2)
            th = t1r + got_ext * np.linspace(0.0, 1.0, 9)
            S = ctr + 0.5 * w * np.stack([np.cos(th), np.sin(th)], axis=-1)
            ctx.small("drawn arc lies on the geodesic circle",
                      (np.hypot(S[:, 0] - c[0], S[:, 1] - c[1]) - r) / tol, 1.0, k=k,
                      centre=c, radius=r, got_centre=ctr, got_radius=0.5 * w)
            ctx.small("Arc extent theta2-theta1 is the extent of the geodesic",
                      (got_ext - ext) / (2 * tol / r + 1e-9), 1.0, k=k, theta1=t1, theta2=t2,
                      want=math.degrees(ext))
            ctx.check(D.in_region(S, "poincare" if model == "poincare" else "halfspace", tol),
                      "drawn arc lies in the model region", k=k)
            # (2) centre and radius themselves, up to their conditioning r / length
            ctol = 2 * tol * (1 + r / length)
            ctx.small("Arc centre is the centre of the geodesic circle", np.abs(ctr - c) / ctol,
                      1.0, k=k, got=ctr, want=c)
            ctx.small("Arc width = 2 r", (w - 2 * r) / (2 * ctol), 1.0, k=k, width=w, radius=r)
        else:
            ctx.label("straight-path")
            _, cls, V, codes = pa
            ctx.check(cls is PathPatch and codes == [D.MOVETO, D.LINETO] and len(V) == 2,
                      "straight geodesic is a two-point PathPatch", codes=codes)
            if model == "poincare":
                tol = pos_tol(model, 1.0, None, ideal_norm)
                ctx.small("straight Poincare geodesic is the chord of its endpoints",
                          either_order(V, np.array([p, q])) / tol, 1.0, k=k, got=V,
                          want=[p, q], radius=r)
                continue
            # half-plane: vertical line through the on-screen endpoint (deliberate)
            lo, hi = _screen_x()
            on = [bool(np.isfinite(e[0]) and lo < e[0] < hi) for e in (p, q)]
            if not on[0] and not on[1]:
                ctx.label("excluded:offscreen-vertical")
                continue
            a, b = (p, q) if on[0] else (q, p)
            b_on = on[1] if on[0] else on[0]
            tol = pos_tol(model, abs(a[0]) + abs(a[1]), None, ideal_norm)
            ctx.small("vertical substitute starts at the visible endpoint",
                      np.abs(V[0] - a) / tol, 1.0, k=k, got=V, want=a)
            ctx.small("vertical substitute is vertical", abs(V[1][0] - a[0]) / tol, 1.0, k=k,
                      got=V)
            if b_on:
                ctx.small("vertical substitute ends at the height of the other endpoint",
                          abs(V[1][1] - b[1]) / pos_tol(model, abs(b[0]) + abs(b[1]), None,
                                                        ideal_norm), 1.0, k=k, got=V, want=b)
                ctx.label("vertical-gap" + ("<1e-1" if abs(a[0] - b[0]) < 0.1 else ">=1e-1"))
            else:
                ctx.check(V[1][1] >= _WIN["y"][1], "vertical substitute leaves the view upwards",
                          k=k, got=V, up=up_inf)
                ctx.label("to-infinity")


# ---------------------------------------------------------------------------
# law: points
@st.composite
def points_case(draw, decoy=False):
    model = draw(st.sampled_from(["poincare", "halfspace", "klein"]))
    shape = draw(SHAPES)
    count = gen.prod(shape)
    prog = draw(program(iso_matrix()))
    M = D.run_program(prog)
    gm = "poincare" if model == "klein" else model
    pts = [draw(model_point(gm)) for _ in range(count)]
    P = pull_back(D.from_model(np.array(pts).reshape((count, 2)), gm), M).tolist() \
        if count else []
    fig = dict(draw(FIG))
    if decoy:
        fig["decoy"] = True
    case = dict(model=model, shape=shape, prog=prog, pts=P, fig=fig,
                style=draw(st.sampled_from([{}, {}, {"color": "blue"}, {"marker": "x"}])))
    case.update(draw(source_spec(count)))
    return case


def _line_data(ax):
    return [np.array(l.get_xydata(), dtype=float) for l in ax.lines]


def body_points(case, ctx):
    model, shape = case["model"], tuple(case["shape"])
    P = np.array(case["pts"], dtype=float).reshape(shape + (2,))
    M = D.run_program(case["prog"])
    want = D.to_model(D.act_klein(P, M), model).reshape((-1, 2))
    pt = build_points(P, case)
    label_common(ctx, case, M)
    prog = case["prog"]
    # when the program ends with a transform operation, the same point object is also drawn
    # before that last operation: two artists, each at its own transform
    twice = bool(prog) and prog[-1][0] != "init" and len(repr(case["pts"])) % 2 == 0
    with hyp_drawing(case, model, init_of(prog)) as d:
        if twice:
            apply_program(d, prog[:-1], hyperbolic.Isometry)
            d.draw_point(pt, **case["style"])
            apply_program(d, prog[-1:], hyperbolic.Isometry)
        else:
            apply_program(d, prog, hyperbolic.Isometry)
        d.draw_point(pt, **case["style"])
        lines = _line_data(d.ax)
        others = len(d.ax.patches) + len(d.ax.collections)
        decoy = d._vt.get("decoy_ax")
        stray = n_artists(decoy) if decoy is not None else 0
    if twice:
        ctx.label("same-object-drawn-before-and-after-a-transform-change")
        ctx.check(len(lines) == 2, "two draw_point calls add two Line2D artists",
                  lines=len(lines))
        want1 = D.to_model(D.act_klein(P, D.run_program(prog[:-1])), model).reshape((-1, 2))
        sc1 = 1.0 + np.max(np.abs(want1), axis=-1, keepdims=True, initial=0.0)
        ok1 = np.all(np.isfinite(want1), axis=-1)
        ctx.small("the first drawing of the object used the transform of its time",
                  np.where(ok1[:, None], np.abs(lines[0] - want1) / (1e-9 * sc1 ** 2), 0.0), 1.0)
        lines = lines[1:]
    if decoy is not None:
        ctx.label("second-figure-open")
        ctx.check(stray == 0, "draw_point adds nothing to axes other than the drawing's",
                  stray_artists=stray, in_drawing=len(lines))
    ctx.check(len(lines) == 1 and others == 0, "draw_point adds one Line2D to drawing.ax",
              lines=len(lines), others=others)
    sc = 1.0 + np.max(np.abs(want), axis=-1, keepdims=True, initial=0.0)
    ctx.check(lines[0].shape == want.shape, "one marker per unit point", got=lines[0].shape,
              want=want.shape)
    ctx.small("markers sit at the model coordinates of transform @ point",
              np.abs(lines[0] - want) / (1e-9 * sc ** 2), 1.0,
              got=lines[0], want=want)


# ---------------------------------------------------------------------------
# law: projective drawings (all three charts of RP^2)
def proj_matrix():
    return gen.wellcond_matrix(3, maxfactor=3.0)


@st.composite
def projective_case(draw, decoy=False, methods=("point", "segment", "polygon", "curve")):
    chart = draw(st.integers(0, 2))
    method = draw(st.sampled_from(list(methods)))
    shape = draw(SHAPES) if method != "curve" else [draw(st.integers(2, 6))]
    count = gen.prod(shape)
    n = {"point": 1, "curve": 1, "segment": 2}.get(method) or draw(st.integers(3, 7))
    prog = draw(program(proj_matrix()))
    M = D.run_program(prog)
    Minv = np.linalg.inv(M)
    aff = [[[draw(fl(-5.0, 5.0)), draw(fl(-5.0, 5.0))] for _ in range(n)]
           for _ in range(count)]
    assume_affine = draw(st.booleans())
    aff = np.array(aff, dtype=float).reshape((count, n, 2))
    common = draw(st.sampled_from(gen.COMMON_FACTORS))
    scales = np.array([[common * draw(gen.scalars_pm()) for _ in range(n)]
                       for _ in range(count)], dtype=float).reshape((count, n, 1))
    if method == "polygon" and not assume_affine:
        # draw_polygon(assume_affine=False) sends polygons whose FIRST homogeneous coordinate
        # keeps one sign through the ordinary route: make that hold by construction (first
        # affine coordinate positive when the chart is not chart 0, one sign of scale per
        # polygon)
        if chart != 0:
            aff[..., 0] = np.abs(aff[..., 0]) + 0.2
        scales = np.abs(scales) * np.sign(scales[:, :1, :])
    X = D.chart_lift(aff, chart)
    Pin = (X @ Minv)
    Pin = Pin / np.max(np.abs(Pin), axis=-1, keepdims=True) * scales
    fig = dict(draw(FIG))
    if decoy:
        fig["decoy"] = True
    return dict(chart=chart, method=method, shape=shape, n=n, prog=prog, X=Pin.tolist(),
                fig=fig, assume_affine=assume_affine,
                ctor=draw(st.sampled_from(["array", "points", "pair"])))


def body_projective(case, ctx):
    chart, method, shape, n = case["chart"], case["method"], tuple(case["shape"]), case["n"]
    X = np.array(case["X"], dtype=float).reshape(shape + (n, 3))
    M = D.run_program(case["prog"])
    Y = (X @ M).reshape((-1, n, 3))
    cs = np.abs(Y[..., chart]) / np.max(np.abs(Y), axis=-1)
    want = D.chart_coords(Y, chart)
    tol = 1e-9 * (1.0 + np.max(np.abs(want), initial=0.0)) * D_cond(M) / max(float(np.min(
        cs, initial=1.0)), 1e-6)
    ctx.label("chart=%d" % chart, "method=" + method, "rank=%d" % len(shape),
              "prog=" + ("+".join(op for op, _ in case["prog"]) or "none"))
    if not is_identity(M):
        ctx.label("transform!=id")
    init = init_of(case["prog"])
    kw = dict(chart_index=chart)
    if init is not None:
        kw["transform"] = projective.Transformation(np.array(init, dtype=float))
    with make_drawing(drawtools.ProjectiveDrawing, case["fig"], **kw) as d:
        apply_program(d, case["prog"], projective.Transformation)
        if method == "point":
            d.draw_point(projective.Point(X[..., 0, :].copy()))
        elif method == "curve":
            d.draw_curve(projective.Point(X[..., 0, :].copy()))
        elif method == "segment":
            if case["ctor"] == "pair":
                seg = projective.PointPair(X[..., 0, :].copy(), X[..., 1, :].copy())
            elif case["ctor"] == "points":
                seg = projective.PointPair(projective.Point(X[..., 0, :].copy()),
                                           projective.Point(X[..., 1, :].copy()))
            else:
                seg = projective.PointPair(X.copy())
            d.draw_proj_segment(seg)
        else:
            poly = projective.Polygon(X.copy() if case["ctor"] != "points"
                                      else projective.Point(X.copy()))
            # assume_affine=False: polygons whose first homogeneous coordinate keeps one sign
            # are drawn through the same PolyCollection route, in the DRAWING's chart (any
            # chart index; the sign test itself always looks at coordinate 0)
            if not case["assume_affine"] and \
                    np.all(Y[..., 0] * np.sign(Y[..., :1, 0]) > 0):
                ctx.label("assume_affine=False")
                d.draw_polygon(poly, assume_affine=False)
            else:
                d.draw_polygon(poly)
        lines = _line_data(d.ax)
        colls = list(d.ax.collections)
        segs = [[np.array(s) for s in c.get_segments()] if isinstance(c, LineCollection)
                else None for c in colls]
        npatches = len(d.ax.patches)
        decoy = d._vt.get("decoy_ax")
        stray = n_artists(decoy) if decoy is not None else 0
        mine = all(c.axes is d.ax for c in colls)
    if decoy is not None:
        ctx.label("second-figure-open")
        ctx.check(stray == 0, "draw_%s adds nothing to axes other than the drawing's" % method,
                  stray_artists=stray)
    if method in ("point", "curve"):
        ctx.check(len(lines) == 1 and not colls and npatches == 0,
                  "draw_%s adds one Line2D to drawing.ax" % method, lines=len(lines),
                  collections=len(colls))
        ctx.close("Line2D data = affine chart coordinates of transform @ points", lines[0],
                  want[:, 0, :], rtol=0, atol=tol)
    elif method == "segment":
        ctx.check(len(colls) == 1 and segs[0] is not None and not lines and npatches == 0
                  and mine, "draw_proj_segment adds one LineCollection", collections=len(colls))
        ctx.check(len(segs[0]) == len(want), "one line per unit segment", got=len(segs[0]),
                  want=len(want))
        for k in range(len(want)):
            ctx.close("segment endpoints = chart coordinates", segs[0][k], want[k], rtol=0,
                      atol=tol)
    else:
        ctx.check(len(colls) == 1 and not lines and npatches == 0 and mine,
                  "draw_polygon adds one PolyCollection", collections=len(colls),
                  patches=npatches)
        coll = colls[0]
        ctx.check(isinstance(coll, PolyCollection), "artist is a PolyCollection",
                  cls=type(coll).__name__)
        paths = coll.get_paths()
        ctx.check(len(paths) == len(want), "one path per unit polygon", got=len(paths),
                  want=len(want))
        for k, pa in enumerate(paths):
            V = np.array(pa.vertices, dtype=float)
            ctx.check(len(V) == n + 1 and int(pa.codes[-1]) == D.CLOSEPOLY,
                      "closed polyline through n vertices", got=len(V), n=n)
            ctx.close("polygon vertices = chart coordinates in order", V[:n], want[k], rtol=0,
                      atol=tol)
            ctx.close("polygon closes at the first vertex", V[n], want[k][0], rtol=0, atol=tol)


# ---------------------------------------------------------------------------
# law: projective polygons that cross the line at infinity of the standard chart
@st.composite
def nonaffine_case(draw):
    count = draw(st.integers(1, 3))
    prog = draw(program(proj_matrix()))
    M = D.run_program(prog)
    Minv = np.linalg.inv(M)
    polys = []
    for _ in range(count):
        n = draw(st.integers(3, 7))
        crossing = draw(st.sampled_from([True, True, False]))
        # displayed vertices: affine coordinates in the window, sign of the homogeneous
        # coordinate 0 in two cyclic runs (+ ... + - ... -) for a polygon that crosses infinity
        # (distinct by construction: radii 1..4 at angles spread around the circle, so no
        # edge is degenerate and every far point has a direction)
        th0 = draw(fl(0.0, 2 * math.pi))
        cx0, cy0 = draw(fl(-1.0, 1.0)), draw(fl(-1.0, 1.0))
        aff = np.array([[cx0 + r * math.cos(t), cy0 + r * math.sin(t)] for r, t in (
            (draw(fl(1.0, 4.0)), th0 + 2 * math.pi * (i + draw(fl(-0.3, 0.3))) / n)
            for i in range(n))])
        mag = np.array([draw(fl(0.3, 3.0)) for _ in range(n)])
        if crossing:
            a = draw(st.integers(1, n - 1))
            rot = draw(st.integers(0, n - 1))
            sg = np.roll(np.array([1.0] * a + [-1.0] * (n - a)), rot)
            if draw(st.booleans()):
                sg = -sg
        else:
            sg = np.full(n, draw(st.sampled_from([1.0, -1.0])))
        Y = np.concatenate([np.ones((n, 1)), aff], axis=-1) * (sg * mag)[:, None]
        polys.append(dict(n=n, crossing=crossing, X=(Y @ Minv).tolist()))
    # all polygons of a composite have the same number of vertices
    n0 = polys[0]["n"]
    polys = [p_ for p_ in polys if p_["n"] == n0]
    fig = dict(draw(FIG))
    return dict(prog=prog, polys=polys, fig=fig, single=len(polys) == 1 and draw(st.booleans()))


def body_nonaffine(case, ctx):
    M = D.run_program(case["prog"])
    polys = case["polys"]
    n = polys[0]["n"]
    X = np.array([p_["X"] for p_ in polys], dtype=float)
    Y = X @ M
    ncross = sum(1 for p_ in polys if p_["crossing"])
    ctx.label("crossing=%d" % ncross, "affine=%d" % (len(polys) - ncross), "n=%d" % n)
    if not is_identity(M):
        ctx.label("transform!=id")
    # harness: the displayed sign pattern really is what the generator intended
    for k, p_ in enumerate(polys):
        sg = np.sign(Y[k][:, 0])
        runs = int(np.sum(sg != np.roll(sg, 1)))
        if runs != (2 if p_["crossing"] else 0) or np.min(np.abs(Y[k][:, 0])) < 1e-6 * np.max(
                np.abs(Y[k])):
            ctx.label("skipped:ill-conditioned-sign-pattern")
            return
    init = init_of(case["prog"])
    kw = dict(chart_index=0)
    if init is not None:
        kw["transform"] = projective.Transformation(np.array(init, dtype=float))
    with make_drawing(drawtools.ProjectiveDrawing, case["fig"], **kw) as d:
        apply_program(d, case["prog"], projective.Transformation)
        arg = X[0].copy() if case["single"] else X.copy()
        d.draw_polygon(projective.Polygon(arg), assume_affine=False)
        patches = [np.array(p_.get_xy(), dtype=float) for p_ in d.ax.patches]
        colls = list(d.ax.collections)
        paths = [np.array(pa.vertices, dtype=float) for c in colls for pa in c.get_paths()]
        diam = float(d.view_diam())
        ctr = np.asarray(d.view_ctr(), dtype=float)
    cond = D_cond(M)
    aff = Y[..., 1:] / Y[..., :1]
    scale = 1.0 + float(np.max(np.abs(aff)))
    tol = 1e-9 * scale * cond / max(float(np.min(np.abs(Y[..., 0]) / np.max(np.abs(Y), axis=-1))),
                                    1e-6)
    ctx.check(len(patches) == 2 * ncross, "two patches per polygon that crosses infinity",
              patches=len(patches), crossing=ncross)
    ctx.check(len(paths) == len(polys) - ncross, "one PolyCollection path per polygon inside "
              "the chart", paths=len(paths), affine=len(polys) - ncross)
    # affine ones: as in the ordinary route, in order
    ai = 0
    for k, p_ in enumerate(polys):
        if p_["crossing"]:
            continue
        V = paths[ai]
        ai += 1
        ctx.close("polygon inside the chart: vertices = chart coordinates in order", V[:n],
                  aff[k], rtol=0, atol=tol)
    # crossing ones: each patch is a run of equal-sign vertices (chart coordinates, in cyclic
    # order) closed by two far points on the rays in which the two crossing edges leave the
    # window - on the line of the edge, beyond the finite vertex, outside the viewing circle
    pi = 0
    for k, p_ in enumerate(polys):
        if not p_["crossing"]:
            continue
        sg = np.sign(Y[k][:, 0])
        pieces = patches[pi:pi + 2]
        pi += 2
        seen = []
        for V in pieces:
            ctx.check(np.allclose(V[0], V[-1], atol=tol), "patch is closed")
            V = V[:-1]
            ctx.check(len(V) >= 3, "patch has a run and two far points", got=len(V))
            run_len = len(V) - 2
            # locate the run: the cyclic window of equal-sign vertices matching V[:run_len]
            found = None
            for start in range(n):
                idx = [(start + t) % n for t in range(run_len)]
                if len(set(sg[idx])) == 1 and sg[(start - 1) % n] != sg[start] and \
                        sg[(start + run_len) % n] != sg[start] and \
                        np.allclose(V[:run_len], aff[k][idx], atol=tol):
                    found = idx
            ctx.check(found is not None, "patch starts with a maximal run of equal-sign vertices "
                      "at their chart coordinates, in cyclic order", patch=V, chart=aff[k],
                      signs=sg)
            seen.append(tuple(found))
            last, first = found[-1], found[0]
            nxt, prv = (last + 1) % n, (first - 1) % n
            for (dpt, v, w, what) in ((V[run_len], aff[k][last], aff[k][nxt], "after the run"),
                                      (V[run_len + 1], aff[k][first], aff[k][prv],
                                       "before the run")):
                e = v - w                       # the crossing edge leaves v away from w
                ne = np.linalg.norm(e)
                cr = abs(e[0] * (dpt - v)[1] - e[1] * (dpt - v)[0]) / ne
                ctx.small("far point %s lies on the line of the crossing edge" % what, cr,
                          1e-7 * scale * cond * (1 + diam))
                ctx.check(np.dot(dpt - v, e) > 0, "far point %s lies beyond the finite vertex, "
                          "away from the other endpoint" % what, far=dpt, v=v, w=w)
                ctx.check(np.linalg.norm(dpt - ctr) >= diam * (1 - 1e-9), "far point %s is "
                          "outside the viewing window" % what, far=dpt, diam=diam)
        ctx.check(len(set(seen)) == 2 and sorted(i for r in seen for i in r) == list(range(n)),
                  "the two patches share out all vertices of the polygon", runs=seen)


def D_cond(M):
    M = np.asarray(M, float)
    return float(np.linalg.norm(M, 2) * np.linalg.norm(np.linalg.inv(M), 2))


# ---------------------------------------------------------------------------
# law: horospheres and horospherical arcs
@st.composite
def horo_case(draw):
    model = draw(st.sampled_from(ARC_MODELS))
    what = draw(st.sampled_from(["sphere", "sphere", "arc"]))
    shape = draw(SHAPES)
    count = gen.prod(shape)
    exact_inf = draw(st.integers(0, 4)) == 0
    if exact_inf:       # centres exactly at the half-plane point at infinity: no transform
        model, prog = "halfspace", []
    else:
        prog = draw(program(iso_matrix()))
    M = D.run_program(prog)
    Minv = D.iso_inverse(M)
    items, kinds = [], []
    for _ in range(count):
        at_inf = exact_inf and draw(st.booleans())
        t = 0.0 if at_inf else draw(fl(IDEAL_GAP, 2 * math.pi - IDEAL_GAP))
        kinds.append("centre-at-infinity" if at_inf else "generic")
        u = cis(t)
        rho = draw(fl(0.05, 0.9))          # Poincare radius of the displayed horocircle
        c = (1 - rho) * u
        # two points on it, at angle >= 0.3 from the tangency point and >= 0.1 apart
        g1 = draw(fl(0.3, 2 * math.pi - 0.5))
        g2 = g1 + draw(fl(0.1, 2 * math.pi - 0.4 - g1)) if g1 < 2 * math.pi - 0.5 else g1 + 0.1
        pts = [c + rho * cis(t + g) for g in (g1, g2)]
        if draw(st.booleans()):
            pts = pts[::-1]
        U = np.array([1.0, u[0], u[1]]) @ Minv
        PK = pull_back(D.from_model(np.array(pts), "poincare"), M)
        items.append(dict(u=(U / U[0]).tolist(), p=PK.tolist()))
    return dict(model=model, what=what, shape=shape, prog=prog, items=items, kinds=kinds,
                fig=draw(FIG), su=gen.scale_lists(draw, count)[0],
                src=draw(st.sampled_from(["klein", "poincare", "projective"])),
                scales=gen.scale_lists(draw, 2 * count)[0])


def body_horo(case, ctx):
    model, shape, what = case["model"], tuple(case["shape"]), case["what"]
    M = D.run_program(case["prog"])
    normM = float(np.linalg.norm(M, 2))
    label_common(ctx, case, M)
    ctx.label("what=" + what, *["kind=" + k for k in case["kinds"]])
    count = len(case["items"])
    Uin = np.array([it["u"] for it in case["items"]], dtype=float).reshape(shape + (3,))
    PK = np.array([it["p"] for it in case["items"]], dtype=float).reshape(shape + (2, 2))
    su = np.array(case["su"], dtype=float).reshape(shape + (1,))
    centre = hyperbolic.IdealPoint(Uin * su)
    p0 = build_points(PK[..., 0, :], dict(src=case["src"], scales=case["scales"][:count]))
    p1 = build_points(PK[..., 1, :], dict(src=case["src"], scales=case["scales"][count:]))
    if what == "sphere":
        lib = hyperbolic.Horosphere(centre, p0)
    else:
        lib = hyperbolic.HorosphereArc(centre, p0, p1)
    ctx.check(lib.shape == shape, "composite shape", got=lib.shape, want=shape)
    Y = (Uin @ M).reshape((-1, 3))
    U = Y[:, 1:] / Y[:, :1]
    U = U / np.linalg.norm(U, axis=-1, keepdims=True)
    Q = D.to_model(D.act_klein(PK, M), model).reshape((-1, 2, 2))
    with hyp_drawing(case, model, init_of(case["prog"])) as d:
        apply_program(d, case["prog"], hyperbolic.Isometry)
        if what == "sphere":
            d.draw_horosphere(lib)
        else:
            d.draw_horoarc(lib)
        ell = [(np.array(c.get_offsets(), dtype=float), np.array(c.get_widths(), float),
                np.array(c.get_heights(), float), np.array(c.get_angles(), float),
                c.get_offset_transform() == d.ax.transData)
               for c in d.ax.collections if isinstance(c, EllipseCollection)]
        ncoll = len(d.ax.collections)
        patches = []
        for p in d.ax.patches:
            if isinstance(p, Arc):
                patches.append(("arc", np.array(p.center, float), float(p.width),
                                float(p.height), float(p.theta1), float(p.theta2),
                                float(p.angle)))
            elif isinstance(p, Rectangle):
                patches.append(("rect", np.array(p.get_xy(), float), float(p.get_width()),
                                float(p.get_height())))
            else:
                pa = p.get_path()
                patches.append(("path", np.array(pa.vertices, float),
                                None if pa.codes is None else [int(c) for c in pa.codes]))
        nlines = len(d.ax.lines)
        view = (d.xlim, d.ylim)
    exp = []
    for k in range(count):
        c, r = D.horocircle(U[k], Q[k][0], model)
        if c is not None and r > 1e6:
            c = None
            r = float(Q[k][0][1])
        exp.append((c, r))
    ctx.check(nlines == 0, "no Line2D is added", lines=nlines)
    if what == "sphere":
        circ = [k for k in range(count) if exp[k][0] is not None
                and exp[k][1] < THRESH * (1 - BAND)]
        flat = [k for k in range(count) if exp[k][0] is None]
        skipped = count - len(circ) - len(flat)
        if skipped:
            ctx.label("excluded:big-horocircle")
            return
        ctx.check(ncoll == len(ell) == (1 if circ else 0),
                  "horocircles are one EllipseCollection", collections=ncoll)
        if circ:
            off, w, h, ang, data_units = ell[0]
            ctx.check(len(off) == len(circ) and len(w) == len(circ) and len(h) == len(circ),
                      "one ellipse per horosphere with a finite centre", got=len(off),
                      want=len(circ))
            ctx.check(data_units and np.all(ang == 0), "ellipses are unrotated, in data units")
            for j, k in enumerate(circ):
                c, r = exp[k]
                tol = horo_tol(model, r + float(np.max(np.abs(c))), normM)
                ctx.small("ellipse offset = centre of the horocircle", np.abs(off[j] - c) / tol,
                          1.0, k=k, got=off[j], want=c)
                ctx.small("ellipse width = height = 2 r",
                          np.array([w[j] - 2 * r, h[j] - 2 * r]) / (2 * tol), 1.0, k=k,
                          width=w[j], height=h[j], radius=r)
                # independent characterisation: the drawn circle is a level set of the
                # Busemann function of the centre, through the reference point
                th = np.linspace(0, 2 * math.pi, 24, endpoint=False)
                S = off[j] + 0.5 * w[j] * np.stack([np.cos(th), np.sin(th)], axis=-1)
                tang = D.ideal_to_model(U[k], model)
                far = np.linalg.norm(S - tang, axis=-1) > 0.2 * r
                S = S[far]
                b = D.busemann(U[k], S, model)
                b0 = D.busemann(U[k], Q[k][0], model)
                # sensitivity of the Busemann function to a displacement of size tol
                room = (1 - np.sum(S * S, axis=-1)) if model == "poincare" else S[:, 1]
                btol = 4 * tol * (1.0 / np.linalg.norm(S - tang, axis=-1)
                                  + 1.0 / np.maximum(room, 1e-300)) + 1e-9
                ctx.small("drawn circle is a horocycle through the reference point",
                          (b - b0) / btol, 1.0, k=k)
                ctx.label("circle")
        rects = [p for p in patches if p[0] == "rect"]
        ctx.check(len(rects) == len(flat) and len(patches) == len(flat),
                  "one rectangle per horosphere centred at infinity", rects=len(rects),
                  want=len(flat))
        for j, k in enumerate(flat):
            _, xy, w, h = rects[j]
            y = exp[k][1]
            ctx.small("rectangle's lower edge is the horizontal horocycle",
                      (xy[1] - y) / (1e-9 * (1 + y)), 1.0, k=k, got=xy, want=y)
            ctx.check(xy[0] <= view[0][0] and xy[0] + w >= view[0][1]
                      and xy[1] + h >= view[1][1], "rectangle covers the view above it",
                      xy=xy, w=w, h=h)
            ctx.label("rectangle")
        return
    # arcs
    ctx.check(len(patches) == count and ncoll == 0, "one patch per horospherical arc",
              patches=len(patches), want=count)
    for k in range(count):
        c, r = exp[k]
        pa = patches[k]
        if c is None:
            ctx.check(pa[0] == "path" and pa[2] == [D.MOVETO, D.LINETO],
                      "arc of a horocycle centred at infinity is a straight piece", kind=pa[0])
            sc = 1 + np.max(np.abs(Q[k]))
            ctx.small("straight piece joins the endpoints",
                      either_order(pa[1], Q[k]) / (1e-9 * sc ** 2), 1.0, k=k, got=pa[1],
                      want=Q[k])
            ctx.label("flat-arc")
            continue
        if r > THRESH * (1 - BAND):
            ctx.label("excluded:big-horocircle")
            continue
        ctx.check(pa[0] == "arc", "horospherical arc is an Arc", kind=pa[0], radius=r)
        _, ctr, w, h, t1, t2, ang = pa
        tol = horo_tol(model, r + float(np.max(np.abs(c))), normM)
        ctx.small("Arc centre = centre of the horocircle", np.abs(ctr - c) / tol, 1.0, k=k,
                  got=ctr, want=c)
        ctx.small("Arc width = height = 2 r", np.array([w - 2 * r, h - 2 * r]) / (2 * tol),
                  1.0, k=k, width=w, radius=r)
        ctx.check(ang == 0.0, "Arc is not rotated")
        a = [math.atan2(e[1] - c[1], e[0] - c[0]) for e in Q[k]]
        tang = D.ideal_to_model(U[k], model)
        tau = math.atan2(tang[1] - c[1], tang[0] - c[0])
        two = 2 * math.pi
        if (tau - a[0]) % two < (a[1] - a[0]) % two:
            a = a[::-1]          # the arc must not pass through the ideal centre
        atol = tol / r + 1e-9
        ctx.small("Arc theta1 is the counter-clockwise start of the arc avoiding the centre",
                  D.wrap(math.radians(t1) - a[0]) / atol, 1.0, k=k, theta1=t1,
                  want=math.degrees(a[0]))
        ctx.small("Arc extent", (math.radians((t2 - t1) % 360.0) - (a[1] - a[0]) % two)
                  / (2 * atol), 1.0, k=k, theta1=t1, theta2=t2,
                  want=math.degrees((a[1] - a[0]) % two))
        ctx.label("arc")


# ---------------------------------------------------------------------------
# law: wrong dimension is rejected
HYP_METHODS = ["draw_point", "draw_polygon", "draw_geodesic:segment", "draw_geodesic:geodesic",
               "draw_horosphere", "draw_horoarc"]
PROJ_METHODS = ["draw_point", "draw_curve", "draw_proj_segment", "draw_polygon", "draw_line"]


@st.composite
def wrongdim_case(draw):
    cls = draw(st.sampled_from(["hyperbolic", "projective"]))
    dim = draw(st.sampled_from([1, 3]))
    method = draw(st.sampled_from(HYP_METHODS if cls == "hyperbolic" else PROJ_METHODS))
    model = draw(st.sampled_from(["poincare", "halfspace", "klein"]))
    if method.startswith("draw_horo") and model == "klein":
        model = "poincare"       # horospheres are not implemented in the Klein model
    shape = draw(SHAPES)
    count = gen.prod(shape)
    k = 4
    pts = [[draw(gen.klein_point(dim, rmax=0.9)) for _ in range(k)] for _ in range(count)]
    dirs = [draw(gen.directions(dim)) for _ in range(count)]
    return dict(cls=cls, dim=dim, method=method, model=model, shape=shape, pts=pts, dirs=dirs,
                fig=draw(FIG), chart=draw(st.integers(0, 1)),
                with_transform=draw(st.booleans()))


def wrongdim_exhaustive(tier):
    cases = []
    for cls, methods in (("hyperbolic", HYP_METHODS), ("projective", PROJ_METHODS)):
        for dim in (1, 3):
            for method in methods:
                for model in (["poincare", "halfspace", "klein"] if cls == "hyperbolic"
                              else ["-"]):
                    if method.startswith("draw_horo") and model == "klein":
                        continue
                    for shape in ([], [2]):
                        count = gen.prod(shape)
                        pts = [[[0.1 * (i + 1) * (1 if j % 2 else -1) / (1 + j)
                                 for j in range(dim)] for i in range(4)]
                               for _ in range(count)]
                        dirs = [[1.0] + [0.0] * (dim - 1)] * count
                        cases.append(dict(cls=cls, dim=dim, method=method, model=model,
                                          shape=shape, pts=pts, dirs=dirs,
                                          fig=dict(size=1, own=False), chart=0,
                                          with_transform=False))
    return [("class x method x dimension(1,3) x model x shape((),(2,))", cases)]


def body_wrongdim(case, ctx):
    dim, shape, method = case["dim"], tuple(case["shape"]), case["method"]
    K = np.array(case["pts"], dtype=float).reshape(shape + (4, dim))
    Udir = np.array(case["dirs"], dtype=float).reshape(shape + (dim,))
    ctx.label("cls=" + case["cls"], "dim=%d" % dim, "method=" + method,
              "rank=%d" % len(shape))
    ones = np.ones(shape + (4, 1))
    if case["cls"] == "hyperbolic":
        pts = hyperbolic.Point(K.copy(), model="klein")
        ideal = hyperbolic.IdealPoint(np.concatenate([np.ones(shape + (1,)), Udir], axis=-1))
        ideal2 = hyperbolic.IdealPoint(np.concatenate([np.ones(shape + (1,)), -Udir], axis=-1))
        p0 = hyperbolic.Point(K[..., 0, :].copy(), model="klein")
        p1 = hyperbolic.Point(K[..., 1, :].copy(), model="klein")
        name = method.split(":")[0]
        if method == "draw_point":
            obj = pts
        elif method == "draw_polygon":
            obj = hyperbolic.Polygon(pts)
        elif method == "draw_geodesic:segment":
            obj = hyperbolic.Segment(p0, p1)
        elif method == "draw_geodesic:geodesic":
            obj = hyperbolic.Geodesic(ideal, ideal2)
        elif method == "draw_horosphere":
            obj = hyperbolic.Horosphere(ideal, p0)
        else:
            obj = hyperbolic.HorosphereArc(ideal, p0, p1)
        kw = dict(model=case["model"])
        if case["with_transform"]:
            kw["transform"] = hyperbolic.Isometry(D.iso_from_params(0.3, 0.5, 1.0, False))
        cm = make_drawing(drawtools.HyperbolicDrawing, case["fig"], **kw)
    else:
        X = np.concatenate([ones, K], axis=-1)
        name = method
        if method in ("draw_point", "draw_curve"):
            obj = projective.Point(X[..., 0, :].copy())
        elif method in ("draw_proj_segment", "draw_line"):
            obj = projective.PointPair(X[..., :2, :].copy())
        else:
            obj = projective.Polygon(X.copy())
        kw = dict(chart_index=case["chart"])
        if case["with_transform"]:
            kw["transform"] = projective.Transformation(
                np.array([[1.0, 0.2, 0], [0, 1.0, 0.3], [0.1, 0, 1.0]]))
        cm = make_drawing(drawtools.ProjectiveDrawing, case["fig"], **kw)
    ctx.check(obj.dimension == dim, "object has the intended dimension", got=obj.dimension)
    with cm as d:
        raised = None
        try:
            getattr(d, name)(obj)
        except GeometryError:
            raised = "GeometryError"
        except Exception as e:  # noqa
            raised = "%s: %s" % (type(e).__name__, e)
        added = n_artists(d.ax)
    ctx.check(raised == "GeometryError",
              "%s of a %d-dimensional object raises GeometryError" % (method, dim),
              raised=raised)
    ctx.check(added == 0, "a rejected object adds no artist", added=added)


# ---------------------------------------------------------------------------
# law: artists land on the drawing's own axes (a second figure is open)
OWN_METHODS = ["draw_polygon", "draw_geodesic:segment", "draw_geodesic:geodesic",
               "draw_horosphere", "draw_horoarc", "draw_plane"]


def own_axes_exhaustive(tier):
    cases = []
    for model in ["poincare", "halfspace", "klein"]:
        for method in OWN_METHODS:
            if model == "klein" and method in ("draw_horosphere", "draw_horoarc"):
                continue
            for own in (False, True):
                cases.append(dict(model=model, method=method,
                                  fig=dict(size=1, own=own, decoy=True)))
    return [("model x method x (own axes?) with a second figure open", cases)]


def body_own_axes(case, ctx):
    model, method = case["model"], case["method"]
    K = np.array([[0.1, 0.2], [0.6, 0.1], [0.3, 0.55], [-0.3, 0.4]])
    pts = hyperbolic.Point(K, model="klein")
    ideal = hyperbolic.IdealPoint(np.array([1.0, math.cos(2.0), math.sin(2.0)]))
    ideal2 = hyperbolic.IdealPoint(np.array([1.0, math.cos(4.0), math.sin(4.0)]))
    ctx.label("model=" + model, "method=" + method, "own" if case["fig"]["own"] else "made")
    name = method.split(":")[0]
    with make_drawing(drawtools.HyperbolicDrawing, case["fig"], model=model) as d:
        if method == "draw_polygon":
            d.draw_polygon(hyperbolic.Polygon(pts))
        elif method == "draw_geodesic:segment":
            d.draw_geodesic(hyperbolic.Segment(pts[0], pts[1]))
        elif method == "draw_geodesic:geodesic":
            d.draw_geodesic(hyperbolic.Geodesic(ideal, ideal2))
        elif method == "draw_horosphere":
            d.draw_horosphere(hyperbolic.Horosphere(ideal, pts[0]))
        elif method == "draw_horoarc":
            c, r = D.horocircle(cis(2.0), np.array([0.05, 0.1]), "poincare")
            e = [D.from_model(c + r * cis(2.0 + g), "poincare") for g in (1.0, 3.0)]
            d.draw_horoarc(hyperbolic.HorosphereArc(
                ideal, hyperbolic.Point(e[0], model="klein"),
                hyperbolic.Point(e[1], model="klein")))
        else:
            getattr(d, name)()
        mine = n_artists(d.ax)
        stray = n_artists(d._vt["decoy_ax"])
    ctx.check(stray == 0, "%s adds nothing to other axes" % method, stray=stray)
    ctx.check(mine >= 1, "%s adds its artist to drawing.ax" % method, mine=mine)


# ---------------------------------------------------------------------------
def _poly_law(model, quick, thorough, shards):
    return Law("polygon_path[%s]" % model, polygon_case(model), body_polygon, nt_polygon,
               quick=quick, thorough=thorough, shards=shards)


LAWS = [
    _poly_law("poincare", 150, 800, (3, 8)),
    _poly_law("halfspace", 150, 800, (3, 8)),
    Law("polygon_path_threshold_edges",
        st.sampled_from(ARC_MODELS).flatmap(
            lambda m: polygon_case(m, kinds=["threshold", "threshold", "straight"])),
        body_polygon, nt_polygon, quick=120, thorough=700, shards=(2, 4)),
    Law("polygon_path_integer_coordinates",
        st.sampled_from(ARC_MODELS).flatmap(int_polygon_case),
        body_polygon, nt_polygon, quick=80, thorough=600, shards=(1, 2)),
    Law("polygon_path_ideal_vertices",
        st.sampled_from(ARC_MODELS).flatmap(ideal_polygon_case),
        body_ideal_polygon, lambda l: "judged" in l, quick=100, thorough=600, shards=(1, 4)),
    Law("polygon_klein_collection",
        st.one_of(polygon_case("klein", kinds=["star", "star", "regular", "iid"]),
                  int_polygon_case("klein")),
        body_klein_polygon, nt_transform_or_composite, quick=120, thorough=700,
        shards=(1, 2)),
    Law("geodesic_arc", geodesic_case(), body_geodesic, nt_transform_or_composite,
        quick=150, thorough=900, shards=(3, 8)),
    Law("points_placed", points_case(), body_points, nt_transform_or_composite,
        quick=150, thorough=800, shards=(1, 4)),
    Law("projective_collections", projective_case(), body_projective,
        nt_transform_or_composite, quick=150, thorough=800, shards=(2, 4)),
    Law("halfplane_polygon_with_vertex_at_infinity", inf_vertex_case(), body_inf_vertex,
        lambda l: True, quick=100, thorough=700, shards=(1, 3)),
    Law("projective_polygons_crossing_infinity", nonaffine_case(), body_nonaffine,
        lambda l: "crossing=0" not in l and "skipped:ill-conditioned-sign-pattern" not in l,
        quick=120, thorough=800, shards=(1, 3)),
    Law("horosphere_ellipses", horo_case(), body_horo, nt_transform_or_composite,
        quick=150, thorough=900, shards=(2, 6)),
    Law("wrong_dimension_rejected", wrongdim_case(), body_wrongdim, lambda l: True,
        quick=60, thorough=400, shards=(1, 2), exhaustive=wrongdim_exhaustive),
    Law("artists_land_on_own_axes", None, body_own_axes, lambda l: True,
        exhaustive=own_axes_exhaustive),
    Law("points_land_on_own_axes",
        st.one_of(points_case(decoy=True),), body_points, lambda l: True,
        quick=40, thorough=200, shards=(1, 1)),
    Law("projective_points_land_on_own_axes",
        projective_case(decoy=True, methods=("point", "curve", "segment", "polygon")),
        body_projective, lambda l: True, quick=40, thorough=200, shards=(1, 1)),
]
